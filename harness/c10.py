"""C10 - seeded training is reproducible.   (category "other": partial by nature)

Why partial: "two runs with the same seed are bit-identical" says that the implementation is a
function of (seed, configuration).  Every Gallina function is one, so no executable model can exhibit
a violation (an unseeded generator, set-iteration order, a wall-clock dependency live in the Python
runtime).  What is logic - where the seeds go - is modelled and proved (Props/C10.v, axiom-free):
every generator of the registry is seeded from s at set-up; sub-env i receives s+i at its first reset
only and None afterwards; changing s changes every delivered seed; every consumer of randomness
draws from a generator of the seeded registry.

Decided by running the implementation (this file):
  (1) call-site scan (Python ast) of stable_baselines3/: every np.random.* / random.* / torch
      sampling / space.sample / entropy call resolves to one of the generators of the model's
      registry; a new np.random.default_rng()/RandomState()/random.Random()/th.Generator(), an
      aliasing import, os.urandom/secrets/uuid, a time-derived seed or an unknown .sample() receiver
      fails closed; the resulting tag list is judged by Model.Seeding.scan_ok inside coqc;
  (2) plumbing correspondence: the seeding calls observed at model set-up (random.seed, np.random.seed,
      th.manual_seed, action_space.seed, VecEnv.seed) and the seed argument of every reset() of
      every sub-environment vs Model.Seeding.run;
  (3) paired runs: same seed => bit-identical parameters, buffers, action sequences; different seed
      => different; with an entropy monitor (os.urandom, SystemRandom, Random() / default_rng() /
      RandomState() without seed, th.seed) that reports any draw reached from library code.
"""
from __future__ import annotations

import ast
import hashlib
import json
import os

from harness import common
from harness.common import Check, coq_Z, coq_list, coq_nat

REGISTRY = dict(
    category="other",
    text=("No known finding. Seed-plumbing and action-noise theorems (Coq, axiom-free, all n_envs / seeds / reset and call histories) + call-site scan judged by the model + paired-run search. Proved: after set_random_seed(s) the python, "
          "numpy, torch generators and the action space are seeded with s and sub-env i has s+i pending; sub-env i receives s+i at the first reset and None at every later explicit or automatic "
          "reset; different seeds give different generator seeds and different delivered env seeds, different sub-envs different seeds; every consumer (buffer sampling, minibatch permutation, "
          "HER sampling, action noise, epsilon-greedy, warm-up, policy sampling, gSDE weights, target-policy noise, network initialisation, env dynamics) draws from a generator of that seeded registry; "
          "the scan rule accepts exactly the sites resolving to it; re-seeding a built model seeds everything with the new seed; action noise (Normal / Ornstein-Uhlenbeck / Vectorized): OU mean closed form, "
          "outputs are a function of the configuration VALUES and the recorded draws, initial_noise is never written, reset(indices) resets exactly those, no cross-talk between per-env copies. NOT a theorem (decided by running the implementation): bit-identical parameters / buffers / actions of same-seed pairs and "
          "difference under a changed seed, over the six algorithms x n_envs 1-3 x {discrete, continuous, Dict, goal} x {gSDE resampling, action noise, epsilon-greedy, warm-up, HER, VecNormalize}."),
    note=("All C10 theorems are closed under the global context (no axioms). Trusted: Coq 8.16.1 kernel, harness/c10.py (ast scan rules, hooks, entropy monitor), Python/numpy/torch/gymnasium. "
          "Paired runs are testing, not proof: a difference in a configuration that was not run is unseen; same machine, same process, CPU, torch.set_num_threads(1) only."),
    technique="machine-checked proof in Coq of the seed plumbing + ast call-site scan judged by the model + differential paired runs with an entropy monitor",
)

HEADER = """From Coq Require Import List ZArith Bool.
From SB3V Require Import Model.Seeding.
Import ListNotations.
Local Open Scope Z_scope.
Definition opt2z (l : list (list (option Z))) : list (list Z) := map (map (fun o => match o with Some z => z | None => -1 end)) l.
Definition gs2z (g : gstate) : Z := match g with Seeded s => s | Unseeded => -1 end.
"""

# ---------------------------------------------------------------- (1) call-site scan
TAG_PY, TAG_NP, TAG_TORCH, TAG_ASPACE, TAG_ENV, TAG_FAIL = 0, 1, 2, 3, 4, 9
SKIP_DIRS = ("stable_baselines3/common/envs/",)          # example environments, not library training code
SKIP_FILES = ("stable_baselines3/common/env_checker.py",)  # diagnostic tool run by the user on an env, not part of training
# reviewed exceptions: (file, text of the call) -> why it cannot influence a result
ALLOW = {
    ("stable_baselines3/common/torch_layers.py", "observation_space.sample()"): "NatureCNN probes the flattened size with a sampled observation; only the shape is used",
}
NP_NEW_GEN = {"default_rng", "RandomState", "Generator", "SeedSequence", "PCG64", "PCG64DXSM", "MT19937", "Philox", "SFC64", "BitGenerator"}
TORCH_SAMPLERS = {"rand", "randn", "randint", "randperm", "normal", "multinomial", "bernoulli", "poisson", "rand_like", "randn_like", "randint_like", "manual_seed"}
RISKY_ATTRS = {"sample", "rsample", "seed", "manual_seed", "default_rng", "RandomState", "random", "randint", "choice", "permutation", "shuffle", "normal", "uniform", "rand", "randn",
               "integers", "normal_", "uniform_", "random_", "bernoulli_", "urandom"}
TORCH_INPLACE = {"normal_", "uniform_", "random_", "bernoulli_", "exponential_", "cauchy_", "log_normal_", "geometric_"}


def dotted(n):
    if isinstance(n, ast.Name):
        return n.id
    if isinstance(n, ast.Attribute):
        b = dotted(n.value)
        return None if b is None else b + "." + n.attr
    if isinstance(n, ast.Call):
        b = dotted(n.func)
        return None if b is None else b + "()"
    if isinstance(n, ast.Subscript):
        b = dotted(n.value)
        return None if b is None else b + "[]"
    return None


def classify_call(rel, node, imports):
    """-> (tag, why) or None when the call draws nothing"""
    name = dotted(node.func)
    if name is None:
        # fail closed: a sampling-looking method on a receiver the scan cannot resolve
        if isinstance(node.func, ast.Attribute) and node.func.attr in RISKY_ATTRS:
            return TAG_FAIL, f"unresolvable receiver of .{node.func.attr}(): {ast.unparse(node)[:80]}"
        return None
    parts = name.split(".")
    if len(parts) == 1 and parts[0] in imports.get("__risky_names__", ()):
        return TAG_FAIL, f"call of a name bound to a random/entropy function: {ast.unparse(node)[:80]}"
    fn = parts[-1]
    recv = ".".join(parts[:-1])
    kw = {k.arg for k in node.keywords}
    text = ast.unparse(node)
    np_names = {a for a, m in imports.items() if m == "numpy"}
    th_names = {a for a, m in imports.items() if m == "torch"}
    rnd_names = {a for a, m in imports.items() if m == "random"}
    if fn in ("seed", "manual_seed") and any("time" in (dotted(x) or "") for a in list(node.args) + [k.value for k in node.keywords] for x in ast.walk(a)):
        return TAG_FAIL, f"time-derived seed {text}"
    if any(recv == f"{a}.random" for a in np_names):
        if fn in NP_NEW_GEN:
            return TAG_FAIL, f"new private numpy generator {text}"
        return TAG_NP, "numpy global generator"
    if recv in rnd_names:
        if fn in ("Random", "SystemRandom"):
            return TAG_FAIL, f"new private python generator {text}"
        return TAG_PY, "python global generator"
    if recv in th_names or any(recv == f"{a}.random" for a in th_names):
        if fn in ("Generator",):
            return TAG_FAIL, f"new private torch generator {text}"
        if fn == "seed":
            return TAG_FAIL, f"non-deterministic torch seeding {text}"
        if fn in TORCH_SAMPLERS:
            return (TAG_FAIL, f"explicit generator argument in {text}") if "generator" in kw else (TAG_TORCH, "torch global generator")
        return None
    if fn in TORCH_INPLACE or fn == "rsample":
        return (TAG_FAIL, f"explicit generator argument in {text}") if "generator" in kw else (TAG_TORCH, "torch global generator (tensor / distribution method)")
    if name in ("os.urandom",) or parts[0] in ("secrets",) or name in ("uuid.uuid1", "uuid.uuid4"):
        return TAG_FAIL, f"entropy source {text}"
    if "np_random" in parts[:-1]:
        return TAG_ENV, "the environment's own generator (seeded through reset(seed))"
    if fn == "sample":
        if rel.endswith("common/distributions.py"):
            return TAG_TORCH, "torch distribution sampling"
        if recv == "self.action_space":
            return TAG_ASPACE, "the model's action space generator (seeded by set_random_seed)"
        if recv.endswith("action_space"):
            return TAG_FAIL, f"draw from an action space other than the model's own (not seeded by set_random_seed): {text}"
        if "buffer" in recv or recv == "super()":
            return None  # delegation: the draws inside the buffers are scanned where they happen
        if "distribution" in recv or recv.endswith("dist"):
            return TAG_TORCH, "torch distribution sampling"
        if "space" in recv:
            return TAG_FAIL, f"draw from a space that set_random_seed does not seed: {text}"
        return TAG_FAIL, f"unknown sampler {text}"
    return None


# every scanned draw site is an implementation of one consumer of Model.Seeding (None: a seeding call, not a draw)
SITE_CONSUMER = [
    ("common/buffers.py", "np.random.permutation", "CRolloutPermutation"), ("common/buffers.py", "np.random.randint", "CReplaySample"),
    ("her/her_replay_buffer.py", "np.random.choice", "CHerSample"), ("her/her_replay_buffer.py", "np.random.randint", "CHerGoalSample"),
    ("common/noise.py", "np.random.normal", "CActionNoise"), ("dqn/dqn.py", "np.random.rand", "CEpsilonGreedy"),
    ("dqn/dqn.py", "self.action_space.sample", "CEpsilonRandomAction"), ("common/off_policy_algorithm.py", "self.action_space.sample", "CWarmupActionSample"),
    ("common/distributions.py", "weights_dist.rsample", "CGsdeWeights"), ("common/distributions.py", "sample", "CPolicySample"),
    ("td3/td3.py", "normal_", "CTargetPolicyNoise"), ("common/vec_env/base_vec_env.py", "np.random.randint", "CVecEnvSeedFallback"),
    ("common/atari_wrappers.py", "np_random", "(CEnvDynamics 0)"),
    ("common/utils.py", "random.seed", None), ("common/utils.py", "np.random.seed", None), ("common/utils.py", "th.manual_seed", None),
]


def site_consumer(rel, text):
    for suffix, needle, cons in SITE_CONSUMER:
        if rel.endswith(suffix) and needle in text:
            return True, cons
    return False, None


def scan_repo():
    root = common.REPO
    sites, failures, allowed = [], [], []
    for dp, _, files in os.walk(os.path.join(root, "stable_baselines3")):
        for f in sorted(files):
            if not f.endswith(".py"):
                continue
            path = os.path.join(dp, f)
            rel = os.path.relpath(path, root)
            if rel.startswith(SKIP_DIRS) or rel in SKIP_FILES:
                continue
            tree = ast.parse(open(path).read())
            imports = {}
            risky = set()
            RANDOM_MODS = ("random", "numpy.random", "secrets", "torch.random")
            for n in ast.walk(tree):
                if isinstance(n, ast.Import):
                    for a in n.names:
                        if a.name in ("numpy", "torch", "random"):
                            imports[a.asname or a.name] = a.name
                        if a.name in ("numpy.random", "torch.random", "secrets"):
                            failures.append((rel, n.lineno, f"import {a.name} (alias would escape the scan)"))
                elif isinstance(n, ast.ImportFrom):
                    names = [a.name for a in n.names]
                    if n.module in RANDOM_MODS:
                        failures.append((rel, n.lineno, f"from {n.module} import {', '.join(names)} (bare names would escape the scan)"))
                        risky.update(a.asname or a.name for a in n.names)
                    elif n.module in ("numpy", "torch") and "random" in names:
                        failures.append((rel, n.lineno, f"from {n.module} import random (module alias would escape the scan)"))
                    elif n.module == "os" and "urandom" in names:
                        failures.append((rel, n.lineno, "from os import urandom"))
                        risky.add("urandom")
                    elif n.module == "uuid" and any(x in ("uuid1", "uuid4") for x in names):
                        failures.append((rel, n.lineno, "from uuid import uuid1/uuid4"))
                    elif n.module == "torch" and any(x in TORCH_SAMPLERS for x in names):
                        failures.append((rel, n.lineno, f"from torch import {names} (bare samplers would escape the scan)"))
                elif isinstance(n, ast.Assign) and isinstance(n.value, (ast.Attribute, ast.Name)):
                    d = dotted(n.value) or ""
                    head = d.split(".")
                    is_mod_alias = d in ("np.random", "numpy.random", "random", "th.random", "torch.random")
                    is_fn_alias = (len(head) >= 2 and ".".join(head[:-1]) in ("np.random", "numpy.random", "random", "th.random", "torch.random", "os", "secrets")
                                   and (head[-1] in RISKY_ATTRS or head[-1] in NP_NEW_GEN)) or (len(head) == 2 and head[0] in ("th", "torch") and head[1] in TORCH_SAMPLERS)
                    if is_mod_alias or is_fn_alias:
                        failures.append((rel, n.lineno, f"alias of a random module / function: {ast.unparse(n)[:80]}"))
            imports["__risky_names__"] = risky
            for n in ast.walk(tree):
                if isinstance(n, ast.Call):
                    r = classify_call(rel, n, imports)
                    if r is None:
                        continue
                    tag, why = r
                    text = ast.unparse(n)
                    key = next((k for k in ALLOW if k[0] == rel and k[1] in text), None)
                    if tag == TAG_FAIL and key is not None:
                        allowed.append((rel, n.lineno, text, ALLOW[key]))
                        continue
                    sites.append((rel, n.lineno, text[:120], tag, why))
    return sites, failures, allowed


# ---------------------------------------------------------------- environments
def make_env_fn(kind, log):
    """kind: discrete | continuous | dict | goal.  Every draw of the env goes through self.np_random."""
    import gymnasium as gym
    import numpy as np
    from gymnasium import spaces

    class Base(gym.Env):
        def __init__(self, idx):
            self.idx = idx
            self._t = 0
            self._len = 4
            self.reset_seeds = []
            self.reset_options = []
            self.actions = []
            if kind in ("discrete", "dictd"):
                self.action_space = spaces.Discrete(3)
            else:
                self.action_space = spaces.Box(-1, 1, (2,), dtype=np.float32)
            box = spaces.Box(-2, 2, (3,), dtype=np.float32)
            if kind in ("dict", "dictd"):
                self.observation_space = spaces.Dict({"vec": box, "flag": spaces.Discrete(3)})
            elif kind == "goal":
                g = spaces.Box(-2, 2, (2,), dtype=np.float32)
                self.observation_space = spaces.Dict({"observation": box, "achieved_goal": g, "desired_goal": g})
            else:
                self.observation_space = box
            log.append(self)

        def _obs(self):
            v = self.np_random.uniform(-1, 1, 3).astype(np.float32)
            if kind in ("dict", "dictd"):
                return {"vec": v, "flag": int(self.np_random.integers(0, 3))}
            if kind == "goal":
                return {"observation": v, "achieved_goal": v[:2].copy(), "desired_goal": self._goal.copy()}
            return v

        def compute_reward(self, achieved_goal, desired_goal, info):
            return -(np.linalg.norm(np.asarray(achieved_goal) - np.asarray(desired_goal), axis=-1) > 0.5).astype(np.float32)

        def reset(self, *, seed=None, options=None):
            super().reset(seed=seed)
            self.reset_seeds.append(seed)
            self.reset_options.append(options)
            self._t = 0
            self._len = int(self.np_random.integers(2, 7))
            self._goal = self.np_random.uniform(-1, 1, 2).astype(np.float32)
            return self._obs(), {}

        def step(self, action):
            self.actions.append(np.asarray(action).copy())
            self._t += 1
            obs = self._obs()
            if kind == "goal":
                r = float(self.compute_reward(obs["achieved_goal"], obs["desired_goal"], {}))
            else:
                r = float(np.sin(float(np.sum(action)) + self._t) + 0.3 * self.np_random.normal())
            term = self._t >= self._len
            trunc = (not term) and self._t >= 5
            return obs, r, term, trunc, {}

    return Base


def make_conf(cfg):
    """the user's configuration objects of one pair, built ONCE as plain data and reused by every run of
    the pair (as a user script would): noise arrays, policy_kwargs, learning rate"""
    import numpy as np

    conf = {"policy_kwargs": {"net_arch": [8]}, "learning_rate": 7e-4}
    if cfg.get("noise"):
        conf["noise_mean"] = np.zeros(2)
        conf["noise_sigma"] = 0.3 * np.ones(2)
        conf["initial_noise"] = np.array([0.1, -0.2]) if cfg.get("initial_noise") else None
    return conf


def conf_fingerprint(conf):
    import numpy as np

    out = {}
    for k, v in conf.items():
        if isinstance(v, np.ndarray):
            out[k] = hashlib.sha256(np.ascontiguousarray(v).tobytes()).hexdigest()[:12] + f":{v.dtype}:{v.shape}"
        else:
            out[k] = json.dumps(v, sort_keys=True, default=str)
    return out


def build(cfg, seed, logs, conf):
    import numpy as np
    import torch as th

    th.set_num_threads(1)
    import stable_baselines3 as sb3
    from stable_baselines3.common.noise import NormalActionNoise, OrnsteinUhlenbeckActionNoise, VectorizedActionNoise
    from stable_baselines3.common.vec_env import DummyVecEnv, VecNormalize

    cls = make_env_fn(cfg["env"], logs)
    n = cfg["n_envs"]
    venv = DummyVecEnv([(lambda i=i: cls(i)) for i in range(n)])
    if cfg.get("vecnormalize"):
        venv = VecNormalize(venv, norm_obs=True, norm_reward=True)
    algo = cfg["algo"]
    policy = "MultiInputPolicy" if cfg["env"] in ("dict", "dictd", "goal") else "MlpPolicy"
    kw = dict(seed=seed, device="cpu", verbose=0, learning_rate=conf["learning_rate"])
    pk = conf["policy_kwargs"]  # the user's dict itself, not a copy
    if algo == "ppo":
        m = sb3.PPO(policy, venv, n_steps=8, batch_size=4 * n, n_epochs=2, use_sde=cfg.get("use_sde", False), sde_sample_freq=cfg.get("sde_sample_freq", -1), policy_kwargs=pk, **kw)
    elif algo == "a2c":
        m = sb3.A2C(policy, venv, n_steps=5, use_sde=cfg.get("use_sde", False), sde_sample_freq=cfg.get("sde_sample_freq", -1), policy_kwargs=pk, **kw)
    elif algo == "dqn":
        mem = dict(optimize_memory_usage=True, replay_buffer_kwargs=dict(handle_timeout_termination=False)) if cfg.get("optimize_memory") else {}
        m = sb3.DQN(policy, venv, batch_size=8, learning_starts=10, train_freq=2, gradient_steps=1, target_update_interval=7, exploration_fraction=0.8, exploration_final_eps=0.3,
                    buffer_size=cfg.get("buffer_size", 100), policy_kwargs=pk, **mem, **kw)
    else:
        noise = None
        if cfg.get("noise") == "normal":
            noise = NormalActionNoise(conf["noise_mean"], conf["noise_sigma"])
        elif cfg.get("noise") == "ou":
            noise = OrnsteinUhlenbeckActionNoise(conf["noise_mean"], conf["noise_sigma"], initial_noise=conf["initial_noise"])
        if noise is not None and n > 1:
            noise = VectorizedActionNoise(noise, n)
        extra = {}
        if cfg.get("her"):
            from stable_baselines3 import HerReplayBuffer

            extra = dict(replay_buffer_class=HerReplayBuffer, replay_buffer_kwargs=dict(n_sampled_goal=2, goal_selection_strategy=cfg.get("her_strategy", "future"), copy_info_dict=bool(cfg.get("copy_info_dict"))))
        common_kw = dict(batch_size=8, learning_starts=cfg.get("learning_starts", 12), train_freq=2, gradient_steps=1, buffer_size=120, action_noise=noise, policy_kwargs=pk, **extra, **kw)
        if algo == "sac":
            m = sb3.SAC(policy, venv, use_sde=cfg.get("use_sde", False), sde_sample_freq=cfg.get("sde_sample_freq", -1), use_sde_at_warmup=cfg.get("use_sde", False), **common_kw)
        elif algo == "td3":
            m = sb3.TD3(policy, venv, **common_kw)
        else:
            m = sb3.DDPG(policy, venv, **common_kw)
    return m, venv


def fingerprint(m, envs):
    import numpy as np

    def h(chunks):
        d = hashlib.sha256()
        for c in chunks:
            d.update(c)
        return d.hexdigest()[:16]

    params = []
    for k, v in sorted(m.policy.state_dict().items()):
        params.append(k.encode())
        params.append(v.detach().cpu().numpy().tobytes())
    bufs = []
    buf = getattr(m, "replay_buffer", None) or getattr(m, "rollout_buffer", None)
    for name in ("observations", "next_observations", "actions", "rewards", "dones", "values", "log_probs", "advantages", "returns", "timeouts", "ep_start", "ep_length"):
        a = getattr(buf, name, None)
        if a is None:
            continue
        if isinstance(a, dict):
            for k in sorted(a):
                bufs.append(np.ascontiguousarray(a[k]).tobytes())
        else:
            bufs.append(np.ascontiguousarray(a).tobytes())
    acts = [np.ascontiguousarray(np.array(e.actions)).tobytes() for e in envs]
    extra = []
    from stable_baselines3.common.vec_env import VecNormalize

    if isinstance(m.get_env(), VecNormalize):
        vn = m.get_env()
        rms = vn.obs_rms if not isinstance(vn.obs_rms, dict) else list(vn.obs_rms.values())[0]
        extra = [np.ascontiguousarray(rms.mean).tobytes(), np.ascontiguousarray(rms.var).tobytes(), np.ascontiguousarray(vn.ret_rms.var).tobytes()]
    return {"parameters": h(params), "buffers": h(bufs), "actions": h(acts), "vecnormalize": h(extra), "n_actions": sum(len(e.actions) for e in envs)}



# ---------------------------------------------------------------- noise.py correspondence (round 3)
NOISE_HEADER = """From Coq Require Import List QArith ZArith Bool.
From SB3V Require Import Model.Noise.
Import ListNotations.
Fixpoint veqb (a b : list Q) : bool := match a, b with [] , [] => true | x :: s, y :: t => Qeq_bool x y && veqb s t | _, _ => false end.
Fixpoint vveqb (a b : list (list Q)) : bool := match a, b with [], [] => true | x :: s, y :: t => veqb x y && vveqb s t | _, _ => false end.
Fixpoint vvveqb (a b : list (list (list Q))) : bool := match a, b with [], [] => true | x :: s, y :: t => vveqb x y && vvveqb s t | _, _ => false end.
"""


def _ql(v):
    from fractions import Fraction
    return coq_list([Fraction(float(x)) for x in v], common.coq_Q)


def _qll(rows):
    return "[" + "; ".join(_ql(r) for r in rows) + "]"


def gen_noise_case(rng, i):
    d = rng.randint(1, 3)
    dy = lambda lo, hi, q=4: rng.randint(lo * q, hi * q) / q  # noqa: E731
    kind = ["normal", "ou", "vec-ou", "vec-normal", "ou"][i % 5]
    n_envs = rng.randint(1, 3) if kind.startswith("vec") else 1
    dt = rng.choice([0.25, 1.0, 0.0625])
    c = {"kind": kind, "id": i, "d": d, "n_envs": n_envs, "mu": [dy(-2, 2) for _ in range(d)], "sigma": [dy(0, 2) for _ in range(d)],
         "theta": rng.choice([0.5, 0.25, 1.0, 0.125]), "dt": dt, "initial_noise": [dy(-2, 2) for _ in range(d)] if rng.random() < 0.6 else None,
         "dtype": "float64" if rng.random() < 0.8 else "float32"}
    ops = []
    for _ in range(rng.randint(2, 7)):
        if rng.random() < 0.65:
            ops.append(["call", [[dy(-2, 2) for _ in range(d)] for _ in range(n_envs)]])
        elif kind.startswith("vec") and rng.random() < 0.7:
            ops.append(["reset", [rng.randrange(n_envs) for _ in range(rng.randint(0, 3))]])
        else:
            ops.append(["reset", None])
    c["ops"] = ops
    return c


def run_noise_case(c):
    """real classes with np.random.normal replaced by the recorded oracle; returns (problems, coq_expr or None)"""
    from fractions import Fraction as F

    import numpy as np
    from stable_baselines3.common import noise as N

    probs = []
    d, kind, n_envs = c["d"], c["kind"], c["n_envs"]
    mu, sigma = np.array(c["mu"], dtype=np.float64), np.array(c["sigma"], dtype=np.float64)
    init = None if c["initial_noise"] is None else np.array(c["initial_noise"], dtype=np.float64)
    conf0 = (mu.copy(), sigma.copy(), None if init is None else init.copy())
    dtype = np.float64 if c["dtype"] == "float64" else np.float32
    queue = []

    def fake_normal(loc=0.0, scale=1.0, size=None):
        n = np.array(queue.pop(0), dtype=np.float64)
        want = np.shape(loc) if size is None else tuple(np.atleast_1d(size))
        if tuple(n.shape) != tuple(want):
            probs.append(("noise-draw-shape", f"np.random.normal asked for shape {want}, action dimension is {n.shape}"))
        return loc + scale * n

    is_ou = kind in ("ou", "vec-ou")
    base = (N.OrnsteinUhlenbeckActionNoise(mu, sigma, theta=c["theta"], dt=c["dt"], initial_noise=init, dtype=dtype) if is_ou
            else N.NormalActionNoise(mu, sigma, dtype=dtype))
    obj = N.VectorizedActionNoise(base, n_envs) if kind.startswith("vec") else base
    outs = []
    orig = np.random.normal
    np.random.normal = fake_normal
    try:
        for op, arg in c["ops"]:
            if op == "call":
                queue.extend(arg)
                y = obj()
                if queue:
                    probs.append(("noise-draw-count", f"one __call__ consumed {len(arg) - len(queue)} draws, expected {len(arg)} (one per env)"))
                    queue.clear()
                want_shape = (n_envs, d) if kind.startswith("vec") else (d,)
                if tuple(y.shape) != want_shape or y.dtype != dtype:
                    probs.append(("noise-output-shape-dtype", f"__call__ returned shape {y.shape} dtype {y.dtype}, expected {want_shape} {dtype}"))
                subs = obj.noises if kind.startswith("vec") else [obj]
                for sub in subs + ([base] if kind.startswith("vec") else []):
                    st = getattr(sub, "noise_prev", None)
                    if st is not None and np.shares_memory(y, st):
                        probs.append(("noise-output-aliases-state", "__call__ returned an array sharing memory with the stored state"))
                    ini = getattr(sub, "initial_noise", None)
                    if ini is not None and np.shares_memory(y, ini):
                        probs.append(("noise-output-aliases-initial-noise", "__call__ returned an array sharing memory with initial_noise"))
                outs.append(np.array(y, dtype=np.float64).reshape(n_envs, d).tolist())
            elif kind.startswith("vec"):
                obj.reset(arg)
            else:
                obj.reset()
    except Exception as e:
        probs.append(("noise-exception", f"{type(e).__name__}: {e}"))
    finally:
        np.random.normal = orig
    # configuration arrays unchanged (value), incl. the base noise handed to VectorizedActionNoise
    for name, arr, old in (("mean", mu, conf0[0]), ("sigma", sigma, conf0[1]), ("initial_noise", init, conf0[2])):
        if arr is not None and not np.array_equal(arr, old):
            probs.append((f"run-mutates-configuration-{name}", f"{kind}: using the noise object changed the caller's {name} array {old.tolist()} -> {arr.tolist()}"))
    # oracle: the textbook recurrences in exact fractions, one independent process per env
    fr = lambda v: [F(float(x)) for x in v]  # noqa: E731
    Fm, Fs = fr(c["mu"]), fr(c["sigma"])
    x0 = fr(c["initial_noise"]) if c["initial_noise"] is not None else [F(0)] * d
    th, dt, sq = F(c["theta"]), F(c["dt"]), F(math_sqrt_dyadic(c["dt"]))
    states = [list(x0) for _ in range(n_envs)]
    want_outs = []
    for op, arg in c["ops"]:
        if op == "call":
            row = []
            for e in range(n_envs):
                n = fr(arg[e])
                if is_ou:
                    states[e] = [x + th * (m - x) * dt + s_ * sq * z for x, m, s_, z in zip(states[e], Fm, Fs, n)]
                    row.append(list(states[e]))
                else:
                    row.append([m + s_ * z for m, s_, z in zip(Fm, Fs, n)])
            want_outs.append(row)
        else:
            for e in (range(n_envs) if arg is None else arg):
                states[e] = list(x0)
    exact = c["dtype"] == "float64"
    for k, (got, want) in enumerate(zip(outs, want_outs)):
        for e in range(n_envs):
            w = [float(v) if exact else float(np.float32(float(v))) for v in want[e]]
            if got[e] != w:
                probs.append(("noise-value", f"{kind}: call {k} env {e}: returned {got[e]}, recurrence gives {w}"))
                break
    if len(outs) != len(want_outs):
        probs.append(("noise-call-count", f"{len(outs)} outputs for {len(want_outs)} calls"))
    if not exact or probs:
        return probs, None
    # model
    cfg = (f"{{| c_theta := {common.coq_Q(th)}; c_dt := {common.coq_Q(dt)}; c_sqdt := {common.coq_Q(sq)}; c_mu := {_ql(c['mu'])}; c_sigma := {_ql(c['sigma'])} |}}" if is_ou else
           f"{{| c_theta := 1; c_dt := 1; c_sqdt := 1; c_mu := {_ql(c['mu'])}; c_sigma := {_ql(c['sigma'])} |}}")
    if kind == "ou":
        ops = "[" + "; ".join(f"OCall {_ql(a[0])}" if o == "call" else "OReset" for o, a in c["ops"]) + "]"
        if c["initial_noise"] is not None:
            expr = (f"let ho := ou_new [{_ql(c['initial_noise'])}] {cfg} (Some 0%nat) in let r := ou_run (fst ho) (snd ho) {ops} in "
                    f"(vveqb (map (hget (fst (fst r))) (snd r)) {_qll([o[0] for o in outs])}, veqb (hget (fst (fst r)) 0) {_ql(c['initial_noise'])})")
        else:
            expr = (f"let ho := ou_new [] {cfg} None in let r := ou_run (fst ho) (snd ho) {ops} in "
                    f"(vveqb (map (hget (fst (fst r))) (snd r)) {_qll([o[0] for o in outs])}, true)")
    elif kind == "normal":
        calls = [a[0] for o, a in c["ops"] if o == "call"]
        expr = f"(vveqb (map (normal_call {_ql(c['mu'])} {_ql(c['sigma'])}) {_qll(calls)}) {_qll([o[0] for o in outs])}, true)"
    else:
        vops = "[" + "; ".join(f"VCall {_qll(a)}" if o == "call" else ("VReset None" if a is None else f"VReset (Some {coq_list(a, coq_nat)})") for o, a in c["ops"]) + "]"
        x0q = _ql(c["initial_noise"]) if (is_ou and c["initial_noise"] is not None) else f"(zeros_like {_ql(c['mu'])})"
        expr = (f"match vec_make {coq_Z(n_envs)} {x0q} with Some st => (vvveqb (snd (vrun {cfg} {x0q} st {vops})) "
                + "[" + "; ".join(_qll(o) for o in outs) + "]" + ", true) | None => (false, false) end")
    return probs, expr


def math_sqrt_dyadic(dt):
    import math

    r = math.sqrt(dt)
    assert r * r == dt
    return r


def noise_validation_problems():
    from stable_baselines3.common import noise as N
    import numpy as np

    probs = []
    # __repr__ of the three classes names the parameters
    b0 = N.NormalActionNoise(np.zeros(2), np.ones(2))
    o0 = N.OrnsteinUhlenbeckActionNoise(np.zeros(2), np.ones(2))
    for obj in (b0, o0, N.VectorizedActionNoise(o0, 2)):
        r = repr(obj)
        if not (("mu=" in r and "sigma=" in r) or "BaseNoise" in r):
            probs.append(("noise-repr", f"repr of {type(obj).__name__} does not name its parameters: {r}"))
    # noises setter: wrong length / wrong type are rejected
    v0 = N.VectorizedActionNoise(b0, 2)
    for bad, exc in (([b0], AssertionError), ([o0, o0], ValueError)):
        try:
            v0.noises = bad
            probs.append(("noise-vectorized-accepts-bad-noises", f"VectorizedActionNoise.noises = {bad!r} did not raise"))
        except exc:
            pass
    base = N.NormalActionNoise(np.zeros(2), np.ones(2))
    for bad in (0, -1):
        try:
            N.VectorizedActionNoise(base, bad)
            probs.append(("noise-vectorized-accepts-bad-n-envs", f"VectorizedActionNoise(base, {bad}) did not raise"))
        except ValueError:
            pass
    for bad, exc in ((None, ValueError), (3, TypeError)):
        try:
            N.VectorizedActionNoise(bad, 2)
            probs.append(("noise-vectorized-accepts-bad-base", f"VectorizedActionNoise({bad!r}, 2) did not raise"))
        except exc:
            pass
    v = N.VectorizedActionNoise(N.OrnsteinUhlenbeckActionNoise(np.zeros(2), np.ones(2), initial_noise=np.ones(2)), 3)
    ids = {id(n) for n in v.noises} | {id(v.base_noise)}
    arrs = [n.initial_noise for n in v.noises] + [v.base_noise.initial_noise]
    if len(ids) != 4 or any(np.shares_memory(a, b) for i, a in enumerate(arrs) for b in arrs[i + 1:]):
        probs.append(("noise-vectorized-copies-share-state", "the per-env noises are not independent deep copies of the base noise"))
    return probs


def seed_api_problems():
    """VecEnv.seed() without a seed draws it from the (seeded) numpy global generator; utils.set_random_seed(using_cuda=True)
    additionally sets the cuDNN determinism flags; VecEnvWrapper.seed delegates"""
    import numpy as np
    import torch as th
    from stable_baselines3.common.utils import set_random_seed
    from stable_baselines3.common.vec_env import DummyVecEnv, VecNormalize

    probs = []
    cls = make_env_fn("continuous", [])
    venv = VecNormalize(DummyVecEnv([(lambda i=i: cls(i)) for i in range(3)]))
    np.random.seed(77)
    want = int(np.random.randint(0, np.iinfo(np.uint32).max, dtype=np.uint32))
    np.random.seed(77)
    got = venv.seed()
    if [int(x) for x in got] != [want, want + 1, want + 2]:
        probs.append(("vecenv-seed-fallback", f"VecEnv.seed() after np.random.seed(77) returned {got}, expected {[want, want + 1, want + 2]} (drawn from the numpy global generator, +idx per sub-env)"))
    np.random.seed(77)
    if [int(x) for x in venv.seed()] != [int(x) for x in got]:
        probs.append(("vecenv-seed-fallback-not-reproducible", "VecEnv.seed() is not a function of the numpy global generator state"))
    old = (th.backends.cudnn.deterministic, th.backends.cudnn.benchmark)
    try:
        th.backends.cudnn.deterministic, th.backends.cudnn.benchmark = False, True
        set_random_seed(5, using_cuda=True)
        if not (th.backends.cudnn.deterministic is True and th.backends.cudnn.benchmark is False and th.initial_seed() == 5):
            probs.append(("cuda-determinism-flags", "set_random_seed(using_cuda=True) did not set cudnn.deterministic=True / benchmark=False"))
    finally:
        th.backends.cudnn.deterministic, th.backends.cudnn.benchmark = old
    return probs


def noise_campaign(chk):
    n = 80 if chk.tier == "quick" else 1500
    fixed = [
        {"kind": "ou", "id": -1, "d": 2, "n_envs": 1, "mu": [0.0, 1.0], "sigma": [1.0, 2.0], "theta": 0.5, "dt": 0.25, "initial_noise": [0.5, -1.0], "dtype": "float64",
         "ops": [["call", [[1.0, 1.0]]], ["call", [[0.0, -1.0]]], ["reset", None], ["call", [[1.0, 1.0]]]]},
        {"kind": "vec-ou", "id": -2, "d": 1, "n_envs": 3, "mu": [0.0], "sigma": [1.0], "theta": 0.5, "dt": 1.0, "initial_noise": [1.0], "dtype": "float64",
         "ops": [["call", [[1.0], [2.0], [-1.0]]], ["reset", [1, 1]], ["call", [[0.0], [0.0], [0.0]]], ["reset", []], ["call", [[1.0], [1.0], [1.0]]]]},
    ]
    cases = fixed + [gen_noise_case(chk.rng, i) for i in range(n)]
    exprs, owners, reported = [], [], 0
    hist = {}
    for c in cases:
        hist[c["kind"]] = hist.get(c["kind"], 0) + 1
        probs, expr = run_noise_case(c)
        if probs and reported < 2:
            reported += 1
            chk.violation(probs[0][0], "; ".join(m for _, m in probs[:3]), {"noise_case": c, "problems": probs[:6], "kind": "noise"}, found_input=True)
        if expr is not None:
            exprs.append(expr)
            owners.append(c)
    for sig, msg in noise_validation_problems()[:2]:
        chk.violation(sig, msg, {"kind": "noise-validation"}, found_input=True)
    vals = common.coq_eval_many("C10noise", NOISE_HEADER, exprs, shard=60, procs=2) if exprs else []
    bad = [(c, v) for c, v in zip(owners, vals) if not (v[0] is True and v[1] is True)]
    for c, v in bad[:2]:
        chk.violation("model-correspondence-noise", f"Model.Noise disagrees with the implementation (outputs equal: {v[0]}, initial_noise cell unchanged: {v[1]})",
                      {"noise_case": c, "correspondence": "harness/c10.py noise_campaign vs Model/Noise.v"}, found_input=False)
    return {"cases": len(cases), "model_evaluations": len(exprs), "by_kind": hist}


# ---------------------------------------------------------------- entropy monitor + seeding-call log
class Monitor:
    def __init__(self):
        self.entropy = []   # (what, innermost stable_baselines3 frame)
        self.seed_calls = []  # (which, arg)
        self._undo = []

    def _sb3_frame(self):
        import traceback

        stack = traceback.extract_stack()[:-2]
        if any(fr.filename.startswith("<frozen importlib") for fr in stack):
            return None  # a generator created while a module is being imported is not a training draw
        for fr in reversed(stack):
            if "/stable_baselines3/" in fr.filename:
                return f"{fr.filename.split('/stable_baselines3/')[-1]}:{fr.lineno}"
        return None

    def _note(self, what):
        where = self._sb3_frame()
        if where is not None:
            self.entropy.append((what, where))

    def __enter__(self):
        import random

        import numpy as np
        import torch as th
        from gymnasium import spaces
        from stable_baselines3.common.vec_env.base_vec_env import VecEnv

        def patch(obj, name, new):
            old = getattr(obj, name)
            setattr(obj, name, new)
            self._undo.append((obj, name, old))

        mon = self
        o_urandom = os.urandom
        patch(os, "urandom", lambda n: (mon._note("os.urandom"), o_urandom(n))[1])
        o_rng = np.random.default_rng

        def default_rng(seed=None, *a, **k):
            if seed is None:
                mon._note("np.random.default_rng() without a seed")
            return o_rng(seed, *a, **k)

        patch(np.random, "default_rng", default_rng)
        o_rs = np.random.RandomState

        class RS(o_rs):
            def __init__(self, seed=None, *a, **k):
                if seed is None:
                    mon._note("np.random.RandomState() without a seed")
                super().__init__(seed, *a, **k)

        patch(np.random, "RandomState", RS)
        o_pyseed = random.Random.seed

        def pyseed(self, a=None, *args, **k):
            if a is None:
                mon._note("random.Random().seed(None) / random.seed() from OS entropy")
            return o_pyseed(self, a, *args, **k)

        patch(random.Random, "seed", pyseed)
        o_sysrand = random.SystemRandom.random
        patch(random.SystemRandom, "random", lambda self: (mon._note("random.SystemRandom"), o_sysrand(self))[1])
        o_thseed = th.seed
        patch(th, "seed", lambda: (mon._note("torch.seed() (non-deterministic)"), o_thseed())[1])
        # seeding calls (plumbing correspondence)
        o_rseed = random.seed
        patch(random, "seed", lambda a=None, *x, **k: (mon.seed_calls.append(("py", a)), o_rseed(a, *x, **k))[1])
        o_npseed = np.random.seed
        patch(np.random, "seed", lambda a=None: (mon.seed_calls.append(("np", a)), o_npseed(a))[1])
        o_ms = th.manual_seed
        patch(th, "manual_seed", lambda a: (mon.seed_calls.append(("torch", a)), o_ms(a))[1])
        o_space_seed = spaces.Space.seed

        def space_seed(self, seed=None):
            if mon._sb3_frame() is not None:   # any seeding of a space reached from library code
                mon.seed_calls.append(("aspace", seed))
            return o_space_seed(self, seed)

        patch(spaces.Space, "seed", space_seed)
        for sub in (spaces.Box, spaces.Discrete):
            if "seed" in sub.__dict__:
                o = sub.seed

                def sub_seed(self, seed=None, _o=o):
                    if mon._sb3_frame() is not None:
                        mon.seed_calls.append(("aspace", seed))
                    return _o(self, seed)

                patch(sub, "seed", sub_seed)
        o_vseed = VecEnv.seed
        patch(VecEnv, "seed", lambda self, seed=None: (mon.seed_calls.append(("env", seed)), o_vseed(self, seed))[1])
        return self

    def __exit__(self, *a):
        for obj, name, old in reversed(self._undo):
            setattr(obj, name, old)


def run_once(cfg, seed, conf=None):
    logs = []
    conf = make_conf(cfg) if conf is None else conf
    conf_before = conf_fingerprint(conf)
    reseed = bool(cfg.get("reseed"))
    if reseed:
        # a user script that builds the model with seed=None / another seed and then calls model.set_random_seed(s);
        # the harness pins the global generators first so that an unseeded construction is the same in every run
        import random as _random

        import numpy as _np
        import torch as _th

        _random.seed(424242)
        _np.random.seed(424242)
        _th.manual_seed(424242)
    with Monitor() as mon:
        m, venv = build(cfg, cfg.get("build_seed") if reseed else seed, logs, conf)
        if reseed:
            n_before = len(mon.seed_calls)
            m.set_random_seed(seed)
            setup_calls = list(mon.seed_calls[n_before:])
            mon.seed_calls[:] = setup_calls
        else:
            setup_calls = list(mon.seed_calls)
        import torch as th

        init_seed = th.initial_seed()
        if cfg.get("options"):
            # reset options pending at the same reset as the seeds registered by Algo(..., seed=s)
            m.get_env().set_options(dict(cfg["options"]))
        m.learn(total_timesteps=cfg["total"])
        pass
        if cfg.get("learn_twice"):
            m.learn(total_timesteps=cfg["total"] // 2, reset_num_timesteps=False)  # continues: no reset, no re-seeding
        envs = sorted(logs, key=lambda e: e.idx)[: cfg["n_envs"]]
        fp = fingerprint(m, envs)
        m.get_env().reset()  # a second explicit reset: must not deliver the seeds again
    conf_after = conf_fingerprint(conf)
    return {"conf_before": conf_before, "conf_after": conf_after, "fp": fp, "entropy": mon.entropy, "setup_calls": setup_calls, "all_seed_calls": mon.seed_calls, "torch_initial_seed": init_seed,
            "reset_seeds": [list(e.reset_seeds) for e in envs], "reset_options": [list(e.reset_options) for e in envs]}


CONFIGS = [
    dict(algo="ppo", env="discrete", n_envs=2, total=32),
    dict(algo="ppo", env="continuous", n_envs=3, total=48, use_sde=True, sde_sample_freq=2),
    dict(algo="a2c", env="dict", n_envs=2, total=30),
    dict(algo="a2c", env="continuous", n_envs=1, total=25, vecnormalize=True),
    dict(algo="dqn", env="discrete", n_envs=1, total=40),
    dict(algo="dqn", env="dictd", n_envs=2, total=44),
    dict(algo="sac", env="continuous", n_envs=1, total=30, noise="normal", learning_starts=14),
    dict(algo="sac", env="continuous", n_envs=2, total=36, use_sde=True, sde_sample_freq=3, learning_starts=8),
    dict(algo="td3", env="continuous", n_envs=2, total=36, noise="ou"),
    dict(algo="ddpg", env="continuous", n_envs=1, total=30, noise="normal", vecnormalize=True),
    dict(algo="sac", env="goal", n_envs=1, total=40, her=True, her_strategy="future", learning_starts=16),
    dict(algo="td3", env="goal", n_envs=2, total=48, her=True, her_strategy="episode", noise="normal", learning_starts=16),
    dict(algo="dqn", env="discrete", n_envs=3, total=45),
    dict(algo="sac", env="goal", n_envs=1, total=40, her=True, her_strategy="final", vecnormalize=True, use_sde=True, sde_sample_freq=2, learning_starts=16),
    dict(algo="ppo", env="continuous", n_envs=2, total=32, vecnormalize=True, use_sde=True, sde_sample_freq=4),
    dict(algo="a2c", env="dictd", n_envs=3, total=30),
    # action-noise objects built from the pair's shared configuration arrays (n_envs = 1: no VectorizedActionNoise copy)
    dict(algo="td3", env="continuous", n_envs=1, total=30, noise="ou", initial_noise=True),
    dict(algo="ddpg", env="continuous", n_envs=1, total=28, noise="ou", initial_noise=True),
    dict(algo="sac", env="continuous", n_envs=1, total=28, noise="ou", initial_noise=True, learning_starts=8),
    dict(algo="td3", env="continuous", n_envs=3, total=36, noise="normal"),
    # re-seeding a built model: constructed with seed=None / another seed, then model.set_random_seed(s)
    dict(algo="sac", env="continuous", n_envs=1, total=30, learning_starts=22, reseed=True, build_seed=None),
    dict(algo="dqn", env="discrete", n_envs=2, total=40, reseed=True, build_seed=1),
    dict(algo="ppo", env="discrete", n_envs=2, total=32, reseed=True, build_seed=None),
    # round 4 audit: memory-optimised replay sampling (both the not-full and the wrapped branch), HER with copy_info_dict,
    # a second learn() call on the same model
    dict(algo="dqn", env="discrete", n_envs=1, total=60, optimize_memory=True, buffer_size=30),
    dict(algo="sac", env="goal", n_envs=1, total=40, her=True, her_strategy="future", copy_info_dict=True, learning_starts=16),
    dict(algo="td3", env="continuous", n_envs=2, total=24, noise="normal", learn_twice=True),
    dict(algo="a2c", env="discrete", n_envs=1, total=20, learn_twice=True),
    # reset options pending together with the seeds (VecEnv.set_options before learn): seeds must still be delivered
    dict(algo="ppo", env="continuous", n_envs=2, total=32, options={"difficulty": 3}),
    dict(algo="sac", env="continuous", n_envs=1, total=28, learning_starts=10, options={"x_init": 0.5, "y_init": [1, 2]}),
    dict(algo="dqn", env="discrete", n_envs=2, total=40, options={"start": "left"}),
]


def main():
    chk = Check("C10", level="other", groups=["seed", "noise"])
    chk.build_props()
    from harness import covtrace

    _cov = covtrace.start({"stable_baselines3/common/noise.py": None, "stable_baselines3/common/utils.py": ["set_random_seed"], "stable_baselines3/common/base_class.py": ["BaseAlgorithm.set_random_seed"], "stable_baselines3/common/vec_env/base_vec_env.py": ["VecEnv.seed", "VecEnv._reset_seeds", "VecEnvWrapper.seed"], "stable_baselines3/common/buffers.py": ["BaseBuffer.sample", "ReplayBuffer.sample", "DictReplayBuffer.sample", "RolloutBuffer.get", "DictRolloutBuffer.get"], "stable_baselines3/her/her_replay_buffer.py": ["HerReplayBuffer.sample", "HerReplayBuffer._get_virtual_samples", "HerReplayBuffer._sample_goals"]}) if covtrace.enabled() else None
    # ---- (1) scan
    sites, failures, allowed = scan_repo()
    tags = [t for (_, _, _, t, _) in sites]
    by_tag = {}
    for t in tags:
        by_tag[t] = by_tag.get(t, 0) + 1
    oracle_bad = [s for s in sites if s[3] not in (TAG_PY, TAG_NP, TAG_TORCH, TAG_ASPACE, TAG_ENV)]
    for rel, line, text, tag, why in oracle_bad[:2]:
        chk.violation("scan-unseeded-generator", f"{rel}:{line}: {why}", {"file": rel, "line": line, "call": text, "why": why, "kind": "call-site scan"}, found_input=True)
    for rel, line, why in failures[:2]:
        chk.violation("scan-random-module-alias", f"{rel}:{line}: {why}", {"file": rel, "line": line, "why": why, "kind": "call-site scan"}, found_input=True)
    # ---- (2)+(3) paired runs
    rng = chk.rng
    cfgs = []
    corpus = os.path.join(common.VERIF, "corpus", "C10.jsonl")
    if os.path.exists(corpus):
        cfgs += [json.loads(l) for l in open(corpus) if l.strip()]
    n_corpus = len(cfgs)
    cfgs += list(CONFIGS)
    if chk.tier == "thorough":
        for rep in range(10):
            for c in CONFIGS:
                c = dict(c)
                c["n_envs"] = rng.randint(1, 3)
                c["total"] = c["total"] + rng.randint(0, 20)
                cfgs.append(c)
    exprs, expect = [], []
    exprs.append(f"scan_ok (run (init 1) (setup (Some 0) ++ [Reset])) {coq_list(tags, coq_Z)}")
    expect.append(("scan", not oracle_bad, None))
    # every draw site implements a consumer of the model, and the scan's tag is the tag of that consumer's generator
    cons_sites = []
    for rel, line, text, tag, why in sites:
        known, cons = site_consumer(rel, text)
        if not known:
            chk.violation("scan-site-without-consumer", f"{rel}:{line}: {text} draws randomness but is no consumer of Model.Seeding (extend the model's consumer table after review)",
                          {"file": rel, "line": line, "call": text, "kind": "call-site scan"}, found_input=True)
        elif cons is not None:
            cons_sites.append((cons, tag, rel, line))
    exprs.append("[" + "; ".join(f"consumer_tag {c}" for c, _, _, _ in cons_sites) + "]")
    expect.append(("consumer-tags", [t for _, t, _, _ in cons_sites], None))
    pairs, reported = 0, 0
    hist = {}
    samples = []
    for ci, cfg in enumerate(cfgs):
        s1 = cfg["seed"] if "seed" in cfg else rng.randint(0, 2**31 - 10)
        s2 = s1 + rng.choice([1, 2, 1000, 12345])
        try:
            conf = make_conf(cfg)   # ONE configuration for the runs of the pair
            a, b, c = run_once(cfg, s1, conf), run_once(cfg, s1, conf), run_once(cfg, s2, conf)
        except Exception as e:
            chk.violation(f"paired-run-exception-{cfg['algo']}", f"{type(e).__name__}: {e}", {"config": cfg, "seed": s1}, found_input=True)
            continue
        pairs += 1
        hist[cfg["algo"]] = hist.get(cfg["algo"], 0) + 1
        probs = []
        for r_, which in ((a, "first"), (b, "second"), (c, "third")):
            changed = [k for k in r_["conf_before"] if r_["conf_before"][k] != r_["conf_after"][k]]
            arrays = [k for k in changed if k != "policy_kwargs"]
            if arrays:
                probs.append((f"run-mutates-configuration-{arrays[0]}", f"{cfg['algo']}/{cfg['env']}/n_envs={cfg['n_envs']}: the {which} run (seed {s1 if which != 'third' else s2}) changed the caller's "
                              f"configuration object {arrays[0]!r} ({r_['conf_before'][arrays[0]]} -> {r_['conf_after'][arrays[0]]}): the next run built from the same configuration starts from different data"))
                break
            if changed:
                hist["policy_kwargs_extended_in_place"] = hist.get("policy_kwargs_extended_in_place", 0) + 1
        for k in ("parameters", "buffers", "actions", "vecnormalize"):
            if a["fp"][k] != b["fp"][k]:
                probs.append((f"same-seed-different-{k}", f"{cfg['algo']}/{cfg['env']}/n_envs={cfg['n_envs']}: two runs with seed {s1} differ in {k}"))
        if a["fp"]["parameters"] == c["fp"]["parameters"] or a["fp"]["actions"] == c["fp"]["actions"]:
            probs.append(("different-seed-same-result", f"{cfg['algo']}/{cfg['env']}: seeds {s1} and {s2} give identical parameters or actions"))
        for r in (a, b, c):
            if r["entropy"]:
                probs.append(("entropy-source-reached-from-library", f"{cfg['algo']}/{cfg['env']}: {r['entropy'][0][0]} reached from {r['entropy'][0][1]}"))
                break
        # plumbing oracle: set-up seeds every generator with s exactly once, env i receives s+i once and then None
        want_setup = [("py", s1), ("np", s1), ("torch", s1), ("aspace", s1), ("env", s1)]
        got_setup = [x for x in a["setup_calls"]]
        if sorted(map(str, got_setup)) != sorted(map(str, want_setup)) or a["torch_initial_seed"] != s1:
            probs.append(("setup-seeding-calls", f"{cfg['algo']}: seeding calls at set-up {got_setup} (torch.initial_seed {a['torch_initial_seed']}), expected one call each with {s1}"))
        if a["all_seed_calls"][len(got_setup):]:
            probs.append(("reseeding-during-learn", f"{cfg['algo']}: generators re-seeded during learn(): {a['all_seed_calls'][len(got_setup):][:3]}"))
        for i, seeds in enumerate(a["reset_seeds"]):
            if not seeds or seeds[0] != s1 + i or any(x is not None for x in seeds[1:]):
                probs.append(("env-seed-delivery", f"{cfg['algo']}: sub-env {i} received reset seeds {seeds[:6]}, expected [{s1 + i}, None, None, ...]"))
                break
        if cfg.get("options"):
            for i, opts in enumerate(a["reset_options"]):
                if not opts or opts[0] != cfg["options"] or any(o for o in opts[1:]):
                    probs.append(("env-options-delivery", f"{cfg['algo']}: sub-env {i} received reset options {opts[:4]}, expected [{cfg['options']}, None, ...]"))
                    break
        # model: same op history (one Reset, then the observed automatic resets)
        n = cfg["n_envs"]
        autos = [f"AutoReset {coq_nat(i)}" for i, seeds in enumerate(a["reset_seeds"]) for _ in range(min(max(len(seeds) - 2, 0), 40))]
        later = "[" + "; ".join(autos + ["Reset"]) + "]"
        pre = ""
        if cfg.get("reseed"):
            pre = f"setup {'None' if cfg.get('build_seed') is None else '(Some ' + coq_Z(cfg['build_seed']) + ')'} ++ "
        exprs.append(f"let x := run (init {coq_nat(n)}) ({pre}setup (Some {coq_Z(s1)}) ++ Reset :: {later}) in "
                     f"(map gs2z [s_py x; s_np x; s_torch x; s_aspace x], opt2z (s_delivered x))")
        expect.append(("plumbing", ([s1] * 4, [[(-1 if v is None else v) for v in (seeds[:41] + seeds[-1:] if len(seeds) > 42 else seeds)] for seeds in a["reset_seeds"]]), cfg))
        if len(samples) < 2:
            samples.append({"config": cfg, "seeds": [s1, s2], "fingerprint_same_seed": a["fp"], "fingerprint_other_seed": c["fp"], "reset_seeds_env0": a["reset_seeds"][0][:5]})
        if probs and reported < 3:
            reported += 1
            chk.violation(probs[0][0], "; ".join(m for _, m in probs[:3]), {"config": cfg, "seed": s1, "other_seed": s2, "problems": probs[:6],
                                                                               "fingerprints": [a["fp"], b["fp"], c["fp"]]}, found_input=True)
    vals = common.coq_eval_many("C10", HEADER, exprs, shard=20, procs=2)
    n_model = 0
    for v, (kind, want, cfg) in zip(vals, expect):
        if kind == "consumer-tags":
            if list(v) != list(want):
                k2 = next(i for i, (a_, b_) in enumerate(zip(list(v) + [None] * len(want), want)) if a_ != b_)
                chk.violation("scan-tag-differs-from-consumer-generator", f"{cons_sites[k2][2]}:{cons_sites[k2][3]}: scan resolves the site to tag {want[k2]}, Model.Seeding.consumer_gen {cons_sites[k2][0]} has tag {v[k2] if k2 < len(v) else None}",
                              {"site": cons_sites[k2][2:], "kind": "call-site scan"}, found_input=True)
            continue
        if kind == "scan":
            if bool(v) != bool(want):
                chk.violation("model-correspondence-scan", f"Model.Seeding.scan_ok = {v}, scan oracle = {want}", {"tags": tags, "correspondence": "harness/c10.py scan vs Model/Seeding.v"}, found_input=False)
        else:
            got = (list(v[0]), [list(r) for r in v[1]])
            if got != (want[0], want[1]) and n_model < 2:
                n_model += 1
                chk.violation("model-correspondence-seed-plumbing", f"model generators/deliveries {str(got)[:300]} vs implementation {str(want)[:300]}",
                              {"config": cfg, "model": str(got), "impl": str(want), "correspondence": "harness/c10.py vs Model.Seeding.run"}, found_input=False)
    for sig, msg in seed_api_problems()[:2]:
        chk.violation(sig, msg, {"kind": "seed-api"}, found_input=True)
    noise_stats = noise_campaign(chk)
    chk.notes["noise_correspondence"] = noise_stats
    chk.coverage["evaluations"] = 3 * pairs + len(sites) + noise_stats["cases"]
    chk.coverage["traces_validated_against_impl"] = 3 * pairs
    chk.coverage["distinct_nontrivial"] = sum(1 for c in cfgs if c["n_envs"] >= 2 or c.get("her") or c.get("use_sde") or c.get("noise") or c.get("vecnormalize") or c.get("reseed") or c.get("learn_twice") or c.get("optimize_memory") or c.get("options"))
    chk.coverage["rule"] = ("paired runs (same seed twice, one different seed) of tiny learn() calls; non-trivial = more than one sub-env or an extra randomness consumer (gSDE resampling, action noise, HER, "
                            "VecNormalize); evaluations = runs + scanned call sites")
    chk.notes["explanation"] = (f"Category other: seed-plumbing and action-noise theorems in Coq ({chk.coverage.get('obligations', 0)}, axiom-free) + ast call-site scan judged by Model.Seeding.scan_ok + paired-run search with an entropy monitor. "
                                f"This run: {len(sites)} call sites resolved ({by_tag}), {len(allowed)} reviewed exception(s), {pairs} configurations x 3 runs, "
                                "fingerprints = sha256 of policy state_dict, buffer arrays, per-env action logs, VecNormalize statistics.")
    chk.notes["scan"] = {"sites": len(sites), "by_tag": by_tag, "failures": len(oracle_bad) + len(failures), "reviewed_exceptions": [list(x) for x in allowed],
                         "skipped": list(SKIP_DIRS) + list(SKIP_FILES)}
    chk.notes["input_distribution"] = hist
    chk.notes["corpus_cases"] = n_corpus
    chk.add_samples(samples)
    chk.assumptions += [
        "bit-reproducibility is decided by paired runs in one process on one machine (CPU, one torch thread); configurations that were not run are unseen",
        "the scan's resolution rules (receiver-name heuristics for .sample()) are trusted; unknown receivers fail closed",
        "common/envs/ (example environments) and env_checker.py are outside the scan; NatureCNN's observation_space.sample() shape probe is a reviewed exception",
    ]
    if _cov is not None:
        chk.notes["branch_coverage"] = _cov.stop()
    return chk.finish()


def replay(path):
    d = json.load(open(path))
    r = d["replay"]
    if r.get("kind") == "noise":
        probs, expr = run_noise_case(r["noise_case"])
        vals = common.coq_eval_many("C10noise_replay", NOISE_HEADER, [expr], procs=1) if expr else []
        print(json.dumps({"problems": probs, "model": str(vals)}, indent=1))
        return 1 if (probs or any(not (v[0] is True and v[1] is True) for v in vals)) else 0
    if r.get("kind") == "call-site scan":
        sites, failures, allowed = scan_repo()
        bad = [s for s in sites if s[3] == TAG_FAIL] + failures
        print(json.dumps({"scan_failures": [list(map(str, b)) for b in bad[:10]]}, indent=1))
        return 1 if bad else 0
    cfg, s1, s2 = r["config"], r["seed"], r.get("other_seed", r["seed"] + 1)
    conf = make_conf(cfg)
    a, b, c = run_once(cfg, s1, conf), run_once(cfg, s1, conf), run_once(cfg, s2, conf)
    mutated = [k for k in a["conf_before"] if a["conf_before"][k] != a["conf_after"][k] and k != "policy_kwargs"]
    same = a["fp"] == b["fp"] and not mutated
    diff = a["fp"]["parameters"] != c["fp"]["parameters"]
    print(json.dumps({"configuration_mutated_by_first_run": mutated, "same_seed_identical": same, "different_seed_differs": diff, "entropy": a["entropy"][:3], "fingerprints": [a["fp"], b["fp"], c["fp"]],
                      "reset_seeds": [s[:5] for s in a["reset_seeds"]]}, indent=1, default=str))
    return 0 if (same and diff and not a["entropy"]) else 1
