"""C01 - VecEnv episode-boundary contract (auto-reset, terminal_observation, truncation, seeds/options).

Proof side:  Props/C01.v (Model/VecEnv.v, generic in the sub-environment and in n_envs; induction over op lists).
Tie:         (a) fragments regenerated from dummy_vec_env.py / subproc_vec_env.py (done, TimeLimit.truncated,
                 auto-reset guard) - interface lemmas in Proofs/VecEnvProofs.v;
             (b) correspondence: real DummyVecEnv and SubprocVecEnv over scripted sub-environments of every
                 space kind vs Model.VecEnv.run_scripted on the same scripts and op lists
                 (decoded obs tags, rewards, dones, info tag, TimeLimit.truncated, terminal_observation,
                 reset_infos, seed() return value, and each sub-environment's own call log);
             (c) statement-level oracle: plain Python written from the property text (per-env replay of the
                 episode script), independent of the Gallina model.
"""
from __future__ import annotations

import json
import os

from harness import common
from harness.common import Check

def _rm_cases(name):
    """case files are named per process (concurrent runs of one check must not share them) and removed after evaluation"""
    import glob

    for q in glob.glob(os.path.join(common.GEN, f"Cases_{name}_*.v")):
        try:
            os.remove(q)
        except OSError:
            pass


REGISTRY = dict(
    text=("Proof (unbounded, generic in sub-environment type and number of sub-environments): for every op list (reset/step/seed/set_options) the vector run projected on "
          "sub-environment i equals i run alone on its own actions (own observation, reward, done; no cross-talk); at an episode end the returned observation is the first "
          "observation of the next episode, terminal_observation the last of the finished one, TimeLimit.truncated = truncated and not terminated, reset_infos[i] that reset's "
          "info; seeds s+i/options reach exactly the matching sub-environment at the next reset, once (None afterwards and on automatic resets). "
          "Extension: attribute lookup through any chain of VecEnvWrapper objects (unique holder -> value, several -> refused naming the hidden one, outermost wins); "
          "the per-env step of Model/OnPolicyCollect.v (C04/C06) is the projection of this model's sub_step. "
          "Tie: regenerated flag/guard fragments + correspondence on DummyVecEnv and SubprocVecEnv over all space kinds; wrapper getattr chains and indexed get_attr/set_attr/env_method/"
          "env_is_wrapped calls on DummyVecEnv by correspondence. "
          "Build round 5: observation plumbing (Model/ObsBuf.v: obs_space_info, keyed buf_obs, _save_obs, _obs_from_buf, _stack_obs) for plain/Dict/Tuple spaces - _save_obs(i, o) writes "
          "row i of every key only; the batch read after saving all envs is the per-key stack of the envs' own observations in the container of the space kind and equals _stack_obs; "
          "a returned batch is the buffer version of the call (later writes do not change it); _get_indices / _get_target_envs: indexed calls touch exactly those positions in that order. "
          "Tie: fragment group obsbuf (key / index dispatch, loop sources, subscripts, returned expressions) + correspondence stream D."),
    note=("Trusted: Coq 8.16.1 kernel (vm_compute, no native_compute), translate/py2coq.py + specs/vecenv.py, harness/c01.py + scripted_envs.py, Python/numpy/gymnasium/multiprocessing. "
          "Tied by correspondence only (not translated): the loops over env_idx / remotes, numpy's row assignment / np.stack / deepcopy inside the plumbing (the dispatch around them is regenerated, "
          "group obsbuf, as guards and integer codes of the looped / subscripted / returned expressions), the `if options` guard of reset(). Quick tier runs SubprocVecEnv with start method fork only (forkserver/spawn in thorough). "
          "Findings: none for C01 (the reward-dtype finding F10, signature reward-dtype-float32-vs-float64, belongs to C02). All C01 theorems are closed under the global context (no axioms)."),
    technique="machine-checked proof in Coq (induction over op lists, generic sub-environment) + regenerated-fragment interface lemmas + differential correspondence + statement oracle",
)

HEADER = """From Coq Require Import List ZArith Bool.
From SB3V Require Import Model.Script Model.VecEnv.
Import ListNotations.
"""

OBS_KINDS = ["box1", "box2", "image_hwc", "image_chw", "discrete", "multidiscrete", "multibinary", "dict", "tuple", "goal"]
ACT_KINDS = ["box", "box_asym", "discrete", "multidiscrete", "multibinary"]


# ---------------------------------------------------------------- generators

def gen_case(rng, idx, backend="dummy", start_method="fork", max_ops=60):
    from harness import scripted_envs as se

    obs_kind = OBS_KINDS[idx % len(OBS_KINDS)]
    act_kind = rng.choice(ACT_KINDS)
    n = rng.randint(1, 5) if backend == "dummy" else rng.randint(1, 3)
    img = obs_kind in ("image_hwc", "image_chw", "dict")
    scripts = []
    for i in range(n):
        # info / reset_info tag -1 = the env returns an EMPTY dict (falsy): catches code that treats {} like "no info"
        scripts.append(se.gen_script(rng, n_episodes=rng.randint(1, 4), max_len=5, tag_base=(i * 50 if img else i * 1000),
                                     tag_cap=255 if img else se.MAXTAG - 1, p_empty_info=rng.choice([0.0, 0.3, 0.5])))
    n_ops = rng.randint(20, max_ops) if backend == "dummy" else rng.randint(12, 30)
    ops = []
    if rng.random() < 0.5:
        ops.append(["seed", rng.randint(0, 1000)])
    if rng.random() < 0.4:
        ops.append(gen_options(rng, n))
    ops.append(["reset"])
    aid = 0
    while len(ops) < n_ops:
        u = rng.random()
        if u < 0.78:
            ops.append(["step", list(range(aid, aid + n))])
            aid += n
        elif u < 0.86:
            ops.append(["reset"])
        elif u < 0.92:
            ops.append(["seed", rng.choice([None, rng.randint(0, 1000), rng.randint(0, 1000)])])   # None: VecEnv.seed() draws the seed itself
        else:
            ops.append(gen_options(rng, n))
    return {"obs_kind": obs_kind, "act_kind": act_kind, "n": n, "scripts": scripts, "ops": ops, "actions_as_list": rng.random() < 0.2,
            "backend": backend, "start_method": start_method, "id": idx}


def gen_options(rng, n):
    opt = lambda: rng.choice([None, None, rng.randint(1, 99)])  # noqa: E731
    if rng.random() < 0.5:
        return ["set_options_all", opt()]
    return ["set_options_list", [opt() for _ in range(n)]]


def action_value(act_kind, aid):
    import numpy as np

    if act_kind == "discrete":
        return np.int64(aid % 4)
    if act_kind == "box":
        return np.array([(aid % 9 - 4) / 4.0, (aid // 9 % 9 - 4) / 4.0], dtype=np.float32)
    if act_kind == "box_asym":
        return np.array([(aid % 17) / 2.0 - 2.0, 0.5 + (aid % 3) / 4.0], dtype=np.float32)
    if act_kind == "multidiscrete":
        return np.array([aid % 3, aid // 3 % 2], dtype=np.int64)
    if act_kind == "multibinary":
        return np.array([(aid >> k) & 1 for k in range(3)], dtype=np.int8)
    raise ValueError(act_kind)


def opt_dict(o, empty_as_none=False):
    if o is None:
        return None if empty_as_none else {}
    return {"k": o}


# ---------------------------------------------------------------- implementation run

def _dec(space, obs):
    from harness import scripted_envs as se

    try:
        v = se.decode(space, obs)
    except se.MixedObservation as e:  # a partially mixed observation is a disagreement
        return ["MIXED", str(e)[:80]]
    if isinstance(v, dict):
        vals = set(v.values())
        return vals.pop() if len(vals) == 1 else ["MIXED", str(v)]
    return v


def _dec_batch(space, batch, n):
    from gymnasium import spaces

    out = []
    for i in range(n):
        try:
            if isinstance(space, spaces.Dict):
                one = {k: batch[k][i] for k in space.spaces}
            elif isinstance(space, spaces.Tuple):
                one = tuple(b[i] for b in batch)
            else:
                one = batch[i]
            out.append(_dec(space, one))
        except Exception as e:  # wrong container / shape
            out.append(["MIXED", f"{type(e).__name__}: {e}"[:80]])
    return out


def _rinfos(venv):
    # an empty dict (never reset, or the env returned {}) decodes to -1, like a missing "tag"
    return [(d.get("tag", -1) if isinstance(d, dict) else None) for d in venv.reset_infos]


def make_venv(case):
    from harness import scripted_envs as se
    from stable_baselines3.common.vec_env import DummyVecEnv, SubprocVecEnv

    fns = [se.make_env_fn(sc, obs_kind=case["obs_kind"], act_kind=case["act_kind"], env_id=i) for i, sc in enumerate(case["scripts"])]
    if case["backend"] == "dummy":
        return DummyVecEnv(fns)
    return SubprocVecEnv(fns, start_method=case.get("start_method", "fork"))


def run_impl(case, ops=None):
    """drive the real VecEnv; returns {"trace": [...per op...], "logs": [...per env...]}"""
    import numpy as np

    ops = case["ops"] if ops is None else ops
    n = case["n"]
    venv = make_venv(case)
    try:
        space = venv.observation_space
        trace = []
        kept = []      # every returned observation object, NOT copied, with what it decoded to when it was returned
        for op in ops:
            if op[0] == "reset":
                obs = venv.reset()
                tags0 = _dec_batch(space, obs, n)
                kept.append((len(trace), obs, tags0))
                trace.append(["reset", tags0, _rinfos(venv)])
            elif op[0] == "step":
                acts = np.stack([action_value(case["act_kind"], a) for a in op[1]])
                if case.get("actions_as_list"):
                    acts = list(acts)      # a plain list of per-env actions instead of an array
                obs, rews, dones, infos = venv.step(acts)
                tags = _dec_batch(space, obs, n)
                kept.append((len(trace), obs, tags))
                outs = []
                for i in range(n):
                    info = infos[i]
                    r = float(rews[i]) * 4.0
                    term = _dec(space, info["terminal_observation"]) if "terminal_observation" in info else None
                    outs.append([tags[i], int(r) if r == int(r) else r, bool(dones[i]), info.get("tag", -1),
                                 info.get("TimeLimit.truncated"), term])
                ok_types = (np.asarray(dones).dtype == np.bool_ and len(rews) == n and len(dones) == n and len(infos) == n)
                trace.append(["step", outs, _rinfos(venv), bool(ok_types)])
            elif op[0] == "seed":
                ret = list(venv.seed(op[1]))
                if op[1] is None:
                    case.setdefault("_drawn", {})[len(trace)] = int(ret[0])     # oracle input: the seed VecEnv.seed() drew
                trace.append(["seed", ret])
            elif op[0] == "set_options_all":
                d = opt_dict(op[1], empty_as_none=(op[1] is None and len(trace) % 2 == 0))
                venv.set_options(d)
                if d:
                    d["k"] = -777       # set_options must have copied: later changes by the caller are not seen
                trace.append(["none"])
            elif op[0] == "set_options_list":
                lst = [opt_dict(o) for o in op[1]]
                venv.set_options(lst)
                for d in lst:
                    if d:
                        d["k"] = -777
                trace.append(["none"])
            else:
                raise ValueError(op)
        # "step() returns i's own observation": the value a caller kept must still be that observation after later calls
        changed = []
        for k, obs, tags_then in kept:
            now = _dec_batch(space, obs, n)
            for i in range(n):
                if now[i] != tags_then[i]:
                    changed.append([k, i, tags_then[i], now[i]])
        logs = venv.env_method("get_log")
        # options: an empty dict and None both mean "no options" (the property text says None/{})
        logs = [[[e[0], e[1], e[2] or None] if e[0] == "reset" else list(e) for e in lg] for lg in logs]
    finally:
        venv.close()
    return {"trace": trace, "logs": logs, "obs_changed": changed}


# ---------------------------------------------------------------- oracle (from the property text)

def oracle(case, impl, ops=None):
    """replay every sub-environment's script alone and check the statement on the implementation's outputs;
    returns a list of (signature, message)"""
    import numpy as np

    ops = case["ops"] if ops is None else ops
    n = case["n"]
    probs = []
    for k, i, then, now in impl.get("obs_changed", [])[:3]:
        probs.append(("oracle-own-observation-changed-after-return", f"op {k} env {i}: the observation returned for this call decoded to {then}; after later calls the same object holds {now}"))
    for i in range(n):
        eps = case["scripts"][i]["episodes"]
        ep_idx, pos = -1, 0          # episode index of the running episode, position inside
        cur_rinfo = -1               # reset_infos[i] = {} before the first reset
        pend_seed, pend_opt = None, None
        exp_log = []
        for k, (op, tr) in enumerate(zip(ops, impl["trace"])):
            where = f"op {k} ({op[0]}) env {i}"
            if op[0] == "seed":
                base = op[1] if op[1] is not None else tr[1][0]      # seed(None): the VecEnv draws the base seed itself
                pend_seed = base + i
                if not isinstance(tr[1][i], int) or tr[1][i] != pend_seed:
                    probs.append(("oracle-seed-return", f"{where}: seed() returned {tr[1][i]} expected {pend_seed}"))
            elif op[0] == "set_options_all":
                pend_opt = op[1]
            elif op[0] == "set_options_list":
                pend_opt = op[1][i]
            elif op[0] == "reset":
                ep_idx += 1
                pos = 0
                ep = eps[ep_idx % len(eps)]
                exp_log.append(["reset", pend_seed, None if pend_opt is None else {"k": pend_opt}])
                pend_seed, pend_opt = None, None
                cur_rinfo = ep["reset_info"]
                if tr[1][i] != ep["reset_tag"]:
                    probs.append(("oracle-reset-obs", f"{where}: reset obs {tr[1][i]} expected first obs {ep['reset_tag']} of env's own next episode"))
                if tr[2][i] != cur_rinfo:
                    probs.append(("oracle-reset-info", f"{where}: reset_infos[{i}]={tr[2][i]} expected {cur_rinfo}"))
            elif op[0] == "step":
                ep = eps[ep_idx % len(eps)]
                st = ep["steps"][pos]
                exp_log.append(["step", np.asarray(action_value(case["act_kind"], op[1][i])).tolist()])
                obs, r4, done, info, tl, term = tr[1][i]
                ends = pos == len(ep["steps"]) - 1
                assert ends == bool(st["term"] or st["trunc"])
                if r4 != st["r4"]:
                    probs.append(("oracle-reward", f"{where}: reward*4={r4} expected own reward {st['r4']}"))
                if info != st["info"]:
                    probs.append(("oracle-info", f"{where}: info tag {info} expected own {st['info']}"))
                if done != ends:
                    probs.append(("oracle-done", f"{where}: done={done} expected terminated|truncated={ends}"))
                want_tl = bool(st["trunc"] and not st["term"])
                if tl != want_tl:
                    kind = "both" if (st["term"] and st["trunc"]) else ("trunc" if st["trunc"] else ("term" if st["term"] else "mid"))
                    probs.append((f"oracle-timelimit-truncated-{kind}", f"{where}: TimeLimit.truncated={tl} expected {want_tl} (terminated={st['term']}, truncated={st['trunc']})"))
                if ends:
                    ep_idx += 1
                    pos = 0
                    nx = eps[ep_idx % len(eps)]
                    exp_log.append(["reset", None, None])
                    cur_rinfo = nx["reset_info"]
                    if term != st["tag"]:
                        probs.append(("oracle-terminal-observation", f"{where}: terminal_observation={term} expected last obs {st['tag']} of the finished episode"))
                    if obs != nx["reset_tag"]:
                        probs.append(("oracle-obs-after-autoreset", f"{where}: obs={obs} expected first obs {nx['reset_tag']} of the next episode"))
                else:
                    pos += 1
                    if obs != st["tag"]:
                        probs.append(("oracle-obs", f"{where}: obs={obs} expected own obs {st['tag']}"))
                if tr[2][i] != cur_rinfo:
                    probs.append(("oracle-reset-infos-autoreset" if ends else "oracle-reset-infos-changed", f"{where}: reset_infos[{i}]={tr[2][i]} expected {cur_rinfo}"))
                if not tr[3]:
                    probs.append(("oracle-container-types", f"{where}: dones not bool array / wrong lengths"))
        got = impl["logs"][i]
        if got != exp_log:
            j = next((j for j, (a, b) in enumerate(zip(got, exp_log)) if a != b), min(len(got), len(exp_log)))
            g = got[j] if j < len(got) else None
            e = exp_log[j] if j < len(exp_log) else None
            sig = "oracle-seed-options-delivery" if (g and g[0] == "reset") or (e and e[0] == "reset") else "oracle-own-action"
            probs.append((sig, f"env {i}: call {j} received by the sub-environment {g} expected {e}"))
    return probs


# ---------------------------------------------------------------- model

def coq_ops(ops, drawn=None):
    from harness.common import coq_list, coq_option, coq_Z

    out = []
    drawn = drawn or {}
    for k, op in enumerate(ops):
        if op[0] == "reset":
            out.append("VReset")
        elif op[0] == "step":
            out.append(f"VStep {coq_list(op[1], coq_Z)}")
        elif op[0] == "seed":
            out.append(f"VSeed {coq_Z(op[1] if op[1] is not None else drawn.get(k, 0))}")
        elif op[0] == "set_options_all":
            out.append(f"VSetOptionsAll {coq_option(op[1], coq_Z)}")
        elif op[0] == "set_options_list":
            out.append(f"VSetOptions {coq_list(op[1], lambda o: coq_option(o, coq_Z))}")
    return "[" + "; ".join(out) + "]"


def model_expr(case, ops=None):
    from harness import scripted_envs as se

    ops = case["ops"] if ops is None else ops
    return f"run_scripted [{'; '.join(se.coq_script(s) for s in case['scripts'])}] {coq_ops(ops, case.get('_drawn'))}"


def _opt(x):
    return x[1] if isinstance(x, tuple) and x and x[0] == "Some" else None


def _ri(x):
    """reset_infos entry of the model: None (never reset) and Some (-1) (the env returned {}) are both the empty dict"""
    v = _opt(x)
    return -1 if v is None else v


def model_trace(case, val, ops=None):
    """convert the parsed Coq value into the implementation's trace/log format"""
    import numpy as np

    ops = case["ops"] if ops is None else ops
    n = case["n"]
    trace, logs = [], [[] for _ in range(n)]

    def calls(cs):
        for i, c in enumerate(cs):
            for e in c:
                if e[0] == "CStep":
                    logs[i].append(["step", np.asarray(action_value(case["act_kind"], e[1])).tolist()])
                else:
                    o = _opt(e[2])
                    logs[i].append(["reset", _opt(e[1]), None if o is None else {"k": o}])

    for v in val:
        if v == "PNone":
            trace.append(["none"])
        elif v[0] == "PReset":
            trace.append(["reset", list(v[1]), [_ri(x) for x in v[2]]])
            calls(v[3])
        elif v[0] == "PStep":
            outs = [[o[0], o[1], o[2], o[3], o[4], _opt(o[5])] for o in v[1]]
            trace.append(["step", outs, [_ri(x) for x in v[2]], True])
            calls(v[3])
        elif v[0] == "PSeed":
            trace.append(["seed", [_opt(x) for x in v[1]]])
        else:
            raise ValueError(v)
    return {"trace": trace, "logs": logs}


def diff_model(impl, model):
    probs = []
    for k, (a, b) in enumerate(zip(impl["trace"], model["trace"])):
        if a != b:
            probs.append(("trace", f"op {k}: impl {a} model {b}"))
            break
    if len(impl["trace"]) != len(model["trace"]):
        probs.append(("trace-length", f"impl {len(impl['trace'])} model {len(model['trace'])}"))
    for i, (a, b) in enumerate(zip(impl["logs"], model["logs"])):
        if a != b:
            probs.append(("subenv-log", f"env {i}: impl log {a[:6]}... model {b[:6]}..."))
            break
    return probs



# ---------------------------------------------------------------- extension A: attribute lookup through VecEnvWrapper chains

ATTR_HEADER = """From Coq Require Import List ZArith Bool.
From SB3V Require Import Model.VecAttr.
Import ListNotations.
"""
ATTR_NAMES = ["zz_attr_a", "zz_attr_b", "zz_attr_c", "zz_attr_d"]


def gen_attr_case(rng, idx):
    depth = rng.randint(1, 4)
    p = rng.choice([0.2, 0.35, 0.5])
    layers = [{a: rng.randint(1, 999) for a in ATTR_NAMES if rng.random() < p} for _ in range(depth)]
    base = {a: rng.randint(1, 999) for a in ATTR_NAMES if rng.random() < p}
    return {"layers": layers, "base": base, "class_attr": [rng.random() < 0.3 for _ in range(depth)], "id": idx}


def run_attr_impl(case):
    """getattr(outermost wrapper, name) for every name: ["value", v] | ["ambiguous", index of the hidden object] | ["noattr"]"""
    from harness import scripted_envs as se
    from stable_baselines3.common.vec_env import DummyVecEnv
    from stable_baselines3.common.vec_env.base_vec_env import VecEnvWrapper

    script = {"episodes": [{"reset_tag": 1, "reset_info": 0, "steps": [{"tag": 2, "r4": 0, "term": True, "trunc": False, "info": 0}]}]}
    venv = DummyVecEnv([se.make_env_fn(script)])
    for k, v in case["base"].items():
        setattr(venv, k, v)
    depth = len(case["layers"])
    names = {}
    # layers are listed outermost first: build from the innermost
    for li in range(depth - 1, -1, -1):
        attrs = case["layers"][li]
        as_class = case["class_attr"][li]

        body = {"reset": lambda self: self.venv.reset(), "step_wait": lambda self: self.venv.step_wait()}
        if as_class:
            body.update(attrs)          # class attributes are attributes of the wrapper too
        cls = type(f"W{li}", (VecEnvWrapper,), body)
        names[f"{cls.__module__}.W{li}"] = li
        venv = cls(venv)
        if not as_class:
            for k, v in attrs.items():
                setattr(venv, k, v)
    names["stable_baselines3.common.vec_env.dummy_vec_env.DummyVecEnv"] = depth
    out = {}
    try:
        for a in ATTR_NAMES:
            try:
                out[a] = ["value", getattr(venv, a)]
            except AttributeError as e:
                msg = str(e)
                if "ambiguous and hides attribute from " in msg:
                    out[a] = ["ambiguous", names.get(msg.split("ambiguous and hides attribute from ")[1].strip(), msg)]
                else:
                    out[a] = ["noattr"]
    finally:
        venv.close()
    return out


def attr_oracle(case):
    """from the docstrings: the outermost object's own attribute wins; otherwise the attribute must have exactly one
    holder among the inner objects, else the lookup is refused naming the second holder from the outside"""
    out = {}
    objs = case["layers"] + [case["base"]]
    for a in ATTR_NAMES:
        if a in objs[0]:
            out[a] = ["value", objs[0][a]]
            continue
        holders = [(i, o[a]) for i, o in enumerate(objs) if a in o]
        out[a] = ["noattr"] if not holders else (["value", holders[0][1]] if len(holders) == 1 else ["ambiguous", holders[1][0]])
    return out


def attr_exprs(case):
    from harness.common import coq_list, coq_Z

    def amap(d):
        return coq_list([f"({coq_Z(ATTR_NAMES.index(k))}, {coq_Z(v)})" for k, v in d.items()])

    layers = coq_list([amap(l) for l in case["layers"]])
    return [f"py_getattr {coq_Z(i)} {layers} {amap(case['base'])}" for i in range(len(ATTR_NAMES))]


def attr_model(vals):
    out = {}
    for a, v in zip(ATTR_NAMES, vals):
        out[a] = ["noattr"] if v == "NoAttribute" else (["value", v[1]] if v[0] == "Value" else ["ambiguous", v[1]])
    return out


def run_attr_stream(chk, n_cases):
    cases = [gen_attr_case(chk.rng, k) for k in range(n_cases)]
    impls = []
    for c in cases:
        try:
            impls.append(run_attr_impl(c))
        except Exception as e:  # noqa: BLE001
            impls.append({"crash": f"{type(e).__name__}: {e}"})
    exprs = [e for c in cases for e in attr_exprs(c)]
    vals = common.coq_eval_many(f"C01a_{os.getpid()}", ATTR_HEADER, exprs, shard=400, procs=4)
    _rm_cases(f"C01a_{os.getpid()}")
    k = len(ATTR_NAMES)
    stats = {"cases": len(cases), "value": 0, "ambiguous": 0, "noattr": 0}
    for i, (c, im) in enumerate(zip(cases, impls)):
        if "crash" in im:
            chk.violation("oracle-wrapper-getattr-crash", im["crash"], {"attr_case": c}, found_input=True)
            return stats
        md = attr_model(vals[i * k:(i + 1) * k])
        orc = attr_oracle(c)
        for a in ATTR_NAMES:
            stats[im[a][0]] = stats.get(im[a][0], 0) + 1
        if im != orc:
            a = next(a for a in ATTR_NAMES if im[a] != orc[a])
            chk.violation(f"oracle-wrapper-getattr-{orc[a][0]}", f"getattr(wrapper, {a}): impl {im[a]} expected {orc[a]} for layers {c['layers']} base {c['base']}",
                          {"attr_case": c, "impl": im, "expected": orc}, found_input=True)
            return stats
        if im != md:
            a = next(a for a in ATTR_NAMES if im[a] != md[a])
            chk.violation("model-correspondence-wrapper-getattr", f"getattr(wrapper, {a}): impl {im[a]} model {md[a]}",
                          {"attr_case": c, "correspondence": "harness/c01.py vs Model.VecAttr.py_getattr"}, found_input=False)
            return stats
    return stats


# ---------------------------------------------------------------- extension B: attribute / method calls with indices on DummyVecEnv

def run_dummy_calls_stream(chk, n_cases):
    """DummyVecEnv (under 0-2 pass-through VecEnvWrapper layers) driven by reset/step/seed/set_options/get_attr/set_attr/
    env_method/env_is_wrapped with indices None|int|list, compared with the for-i-in-targets loop of Model/Subproc.v
    (run_dummy_scripted = dhistory) on the same scripts and calls"""
    import warnings

    from harness import c02
    from stable_baselines3.common.vec_env import DummyVecEnv
    from stable_baselines3.common.vec_env.base_vec_env import VecEnvWrapper

    class Pass(VecEnvWrapper):
        def reset(self):
            return self.venv.reset()

        def step_wait(self):
            return self.venv.step_wait()

    cases = [c02.gen_case(chk.rng, k) for k in range(n_cases)]
    traces = []
    with warnings.catch_warnings():
        warnings.simplefilter("ignore")
        for k, c in enumerate(cases):
            kw = dict(obs_kind=c["obs_kind"], act_kind=c["act_kind"])
            venv = DummyVecEnv([c02.make_fn(sc, c["wrapped"][i], env_id=i, **kw) for i, sc in enumerate(c["scripts"])])
            for _ in range(k % 3):
                venv = Pass(venv)
            try:
                tr = []
                for kk, call in enumerate(c["calls"]):
                    res = c02.do_call(venv, c, call)
                    if call[0] == "seed" and call[1] is None:
                        c.setdefault("_drawn", {})[kk] = int(res["ret"][0])
                    if call[0] in ("reset", "step") and isinstance(venv, VecEnvWrapper):
                        res["reset_infos"] = venv.unwrapped.reset_infos
                    tr.append(c02.decode_call(c, venv, call, res))
                traces.append([e for t in tr for e in t])
            except Exception as e:  # noqa: BLE001
                traces.append([["crash", f"{type(e).__name__}: {e}"]])
            finally:
                venv.close()
    from harness import scripted_envs as se
    from harness.common import coq_bool, coq_list

    exprs = []
    for c in cases:
        scs = "[" + "; ".join(se.coq_script(s) for s in c["scripts"]) + "]"
        exprs.append(f"run_dummy_scripted {scs} {coq_list(c['wrapped'], coq_bool)} {c02.coq_calls(c)}")
    vals = common.coq_eval_many(f"C01b_{os.getpid()}", c02.HEADER, exprs, shard=60, procs=4)
    _rm_cases(f"C01b_{os.getpid()}")
    stats = {"cases": len(cases), "replies": 0}
    for c, tr, v in zip(cases, traces, vals):
        ml = c02.model_log(v)
        if hasattr(c02, "public_log"):
            # build round 5 of C02 added has_attr calls: the model logs one ResBool per sub-environment, the public call returns their
            # conjunction; c02.public_log folds the model's log the way c02's own comparison does
            ml = c02.public_log(c, ml)
        stats["replies"] += len(ml)
        if tr != ml:
            j = next((j for j, (a, b) in enumerate(zip(tr, ml)) if a != b), min(len(tr), len(ml)))
            a = tr[j] if j < len(tr) else None
            b = ml[j] if j < len(ml) else None
            kind = (b or a or ["?", ["?"]])[1][0]
            # the model's loop is the documented semantics [f(envs[i]) for i in indices]; a disagreement on an attribute / method call
            # is a concrete failing call sequence for DummyVecEnv
            chk.violation(f"oracle-dummy-indexed-call-{kind}", f"reply {j}: DummyVecEnv {a} vs loop over indices {b}",
                          {"case": c, "impl_replies": tr[:j + 1][-4:], "correspondence": "harness/c01.py vs Model.Subproc.run_dummy_scripted"},
                          found_input=kind in ("ResAttr", "ResNone", "ResMethod", "ResBool"))
            return stats
    return stats



# ---------------------------------------------------------------- extension C: env_util.make_vec_env / unwrap_wrapper / is_wrapped

ENVUTIL_HEADER = """From Coq Require Import List ZArith Bool.
From SB3V Require Import Model.EnvUtil.
Import ListNotations.
"""


def run_envutil_stream(chk, n_cases):
    """the real make_vec_env / unwrap_wrapper / is_wrapped vs Model.EnvUtil; plus the first two resets of the new VecEnv"""
    import shutil
    import tempfile
    import warnings

    import gymnasium as gym
    from gymnasium import spaces
    from gymnasium.wrappers import TimeLimit

    from harness import scripted_envs as se
    from harness.common import coq_bool, coq_list, coq_nat, coq_option, coq_Z
    from stable_baselines3.common.env_util import is_wrapped, make_vec_env, unwrap_wrapper
    from stable_baselines3.common.monitor import Monitor

    class WA(gym.Wrapper):
        pass

    class WB(WA):
        pass

    class WC(gym.Wrapper):
        pass

    classes = {"WA": WA, "WB": WB, "WC": WC, "Monitor": Monitor}
    rng = chk.rng
    script = {"episodes": [{"reset_tag": 1, "reset_info": 0, "steps": [{"tag": 2, "r4": 0, "term": True, "trunc": False, "info": 0}]}]}
    exprs, expected, cases = [], [], []
    tmp = tempfile.mkdtemp(prefix="c01_monitor_")
    stats = {"make_vec_env": 0, "unwrap": 0}
    try:
        with warnings.catch_warnings():
            warnings.simplefilter("ignore")
            for k in range(n_cases):
                n, seed, start = rng.randint(1, 4), rng.choice([None, rng.randint(0, 500)]), rng.randint(0, 3)
                mdir = os.path.join(tmp, f"d{k}") if rng.random() < 0.5 else None
                wc = TimeLimit if rng.random() < 0.5 else None
                case = {"n": n, "seed": seed, "start": start, "monitor_dir": bool(mdir), "wrapper": bool(wc)}
                venv = make_vec_env(se.ScriptedEnv, n_envs=n, seed=seed, start_index=start, monitor_dir=mdir, wrapper_class=wc,
                                    env_kwargs=dict(script=script, obs_kind="box1", act_kind="discrete"),
                                    wrapper_kwargs=dict(max_episode_steps=10**9) if wc else None)
                try:
                    got = []
                    for i, env in enumerate(venv.envs):
                        layers, e = [], env
                        while isinstance(e, gym.Wrapper):
                            if isinstance(e, Monitor):
                                f = e.results_writer.file_handler.name if e.results_writer is not None else None
                                ok = f is None or (os.path.dirname(f) == mdir and os.path.basename(f) == f"{i + start}.monitor.csv")
                                layers.append([0, None if f is None else ([77, i + start] if ok else ["BAD", f])])
                            else:
                                layers.append([5 if isinstance(e, TimeLimit) else -1, None])
                            e = e.env
                        aseed = None
                        if seed is not None:
                            ref = spaces.Discrete(4)
                            ref.seed(seed + i + start)
                            same_stream = [int(env.action_space.sample()) for _ in range(6)] == [int(ref.sample()) for _ in range(6)]
                            aseed = seed + i + start if same_stream else "BAD"
                        got.append([i + start if e.env_id == 0 else "?", aseed, layers, is_wrapped(env, Monitor)])
                    venv.reset()
                    venv.reset()
                    logs = venv.env_method("get_log")
                    first = [lg[0][1] for lg in logs]
                    second = [lg[1][1] for lg in logs]
                    base = seed if seed is not None else first[0]
                    seeds_ok = all(isinstance(x, int) for x in first) and first == [base + i for i in range(n)] and second == [None] * n
                finally:
                    venv.close()
                exprs.append(f"(let r := make_vec_env {coq_nat(n)} {coq_option(seed, coq_Z)} 0%Z {coq_nat(start)} {coq_option(77 if mdir else None, coq_Z)} "
                             f"{coq_option(5 if wc else None, coq_Z)} in (map (fun d => (d_rank d, d_action_seed d, map (fun l => match l with GMonitor f => (0%Z, f) | GWrapper c => (c, None) end) "
                             f"(d_layers d), is_wrapped is_monitor (d_layers d))) (fst r), snd r))")
                expected.append(("make_vec_env", case, got, seeds_ok))
                stats["make_vec_env"] += 1
                # unwrap_wrapper / is_wrapped on a random chain of gym wrappers
                names = [rng.choice(["WA", "WB", "WC", "Monitor"]) for _ in range(rng.randint(0, 5))]
                env = se.ScriptedEnv(script)
                objs = []
                for nm in reversed(names):
                    env = classes[nm](env)
                    objs.insert(0, env)
                q = rng.choice(["WA", "WB", "WC", "Monitor"])
                u = unwrap_wrapper(env, classes[q])
                pos = None if u is None else next(j for j, o in enumerate(objs) if o is u)
                inst = [issubclass(classes[nm], classes[q]) for nm in names]
                exprs.append(f"(unwrap (fun p => nth p {coq_list(inst, coq_bool)} false) (seq 0 {coq_nat(len(names))}), is_wrapped (fun p => nth p {coq_list(inst, coq_bool)} false) (seq 0 {coq_nat(len(names))}))")
                expected.append(("unwrap", {"chain": names, "query": q}, [pos, bool(is_wrapped(env, classes[q]))], True))
                stats["unwrap"] += 1
    finally:
        shutil.rmtree(tmp, ignore_errors=True)
    # fixed checks of two documented constructor paths
    from stable_baselines3.common.vec_env import DummyVecEnv

    one = se.ScriptedEnv(script)
    try:
        DummyVecEnv([lambda: one, lambda: one])
        chk.violation("oracle-dummyvecenv-accepts-one-instance-twice", "DummyVecEnv built from two functions returning the same environment object did not raise ValueError",
                      {"check": "same instance"}, found_input=True)
    except ValueError:
        stats["same_instance_rejected"] = 1
    with warnings.catch_warnings():
        warnings.simplefilter("ignore")
        venv = make_vec_env("CartPole-v1", n_envs=2, seed=7, start_index=1)       # the registered-id path (gym.make)
        try:
            ok_id = all(is_wrapped(e, Monitor) for e in venv.envs) and list(venv._seeds) == [7, 8] and venv.num_envs == 2
        finally:
            venv.close()
    stats["registered_id_path"] = int(ok_id)
    if not ok_id:
        chk.violation("oracle-make-vec-env-registered-id", "make_vec_env('CartPole-v1', n_envs=2, seed=7): not monitored or seeds not [7, 8]", {"check": "registered id"}, found_input=True)
    vals = common.coq_eval_many(f"C01c_{os.getpid()}", ENVUTIL_HEADER, exprs, shard=200, procs=4)
    _rm_cases(f"C01c_{os.getpid()}")
    for (kind, case, got, ok), v in zip(expected, vals):
        if kind == "make_vec_env":
            descs, s = v
            model = [[d[0], _opt(d[1]), [[l[0], (list(_opt(l[1])) if _opt(l[1]) is not None else None)] for l in d[2]], d[3]] for d in descs]
            if got != model or not ok or (case["seed"] is not None and s != case["seed"]):
                what = "first-reset-seeds" if got == model else "construction"
                chk.violation(f"oracle-make-vec-env-{what}", f"make_vec_env{case}: real {got} (reset seeds delivered once as seed+i: {ok}) model {model}",
                              {"make_vec_env_case": case, "real": got, "model": model}, found_input=True)
                return stats
        else:
            model = [_opt(v[0]), bool(v[1])]
            if got != model:
                chk.violation("oracle-unwrap-wrapper-outermost", f"unwrap_wrapper on chain {case['chain']} for {case['query']}: real position/is_wrapped {got} expected {model}",
                              {"unwrap_case": case, "real": got, "model": model}, found_input=True)
                return stats
    return stats


# ---------------------------------------------------------------- extension D (build round 5): observation plumbing and index dispatch

OBSBUF_HEADER = """From Coq Require Import List ZArith Bool.
From SB3V Require Import Model.ObsBuf.
Import ListNotations.
"""
KEY_IDS = {"vec": 11, "d": 12, "img": 13, "observation": 21, "achieved_goal": 22, "desired_goal": 23}


def _ob_layout(space):
    """(kind, [(python key, model key id, subspace)]) of an observation space, keys in the space's own order"""
    from gymnasium import spaces

    if isinstance(space, spaces.Dict):
        return "dict", [(k, KEY_IDS[k], s) for k, s in space.spaces.items()]
    if isinstance(space, spaces.Tuple):
        return "tuple", [(i, i, s) for i, s in enumerate(space.spaces)]
    return "plain", [(None, None, space)]


def _ob_make(kind, layout, tags):
    from harness import scripted_envs as se

    parts = [se.encode(s, t) for (_, _, s), t in zip(layout, tags)]
    if kind == "dict":
        return {k: p for (k, _, _), p in zip(layout, parts)}
    return tuple(parts) if kind == "tuple" else parts[0]


def _ob_decode_batch(kind, layout, batch, n):
    """canonical value of a returned batch: [container kind, [[key id, [tag per env]], ...] sorted by key id]"""
    import numpy as np

    from harness import scripted_envs as se

    def rows(sub, arr):
        out = []
        for i in range(n):
            try:
                out.append(se.decode(sub, arr[i]))
            except Exception as e:  # noqa: BLE001  (mixed cells / wrong shape)
                out.append(f"MIXED:{type(e).__name__}")
        return out

    cont = "dict" if isinstance(batch, dict) else ("tuple" if isinstance(batch, tuple) else ("plain" if isinstance(batch, np.ndarray) else type(batch).__name__))
    if cont != kind:
        return [cont, []]
    if kind == "dict":
        if set(batch.keys()) != {k for k, _, _ in layout}:
            return ["dict-keys:" + ",".join(sorted(map(str, batch.keys()))), []]
        return [cont, sorted([kid, rows(s, batch[k])] for k, kid, s in layout)]
    if kind == "tuple":
        if len(batch) != len(layout):
            return [f"tuple-len:{len(batch)}", []]
        return [cont, [[kid, rows(s, batch[k])] for k, kid, s in layout]]
    return [cont, [[-1, rows(layout[0][2], batch)]]]


def _ob_model_batch(v):
    if v[0] == "BArr":
        return ["plain", [[-1, list(v[1])]]]
    if v[0] == "BDict":
        return ["dict", sorted([kv[0], list(kv[1])] for kv in v[1])]
    return ["tuple", [[i, list(r)] for i, r in enumerate(v[1])]]


def _ob_coq_obs(kind, layout, tags):
    from harness.common import coq_Z

    if kind == "dict":
        return "(ODict [" + "; ".join(f"({coq_Z(kid)}, {coq_Z(t)})" for (_, kid, _), t in zip(layout, tags)) + "])"
    if kind == "tuple":
        return "(OTup [" + "; ".join(coq_Z(t) for t in tags) + "])"
    return f"(OArr {coq_Z(tags[0])})"


def _ob_coq_space(kind, layout):
    from harness.common import coq_nat, coq_Z

    if kind == "dict":
        return "(SDict [" + "; ".join(coq_Z(kid) for _, kid, _ in layout) + "])"
    return f"(STuple {coq_nat(len(layout))})" if kind == "tuple" else "SPlain"


def _coq_indices(ix):
    from harness.common import coq_list, coq_Z

    return "INone" if ix is None else (f"(IInt {coq_Z(ix)})" if isinstance(ix, int) else f"(IList {coq_list(list(ix), coq_Z)})")


def gen_obsbuf_case(rng, idx):
    n = rng.randint(1, 5)
    kind = OBS_KINDS[idx % len(OBS_KINDS)]
    width = {"dict": 3, "goal": 3, "tuple": 2}.get(kind, 1)
    tags = lambda: [rng.randint(1, 250) for _ in range(width)]  # noqa: E731  (a different tag per key: a key mix-up is visible)
    hist = []
    for _ in range(rng.randint(3, 14)):
        hist.append(["snap"] if rng.random() < 0.3 else ["save", rng.randrange(n), tags()])
    hist.append(["snap"])
    final = [tags() for _ in range(n)]
    queries = []
    for _ in range(4):
        u = rng.random()
        if u < 0.2:
            queries.append(None)
        elif u < 0.5:
            queries.append(rng.randint(-n - 1, n))                      # negative and out-of-range ints included
        else:
            queries.append([rng.randint(-n, n - 1) if rng.random() < 0.9 else rng.choice([n, -n - 1]) for _ in range(rng.randint(0, 4))])
    return {"obs_kind": kind, "n": n, "history": hist, "final": final, "queries": queries, "id": idx}


def run_obsbuf_impl(case):
    """drive the REAL _save_obs / _obs_from_buf / _stack_obs / obs_space_info / _get_target_envs"""
    from harness import scripted_envs as se
    from stable_baselines3.common.vec_env import DummyVecEnv
    from stable_baselines3.common.vec_env.subproc_vec_env import _stack_obs
    from stable_baselines3.common.vec_env.util import obs_space_info

    script = {"episodes": [{"reset_tag": 1, "reset_info": 0, "steps": [{"tag": 2, "r4": 0, "term": True, "trunc": False, "info": 0}]}]}
    n = case["n"]
    venv = DummyVecEnv([se.make_env_fn(script, obs_kind=case["obs_kind"], act_kind="discrete", env_id=i) for i in range(n)])
    try:
        space = venv.observation_space
        kind, layout = _ob_layout(space)
        ids = {k: kid for k, kid, _ in layout}
        keys = [ids.get(k, f"?{k}") for k in obs_space_info(space)[0]]
        kept, snaps = [], []
        for op in case["history"]:
            if op[0] == "save":
                venv._save_obs(op[1], _ob_make(kind, layout, op[2]))
            else:
                b = venv._obs_from_buf()
                kept.append(b)
                snaps.append(_ob_decode_batch(kind, layout, b, n))
        obs_list = [_ob_make(kind, layout, t) for t in case["final"]]
        for i, o in enumerate(obs_list):
            venv._save_obs(i, o)
        dummy_final = _ob_decode_batch(kind, layout, venv._obs_from_buf(), n)
        subproc_final = _ob_decode_batch(kind, layout, _stack_obs(obs_list, space), n)
        subproc_tuple_in = _ob_decode_batch(kind, layout, _stack_obs(tuple(obs_list), space), n)      # a tuple of observations is accepted too
        later = [_ob_decode_batch(kind, layout, b, n) for b in kept]          # the retained batches, re-read after all later writes
        targets = []
        for q in case["queries"]:
            try:
                got = venv._get_target_envs(q)
                targets.append([next(j for j, e in enumerate(venv.envs) if e is g) for g in got])
            except IndexError:
                targets.append(None)
    finally:
        venv.close()
    return {"kind": kind, "layout": [[kid, None] for _, kid, _ in layout], "keys": keys, "snaps": snaps, "later": later, "dummy_final": dummy_final,
            "subproc_final": subproc_final, "subproc_tuple_in": subproc_tuple_in, "targets": targets}


def obsbuf_oracle(case, kind, key_ids):
    """plain Python from the property text: every sub-environment owns row i of every key; a returned batch is the stack of each
    sub-environment's latest own observation (zeros before its first write) and never changes afterwards"""
    n = case["n"]
    rows = {kid: [0] * n for kid in key_ids}
    snaps = []
    canon = lambda: [kind, sorted([(-1 if kid is None else kid), list(r)] for kid, r in rows.items())]  # noqa: E731
    for op in case["history"]:
        if op[0] == "save":
            for kid, t in zip(key_ids, op[2]):
                rows[kid][op[1]] = t
        else:
            snaps.append(canon())
    final = [kind, sorted([(-1 if kid is None else kid), [t[j] for t in case["final"]]] for j, kid in enumerate(key_ids))]
    targets = []
    for q in case["queries"]:
        idx = list(range(n)) if q is None else ([q] if isinstance(q, int) else list(q))
        targets.append(None if any(not -n <= i < n for i in idx) else [i % n for i in idx])
    return {"snaps": snaps, "final": final, "targets": targets}


def obsbuf_exprs(case, kind, layout):
    from harness.common import coq_nat

    sp = _ob_coq_space(kind, layout)
    ops = "; ".join("WSnap" if op[0] == "snap" else f"WSave {coq_nat(op[1])} {_ob_coq_obs(kind, layout, op[2])}" for op in case["history"])
    obs_list = "[" + "; ".join(_ob_coq_obs(kind, layout, t) for t in case["final"]) + "]"
    n = coq_nat(case["n"])
    return [f"(obs_space_info {sp}, snd (wrun_init 0%Z {sp} {n} [{ops}]), "
            f"obs_from_buf {sp} (save_all 0%Z (obs_space_info {sp}) (fst (wrun_init 0%Z {sp} {n} [{ops}])) 0 {obs_list}), stack_obs 0%Z {sp} {obs_list}, "
            f"[{'; '.join(f'target_envs {n} {_coq_indices(q)}' for q in case['queries'])}])"]


def run_obsbuf_stream(chk, n_cases):
    from harness import scripted_envs as se

    cases = [gen_obsbuf_case(chk.rng, k) for k in range(n_cases)]
    # fixed boundary cases first: a write to every row of a Dict space then repeated / negative indices
    cases.insert(0, {"obs_kind": "dict", "n": 3, "history": [["save", 1, [5, 6, 7]], ["snap"], ["save", 0, [8, 9, 10]], ["save", 1, [11, 12, 13]], ["snap"]],
                     "final": [[1, 2, 3], [4, 5, 6], [7, 8, 9]], "queries": [None, -1, [2, 0, 0], [3]], "id": -1})
    cases.insert(1, {"obs_kind": "tuple", "n": 2, "history": [["save", 0, [5, 6]], ["snap"], ["save", 0, [7, 8]], ["snap"]],
                     "final": [[1, 2], [3, 4]], "queries": [-2, [-1, -1], 2, []], "id": -2})
    stats = {"cases": len(cases), "writes": 0, "batches": 0, "index_queries": 0, "index_errors": 0, "negative_or_repeated": 0, "kinds": {}}
    impls, exprs = [], []
    for c in cases:
        try:
            im = run_obsbuf_impl(c)
        except Exception as e:  # noqa: BLE001
            chk.violation(f"oracle-obs-plumbing-crash-{c['obs_kind']}", f"_save_obs/_obs_from_buf/_stack_obs raised {type(e).__name__}: {e}", {"obsbuf_case": c}, found_input=True)
            return stats
        impls.append(im)
        kind, layout = _ob_layout(se.make_obs_space(c["obs_kind"]))
        exprs += obsbuf_exprs(c, kind, layout)
    vals = common.coq_eval_many(f"C01d_{os.getpid()}", OBSBUF_HEADER, exprs, shard=80, procs=4)
    _rm_cases(f"C01d_{os.getpid()}")
    for c, im, v in zip(cases, impls, vals):
        kind = im["kind"]
        key_ids = [kid for kid, _ in im["layout"]]
        orc = obsbuf_oracle(c, kind, key_ids)
        stats["writes"] += sum(1 for op in c["history"] if op[0] == "save") + c["n"]
        stats["batches"] += len(im["snaps"]) + 3
        stats["index_queries"] += len(c["queries"])
        stats["index_errors"] += sum(1 for t in im["targets"] if t is None)
        stats["negative_or_repeated"] += sum(1 for q in c["queries"] if (isinstance(q, int) and q < 0) or (isinstance(q, list) and (len(set(q)) < len(q) or any(i < 0 for i in q))))
        stats["kinds"][c["obs_kind"]] = stats["kinds"].get(c["obs_kind"], 0) + 1
        rep = {"obsbuf_case": c, "impl": im, "expected": orc}
        checks = [
            ("oracle-obs-buffer-row", im["snaps"], orc["snaps"], "batches returned by _obs_from_buf during the write history"),
            ("oracle-returned-batch-changed-by-later-write", im["later"], orc["snaps"], "the same batch objects re-read after the later _save_obs calls"),
            ("oracle-obs-from-buf-not-stack-of-own-observations", im["dummy_final"], orc["final"], "DummyVecEnv: _obs_from_buf after saving every env"),
            ("oracle-stack-obs-not-stack-of-own-observations", im["subproc_final"], orc["final"], "SubprocVecEnv: _stack_obs(list of the same observations)"),
            ("oracle-stack-obs-not-stack-of-own-observations", im["subproc_tuple_in"], orc["final"], "SubprocVecEnv: _stack_obs(tuple of the same observations)"),
            ("oracle-indexed-call-targets", im["targets"], orc["targets"], f"_get_target_envs for indices {c['queries']} (positions in envs; None = IndexError)"),
        ]
        for sig, got, want, what in checks:
            if got != want:
                chk.violation(f"{sig}-{c['obs_kind']}" if "targets" not in sig else sig, f"{what}: real {got} expected {want} (n_envs {c['n']}, history {c['history']})", rep, found_input=True)
                return stats
        m_keys = [(-1 if _opt(k) is None else _opt(k)) for k in v[0]]
        model = {"keys": m_keys, "snaps": [_ob_model_batch(b) for b in v[1]], "dummy_final": _ob_model_batch(v[2]), "subproc_final": _ob_model_batch(v[3]),
                 "targets": [(list(_opt(t)) if _opt(t) is not None else None) for t in v[4]]}
        real = {"keys": [(-1 if k is None else k) for k in im["keys"]], "snaps": im["snaps"], "dummy_final": im["dummy_final"], "subproc_final": im["subproc_final"],
                "targets": im["targets"]}
        if real != model:
            part = next(k for k in real if real[k] != model[k])
            chk.violation(f"model-correspondence-obsbuf-{part}", f"{part}: real {real[part]} model {model[part]}",
                          {"obsbuf_case": c, "correspondence": "harness/c01.py run_obsbuf_stream vs Model.ObsBuf"}, found_input=False)
            return stats
    return stats


# ---------------------------------------------------------------- driver

def valid_ops(ops):
    seen_reset = False
    for op in ops:
        if op[0] == "reset":
            seen_reset = True
        if op[0] == "step" and not seen_reset:
            return False
    return True


def shrink(case, sig):
    """drop ops while the oracle still reports the same signature on the implementation"""
    def fails(ops):
        if not valid_ops(ops):
            return False
        try:
            return any(s == sig for s, _ in oracle(case, run_impl(case, ops), ops))
        except Exception:
            return False

    return common.shrink_list(case["ops"], fails, max_rounds=60)


def nontrivial(case, impl):
    """contains an automatic reset and an explicit reset after the first one or a seed/options delivery"""
    auto = any(t[0] == "step" and any(o[2] for o in t[1]) for t in impl["trace"])
    extra = sum(1 for op in case["ops"] if op[0] == "reset") >= 2 or any(op[0] in ("seed", "set_options_all", "set_options_list") for op in case["ops"])
    return auto and extra


def load_corpus():
    p = os.path.join(common.VERIF, "corpus", "C01.jsonl")
    return [json.loads(l) for l in open(p) if l.strip()] if os.path.exists(p) else []


def main():
    chk = Check("C01", groups=["vecenv", "seed", "obsbuf"])
    chk.build_props()
    from harness.c01_branchcov import BranchCov, summarize

    cov = BranchCov(['stable_baselines3/common/vec_env/dummy_vec_env.py', 'stable_baselines3/common/vec_env/subproc_vec_env.py', 'stable_baselines3/common/vec_env/base_vec_env.py', 'stable_baselines3/common/vec_env/util.py', 'stable_baselines3/common/env_util.py', 'stable_baselines3/common/vec_env/__init__.py']) if BranchCov.enabled() else None
    if cov:
        cov.start()
    quick = chk.tier == "quick"
    cases = load_corpus()
    n_corpus = len(cases)
    n_dummy, n_sub = (500, 40) if quick else (5000, 300)
    for k in range(n_dummy):
        cases.append(gen_case(chk.rng, k, "dummy"))
    methods = ["fork"] if quick else ["fork", "forkserver", "spawn"]
    for k in range(n_sub):
        # forkserver / spawn start a fresh interpreter per worker (several seconds): thorough tier only, every 6th history
        cases.append(gen_case(chk.rng, k, "subproc", start_method="fork" if quick or k % 6 else methods[1 + (k // 6) % 2]))
    impls = []
    for c in cases:
        try:
            impls.append(run_impl(c))
        except Exception as e:  # the implementation crashed on a legal history
            impls.append({"crash": f"{type(e).__name__}: {e}"})
    exprs = [model_expr(c) for c in cases]
    vals = common.coq_eval_many(f"C01_{os.getpid()}", HEADER, exprs, shard=200, procs=4)
    _rm_cases(f"C01_{os.getpid()}")
    hist = {"backend": {}, "obs_kind": {}, "n_envs": {}, "ops": 0, "steps": 0, "autoresets": 0, "both_flags_steps": 0, "len1_episodes": 0}
    distinct = set()
    for c, im, v in zip(cases, impls, vals):
        hist["backend"][c["backend"] + ":" + c.get("start_method", "")] = hist["backend"].get(c["backend"] + ":" + c.get("start_method", ""), 0) + 1
        hist["obs_kind"][c["obs_kind"]] = hist["obs_kind"].get(c["obs_kind"], 0) + 1
        hist["n_envs"][c["n"]] = hist["n_envs"].get(c["n"], 0) + 1
        hist["ops"] += len(c["ops"])
        if "crash" in im:
            chk.violation("oracle-crash", f"{c['backend']} raised {im['crash']}", {"case": c}, found_input=True)
            break
        md = model_trace(c, v)
        hist["steps"] += sum(1 for t in im["trace"] if t[0] == "step")
        hist["autoresets"] += sum(1 for t in im["trace"] if t[0] == "step" for o in t[1] if o[2])
        hist["both_flags_steps"] += sum(1 for s in c["scripts"] for e in s["episodes"] for st in e["steps"] if st["term"] and st["trunc"])
        hist["len1_episodes"] += sum(1 for s in c["scripts"] for e in s["episodes"] if len(e["steps"]) == 1)
        if nontrivial(c, im):
            distinct.add(json.dumps([c["obs_kind"], c["backend"], c["scripts"], c["ops"]], sort_keys=True))
        op = oracle(c, im)
        dm = diff_model(im, md)
        if op:
            sig = op[0][0]
            small = shrink(c, sig)
            c2 = dict(c, ops=small)
            im2 = run_impl(c2)
            chk.violation(f"{sig}-{c['backend']}", "; ".join(m for _, m in oracle(c2, im2)[:3]) or op[0][1],
                          {"case": c2, "problems": [list(p) for p in oracle(c2, im2)[:10]], "impl_trace": im2["trace"], "impl_logs": im2["logs"]}, found_input=True)
            break
        if dm:
            chk.violation(f"model-correspondence-{dm[0][0]}-{c['backend']}", dm[0][1],
                          {"case": c, "problems": [list(p) for p in dm], "correspondence": "harness/c01.py vs Model.VecEnv.run_scripted"}, found_input=False)
            break
    n_attr, n_calls = (150, 60) if quick else (1500, 400)
    attr_stats = run_attr_stream(chk, n_attr) if not chk.violations else {}
    calls_stats = run_dummy_calls_stream(chk, n_calls) if not chk.violations else {}
    envutil_stats = run_envutil_stream(chk, 40 if quick else 400) if not chk.violations else {}
    obsbuf_stats = run_obsbuf_stream(chk, 200 if quick else 3000) if not chk.violations else {}
    chk.notes["obs_plumbing_and_indices_stream"] = obsbuf_stats
    chk.notes["env_util_stream"] = envutil_stats
    chk.notes["wrapper_getattr_stream"] = attr_stats
    chk.notes["dummy_indexed_calls_stream"] = calls_stats
    extra = attr_stats.get("cases", 0) + calls_stats.get("cases", 0) + envutil_stats.get("make_vec_env", 0) + envutil_stats.get("unwrap", 0) + obsbuf_stats.get("cases", 0)
    chk.coverage["evaluations"] = len(cases) + extra
    chk.coverage["traces_validated_against_impl"] = len(cases) + extra
    chk.coverage["distinct_nontrivial"] = len(distinct)
    chk.coverage["rule"] = ("random op lists (reset/step/seed/set_options(dict|list), 20-60 ops on DummyVecEnv n_envs 1-5, 12-30 ops on SubprocVecEnv n_envs 1-3) over scripted "
                            "sub-environments cycling through 10 observation-space kinds and 5 action-space kinds; boundary-biased scripts (length-1 episodes, terminated and "
                            "truncated together); non-trivial = at least one automatic reset AND (a second explicit reset OR a seed/options call); distinct = distinct "
                            "(kind, backend, scripts, ops)")
    chk.notes["input_distribution"] = hist
    chk.notes["corpus_cases"] = n_corpus
    chk.add_samples([{k: cases[i][k] for k in ("obs_kind", "act_kind", "n", "backend", "ops")} for i in (n_corpus, len(cases) - 1) if i < len(cases)])
    chk.assumptions += [
        "the scripted sub-environment (harness/scripted_envs.py) implements the script semantics of Model/Script.v; a step before the first reset is outside the contract and not generated",
        "observation plumbing: the key dispatch of _save_obs / dict_to_obs / obs_space_info / _stack_obs and the index dispatch of _get_indices are regenerated fragments (group obsbuf); numpy row assignment, np.stack and deepcopy are modelled as list update / map / identity on values and tied by correspondence (stream D: random write histories per space kind, distinct tag per key); loops over sub-environments and seed()/set_options() by correspondence",
        "Dict observation spaces have pairwise distinct keys (wf_space); an observation lacking a key of the space is outside the model (the code raises KeyError)",
        "rewards are multiples of 1/4 (exact in float32 and float64); reward dtype is not compared (see C02 finding reward-dtype-float32-vs-float64)",
    ]
    if cov:
        cov.stop()
        chk.notes["branch_coverage_unexecuted"] = summarize(cov.report(), common.REPO)
    return chk.finish()


def replay(path):
    d = json.load(open(path))
    if "obsbuf_case" in d["replay"]:          # stream D: observation plumbing / index dispatch
        c = d["replay"]["obsbuf_case"]
        im = run_obsbuf_impl(c)
        orc = obsbuf_oracle(c, im["kind"], [kid for kid, _ in im["layout"]])
        bad = {k: [im[a], orc[b]] for k, a, b in (("batches", "snaps", "snaps"), ("retained", "later", "snaps"), ("dummy_final", "dummy_final", "final"),
                                                   ("stack_obs", "subproc_final", "final"), ("targets", "targets", "targets")) if im[a] != orc[b]}
        print(json.dumps({"oracle_problems (real, expected)": bad}, indent=1, default=str))
        return 1 if bad else 0
    case = d["replay"]["case"]
    im = run_impl(case)
    probs = oracle(case, im)
    v = common.coq_eval_many("C01r", HEADER, [model_expr(case)])[0]
    dm = diff_model(im, model_trace(case, v))
    print(json.dumps({"oracle_problems": probs, "model_diff": dm}, indent=1, default=str))
    return 1 if (probs or dm) else 0
