"""Shared machinery of the /verif checks: PRNG, Coq runner and term parser,
proof-obligation build, violation / known-finding reporting, evidence writer.

Conventions (see DESIGN.md section 2):
  * every random choice derives from VERIF_SEED (default 0) via Check.rng
  * implementation code is imported from /repo's working tree (sys.path[0:0] = /repo)
  * models are evaluated inside coqc with vm_compute (no extraction)
  * a check prints `VIOLATION property=<id> replay=<path>[ no-failing-input-found]`
    and exits 1, or prints `KNOWN-FINDING: property=<id> <what>` for violations
    whose signature is listed in known_findings.txt, and exits 0.
"""
from __future__ import annotations

import fcntl
import hashlib
import json
import os
import random
import re
import subprocess
import sys
import time
from fractions import Fraction

VERIF = os.path.dirname(os.path.dirname(os.path.abspath(__file__)))
REPO = os.environ.get("VERIF_REPO", "/repo")
COQ = os.path.join(VERIF, "coq")
GEN = os.path.join(COQ, "Gen")
PY = "/venv/bin/python"

os.environ.setdefault("PYTHONHASHSEED", "0")
os.environ.setdefault("DLR_RM_STABLE_BASELINES3_VERIF", "1")
os.environ.setdefault("CUDA_VISIBLE_DEVICES", "")
os.environ.setdefault("OMP_NUM_THREADS", "1")
os.environ.setdefault("MKL_NUM_THREADS", "1")
if REPO not in sys.path:
    sys.path.insert(0, REPO)
if VERIF not in sys.path:
    sys.path.insert(0, VERIF)

STDLIB_AXIOMS_ALLOWED = {
    # real numbers / classical logic axioms declared by Coq's own standard library
    "ClassicalDedekindReals.sig_forall_dec",
    "ClassicalDedekindReals.sig_not_dec",
    "FunctionalExtensionality.functional_extensionality_dep",
    "Classical_Prop.classic",
}  # exactly the four the property theorems over the reals (C07, C14: Coquelicot / Reals) depend on; anything else fails the check


def seed() -> int:
    try:
        return int(os.environ.get("VERIF_SEED", "0"))
    except ValueError:
        return 0


def tier() -> str:
    t = os.environ.get("VERIF_TIER", "quick")
    return t if t in ("quick", "thorough") else "quick"


# --------------------------------------------------------------------------
# Coq term printing / parsing
# --------------------------------------------------------------------------

def coq_Z(n: int) -> str:
    return f"({int(n)})%Z"


def coq_nat(n: int) -> str:
    assert 0 <= n < 5000, "nat literal too large"
    return f"{int(n)}%nat"


def coq_Q(x) -> str:
    fr = Fraction(x)
    return f"({fr.numerator} # {fr.denominator})%Q"


def coq_bool(b) -> str:
    return "true" if b else "false"


def coq_list(items, f=str) -> str:
    return "[" + "; ".join(f(i) for i in items) + "]"


def coq_string(s: str) -> str:
    return '"' + s.replace('"', '""') + '"%string'


def coq_option(x, f=str) -> str:
    return "None" if x is None else f"(Some {f(x)})"


_TOK = re.compile(r'\s*(?:(-?\d+(?:\.\d+)?(?:[eE][-+]?\d+)?)|("(?:[^"]|"")*")|([A-Za-z_][A-Za-z0-9_\.\']*)|(%[A-Za-z_]+)|(.))', re.S)


def _tokens(s):
    out = []
    for m in _TOK.finditer(s):
        if m.group(1) is not None:
            g1 = m.group(1)
            out.append(("int", int(g1) if re.fullmatch(r"-?\d+", g1) else Fraction(g1)))
        elif m.group(2) is not None:
            out.append(("str", m.group(2)[1:-1].replace('""', '"')))
        elif m.group(3) is not None:
            out.append(("id", m.group(3)))
        elif m.group(4) is not None:
            continue  # scope annotation
        elif m.group(5) is not None and not m.group(5).isspace():
            out.append(("p", m.group(5)))
    return out


class _P:
    def __init__(self, toks):
        self.t, self.i = toks, 0

    def peek(self):
        return self.t[self.i] if self.i < len(self.t) else ("eof", None)

    def eat(self, kind=None, val=None):
        tok = self.peek()
        if (kind and tok[0] != kind) or (val is not None and tok[1] != val):
            raise ValueError(f"coq parse: expected {kind} {val}, got {tok} at {self.i}")
        self.i += 1
        return tok

    def term(self):
        """application level with infix # (rationals)"""
        head = self.atom()
        args = []
        while self.peek()[0] in ("int", "str", "id") or self.peek() in (("p", "("), ("p", "[")):
            args.append(self.atom())
        val = head if not args else self.apply(head, args)
        if self.peek() == ("p", "#"):
            self.eat()
            den = self.atom()
            return Fraction(val, den)
        return val

    @staticmethod
    def apply(head, args):
        if head == ("ctor", "Some") and len(args) == 1:
            return ("Some", args[0])
        if isinstance(head, tuple) and head and head[0] == "ctor":
            return (head[1], *args)
        raise ValueError(f"coq parse: cannot apply {head}")

    def atom(self):
        k, v = self.peek()
        if k == "int":
            self.eat()
            return v
        if k == "str":
            self.eat()
            return v
        if k == "id":
            self.eat()
            if v == "true":
                return True
            if v == "false":
                return False
            if v == "None":
                return None
            if v == "tt":
                return ()
            return ("ctor", v)
        if (k, v) == ("p", "("):
            self.eat()
            items = [self.term()]
            while self.peek() == ("p", ","):
                self.eat()
                items.append(self.term())
            self.eat("p", ")")
            return items[0] if len(items) == 1 else tuple(items)
        if (k, v) == ("p", "["):
            self.eat()
            items = []
            if self.peek() != ("p", "]"):
                items.append(self.term())
                while self.peek() == ("p", ";"):
                    self.eat()
                    items.append(self.term())
            self.eat("p", "]")
            return items
        raise ValueError(f"coq parse: unexpected token {k} {v!r} at {self.i}")


def _clean(x):
    if isinstance(x, tuple) and len(x) == 2 and x[0] == "ctor":
        return x[1]  # nullary constructor -> its name
    if isinstance(x, tuple):
        return tuple(_clean(i) for i in x)
    if isinstance(x, list):
        return [_clean(i) for i in x]
    return x


def parse_coq_term(s: str):
    p = _P(_tokens(s))
    v = p.term()
    if p.peek()[0] != "eof":
        raise ValueError(f"coq parse: trailing tokens from {p.i}: {p.t[p.i:p.i+5]}")
    return _clean(v)


def parse_eval_outputs(stdout: str):
    """values printed by successive `Eval vm_compute in ...` commands"""
    vals = []
    # each answer is "     = <term>\n     : <type>\n"
    for m in re.finditer(r"^\s*= (.*?)^\s*: [^\n]*(?:\n(?:\s{7,}[^\n]*))*", stdout, re.S | re.M):
        vals.append(parse_coq_term(m.group(1)))
    return vals



def fragment_deps(v_files):
    """names g of the generated fragment modules Gen.Frag_<g> that the given .v files import, transitively through the
    SB3V modules they Require"""
    seen, groups, todo = set(), set(), list(v_files)
    while todo:
        f = todo.pop()
        if f in seen or not os.path.exists(f):
            continue
        seen.add(f)
        txt = re.sub(r"\(\*.*?\*\)", "", open(f).read(), flags=re.S)
        for sent in re.split(r"\.\s", txt):
            m = re.match(r"\s*(?:From\s+(\S+)\s+)?Require\s+(?:Import\s+|Export\s+)?(.*)", sent, flags=re.S)
            if not m or (m.group(1) not in (None, "SB3V")):
                continue
            for mod in m.group(2).split():
                mod = mod.replace("SB3V.", "")
                g = re.fullmatch(r"Gen\.Frag_(\w+)", mod)
                if g:
                    groups.add(g.group(1))
                    continue
                path = os.path.join(COQ, *mod.split(".")) + ".v"
                if os.path.exists(path):
                    todo.append(path)
    return groups


class CoqError(Exception):
    pass


class coq_lock:
    def __enter__(self):
        os.makedirs(GEN, exist_ok=True)
        self.fh = open(os.path.join(COQ, ".lock"), "w")
        fcntl.flock(self.fh, fcntl.LOCK_EX)
        return self

    def __exit__(self, *a):
        fcntl.flock(self.fh, fcntl.LOCK_UN)
        self.fh.close()


def run(cmd, timeout=900, cwd=None, env=None):
    t0 = time.time()
    try:
        p = subprocess.run(cmd, cwd=cwd, env=env, capture_output=True, text=True, timeout=timeout)
        return p.returncode, p.stdout, p.stderr, time.time() - t0
    except subprocess.TimeoutExpired as e:
        return 124, (e.stdout or b"").decode() if isinstance(e.stdout, bytes) else (e.stdout or ""), "TIMEOUT", time.time() - t0


def coqc_file(path: str, timeout=600):
    return run(["coqc", "-q", "-Q", COQ, "SB3V", "-w", "-notation-overridden,-deprecated-hint-without-locality", path], timeout=timeout, cwd=COQ)


def coq_eval_text(name: str, text: str, timeout=600):
    """compile one generated file, return the list of parsed Eval outputs"""
    os.makedirs(GEN, exist_ok=True)
    path = os.path.join(GEN, f"Cases_{name}.v")
    with open(path, "w") as fh:
        fh.write(text)
    rc, out, err, _ = coqc_file(path, timeout)
    for ext in (".vo", ".vok", ".vos", ".glob"):
        try:
            os.remove(path[:-2] + ext)
        except OSError:
            pass
    try:
        os.remove(os.path.join(GEN, f".Cases_{name}.aux"))
    except OSError:
        pass
    if rc != 0:
        raise CoqError(f"coqc failed on {path} (rc={rc}):\n{err[-3000:]}")
    return parse_eval_outputs(out)


def coq_eval_many(name: str, header: str, exprs: list[str], shard=400, procs=8, timeout=900):
    """evaluate many closed expressions with vm_compute, in shards, in parallel"""
    from concurrent.futures import ThreadPoolExecutor

    shards = [exprs[i : i + shard] for i in range(0, len(exprs), shard)]

    def one(k):
        body = header + "\n" + "\n".join(f"Eval vm_compute in ({e})." for e in shards[k])
        return coq_eval_text(f"{name}_{k}", body, timeout)

    res = []
    with ThreadPoolExecutor(max_workers=procs) as ex:
        for part, sh in zip(ex.map(one, range(len(shards))), shards):
            if len(part) != len(sh):
                raise CoqError(f"{name}: expected {len(sh)} outputs, parsed {len(part)}")
            res += part
    return res


# --------------------------------------------------------------------------
# proof obligations
# --------------------------------------------------------------------------

def ensure_project():
    subprocess.run([os.path.join(COQ, "mkproject.sh")], check=True)


def build_all(timeout=3000):
    """setup: regenerate fragments, build every .vo (full build, never -vos)"""
    from translate import gen

    with coq_lock():
        st = gen.regenerate()
        ensure_project()
        # -k: one property's broken proof must not prevent the others from being built;
        # every check rebuilds and judges its own Props/Cxx.vo anyway
        rc, out, err, dt = run(["make", "-k", "-j16", "COQC=timeout 900 coqc"], timeout=timeout, cwd=COQ)
    return rc, out, err, st


_THM = re.compile(r"^\s*(?:Theorem|Lemma|Corollary)\s+([A-Za-z0-9_']+)", re.M)


def hygiene():
    """no Admitted/admit/Axiom/... anywhere in our development"""
    bad = []
    pat = re.compile(r"\b(Admitted|admit|Axiom|Axioms|Parameter|Parameters|Conjecture|Hypothesis|Hypotheses|Variable|Variables|Abort)\b|Unset\s+Guard|bypass_check|type-in-type|impredicative-set|native_compute|Admit Obligations")
    for root, _, files in os.walk(COQ):
        for f in files:
            if not f.endswith(".v") or f.startswith("Cases_"):
                continue
            p = os.path.join(root, f)
            txt = open(p).read()
            txt_nc = re.sub(r"\(\*.*?\*\)", lambda m: " " * len(m.group(0)), txt, flags=re.S)
            # Variables / Hypotheses are allowed inside Sections only
            depth = 0
            for ln, line in enumerate(txt_nc.split("\n"), 1):
                if re.match(r"\s*Section\s", line):
                    depth += 1
                if re.match(r"\s*End\s", line) and depth > 0:
                    depth -= 1
                for m in pat.finditer(line):
                    w = m.group(0)
                    if m.group(1) in ("Variable", "Variables", "Hypothesis", "Hypotheses") and depth > 0:
                        continue
                    bad.append(f"{os.path.relpath(p, VERIF)}:{ln}: {w}")
    return bad


# --------------------------------------------------------------------------
# known findings
# --------------------------------------------------------------------------

def known_findings():
    out = {}
    p = os.path.join(VERIF, "known_findings.txt")
    if not os.path.exists(p):
        return out
    for line in open(p):
        line = line.strip()
        m = re.match(r"known:\s+property=(\S+)\s+signature=(\S+)\s*(.*)", line)
        if m:
            out[(m.group(1), m.group(2))] = m.group(3)
    return out


# --------------------------------------------------------------------------
# the per-run context
# --------------------------------------------------------------------------

class Check:
    def __init__(self, pid: str, level: str = "proof", groups=None, design_ref=None):
        self.pid = pid
        self.level = level
        self.groups = groups  # fragment groups this property depends on
        self.t0 = time.time()
        self.seed = seed()
        self.tier = tier()
        h = int(hashlib.sha256(f"{pid}:{self.seed}".encode()).hexdigest()[:12], 16)
        self.rng = random.Random(h)
        self.violations = []
        self.known_hits = []
        self.coverage = {
            "evaluations": 0, "distinct_nontrivial": 0, "rule": "", "samples": [],
            "obligations": 0, "discharged": 0, "checker_cmd": "", "trusted_base": [],
            "traces_validated_against_impl": 0,
        }
        self.assumptions = []
        self.notes = {}
        self.proof_ok = None
        self.broken = []
        self.tie_fallback = {}

    # ---- proofs ----
    def build_props(self, timeout=1500):
        """regenerate fragments from /repo, rebuild Props/<pid>.vo and everything it
        depends on; record obligations/discharged and the Print Assumptions result."""
        from translate import gen

        import glob as _glob

        # the property file Props/<pid>.v plus any additional statement files Props/<pid>_*.v
        files = [os.path.join(COQ, "Props", f"{self.pid}.v")] + sorted(_glob.glob(os.path.join(COQ, "Props", f"{self.pid}_*.v")))
        names = []
        for props in files:
            names += _THM.findall(re.sub(r"\(\*.*?\*\)", "", open(props).read(), flags=re.S))
        self.coverage["obligations"] = len(names)
        vos = ["Props/" + os.path.basename(f)[:-2] + ".vo" for f in files]
        # refutation witnesses of this property are rebuilt too (they must stay checkable against the
        # current model / fragments); they are not counted as obligations
        ref_vos = ["Refuted/" + os.path.basename(f)[:-2] + ".vo" for f in sorted(_glob.glob(os.path.join(COQ, "Refuted", f"{self.pid}_*.v")))]
        vo = " ".join(vos)
        # every fragment group the property files depend on, directly or through imported proofs (e.g. C04 -> Pipeline ->
        # ReplayProofs -> Gen.Frag_replay), is regenerated from the tree under test: a theorem is only re-established for
        # this tree when ALL the fragments it rests on come from this tree
        declared = list(self.groups or [])
        for g in sorted(fragment_deps(files)):
            if g not in declared:
                declared.append(g)
        self.groups = declared
        self.notes["fragment_groups"] = declared
        with coq_lock():
            st = gen.regenerate(self.groups if self.groups else ["__no_group__"])
            st.pop("Subproc", None) if not (self.groups and "Subproc" in self.groups) else None
            self.notes["fragments"] = st
            ensure_project()
            # force recompilation of the property files so that Print Assumptions is re-run
            for v in vos:
                try:
                    os.remove(os.path.join(COQ, v))
                except OSError:
                    pass
            rc, out, err, dt = run(["make", "-j16", "COQC=timeout 900 coqc", *vos, *ref_vos], timeout=timeout, cwd=COQ)
        self.notes["refuted_witnesses_rebuilt"] = ref_vos
        cmd = f"cd {COQ} && make -j16 {vo}   (coqc 8.16.1, full .vo build; Print Assumptions after every theorem)"
        self.coverage["checker_cmd"] = cmd
        self.notes["proof_build_s"] = round(dt, 1)
        fb = [g for g, s in st.items() if not s["status"].startswith("generated")]
        if fb:
            # the translator could not regenerate these groups from the current source: the theorems
            # were rebuilt against the pinned copies, i.e. they are NOT re-established for this tree.
            # finish() reports this as a broken obligation unless the correspondence/oracle campaign
            # produces a concrete failing input (then that is the report).
            self.notes["fragment_fallback"] = {g: st[g]["status"] for g in fb}
            self.tie_fallback = {g: st[g]["status"] for g in fb}
        if rc != 0:
            self.proof_ok = False
            m = re.search(r'File "\./([^"]+)", line (\d+)', err)
            where = f"{m.group(1)}:{m.group(2)}" if m else "?"
            self.broken.append({"where": where, "error": err.strip()[-1500:]})
            self.coverage["discharged"] = 0
            try:
                div = fragment_divergence(self.groups)
            except Exception as e:  # the search is best effort
                div = [{"difference": f"search crashed: {e}"}]
            if div:
                self.broken[-1]["fragment_divergence"] = div
                self.notes["fragment_divergence"] = div
            return False
        # Print Assumptions output: "Closed under the global context" or an "Axioms:" block whose
        # entries start at column 0 (`name : type`, the type possibly continued on indented lines)
        axioms = set()
        closed = 0
        in_ax = False
        for ln in out.split("\n"):
            if ln.startswith("Closed under the global context"):
                closed += 1
                in_ax = False
            elif ln.startswith("Axioms:"):
                in_ax = True
            elif in_ax:
                if ln[:1] in (" ", "\t") or ln == "":
                    continue
                m = re.match(r"^([A-Za-z_][\w\.']*)\s*(?::|$)", ln)
                if m:
                    axioms.add(m.group(1))
                else:
                    in_ax = False
        n_pa = len(re.findall(r"Closed under the global context|Axioms:", out))
        self.notes["print_assumptions"] = {"theorems_checked": n_pa, "closed": closed, "axioms": sorted(axioms)}
        bad = sorted(a for a in axioms if a not in STDLIB_AXIOMS_ALLOWED)
        # every theorem of the property files must be followed by ITS OWN `Print Assumptions <name>.`
        printed = []
        for props in files:
            printed += re.findall(r"^\s*Print\s+Assumptions\s+([A-Za-z_][\w']*)\s*\.", re.sub(r"\(\*.*?\*\)", "", open(props).read(), flags=re.S), flags=re.M)
        unprinted = sorted(set(names) - set(printed))
        if bad or n_pa < len(names) or unprinted:
            self.proof_ok = False
            self.broken.append({"where": f"Props/{self.pid}.v", "error": f"assumption check failed: non-stdlib axioms {bad}; Print Assumptions blocks {n_pa} < theorems {len(names)}; "
                                                                           f"theorems without their own Print Assumptions: {unprinted}"})
            self.coverage["discharged"] = 0
            return False
        self.proof_ok = True
        self.coverage["discharged"] = len(names)
        self.coverage["trusted_base"] = [
            "Coq 8.16.1 kernel (coqc); vm_compute for evaluating cases; no native_compute",
            "axioms reported by Print Assumptions for the property theorems: " + (", ".join(sorted(axioms)) if axioms else "none (closed under the global context)"),
            "fragment translator /verif/translate/py2coq.py + specs (Python ast -> Gallina)",
            "correspondence harness /verif/harness (generators, canonicalisers), Python/numpy/torch/gymnasium",
        ]
        self.notes["theorems"] = names
        if self.tier == "thorough":
            # independent re-check of the compiled property file and everything it depends on
            mods = ["SB3V.Props." + os.path.basename(f)[:-2] for f in files]
            rc2, out2, err2, dt2 = run(["coqchk", "-silent", "-o", "-Q", COQ, "SB3V", *mods], timeout=1800, cwd=COQ)
            txt = out2 + err2
            m = re.search(r"\* Axioms:(.*?)(?:\n\s*\n|\Z)", txt, re.S)
            self.notes["coqchk"] = {"rc": rc2, "wall_s": round(dt2, 1),
                                    "axioms": [a.strip() for a in (m.group(1).strip().split("\n") if m else []) if a.strip()][:60],
                                    "tail": txt[-400:]}
            if rc2 != 0:
                self.proof_ok = False
                self.broken.append({"where": f"coqchk SB3V.Props.{self.pid}", "error": txt[-800:]})
                self.coverage["discharged"] = 0
                return False
        return True

    # ---- reporting ----
    def violation(self, signature: str, what: str, replay: dict, found_input: bool = True):
        """record one violation. `signature` names the specific failing input class."""
        self.violations.append({"signature": signature, "what": what, "replay": replay, "found_input": found_input})

    def add_samples(self, items, cap=4):
        for it in items:
            if len(self.coverage["samples"]) < cap:
                self.coverage["samples"].append(it)

    def finish(self):
        kf = known_findings()
        os.makedirs(os.path.join(VERIF, "replays"), exist_ok=True)
        os.makedirs(os.path.join(VERIF, "evidence"), exist_ok=True)
        if self.proof_ok is False and not any(v for v in self.violations if (self.pid, v["signature"]) not in kf):
            # a proof / assumption check broke and no concrete failing input was found
            self.violation("proof-broken", "theorem or interface lemma no longer checks: " + "; ".join(b["where"] for b in self.broken),
                           {"broken": self.broken, "fragments": self.notes.get("fragments")}, found_input=False)
        if self.tie_fallback and not any(v for v in self.violations if (self.pid, v["signature"]) not in kf):
            self.violation("fragment-not-regenerated",
                           "the fragment translator could not regenerate " + ", ".join(sorted(self.tie_fallback)) +
                           " from the current source (fell back to the pinned copy): the interface lemmas are not re-established for this tree",
                           {"fallback": self.tie_fallback, "correspondence": "translate/specs/<group>.py vs the current source"}, found_input=False)
        lines, new = [], 0
        seen_known = set()
        for v in self.violations:
            key = (self.pid, v["signature"])
            if key in kf:
                if key not in seen_known:
                    seen_known.add(key)
                    lines.append(f"KNOWN-FINDING: property={self.pid} {v['signature']}: {v['what']}")
                continue
            new += 1
            h = hashlib.sha256(json.dumps(v["replay"], sort_keys=True, default=str).encode()).hexdigest()[:10]
            path = os.path.join(VERIF, "replays", f"{self.pid}-{v['signature']}-{h}.json")
            with open(path, "w") as fh:
                json.dump({"property": self.pid, "signature": v["signature"], "what": v["what"],
                           "seed": self.seed, "tier": self.tier, "replay": v["replay"],
                           "broken_proofs": self.broken}, fh, indent=1, default=str)
            suffix = "" if v["found_input"] else " no-failing-input-found"
            lines.append(f"VIOLATION property={self.pid} replay={path}{suffix}")
        cov = dict(self.coverage)
        cov["known_findings_reproduced"] = sorted(s for _, s in seen_known)
        cov.update({k: v for k, v in self.notes.items()})
        if not cov["samples"]:
            cov["samples"] = ["(no samples recorded)"]
        if self.level == "proof" and not cov.get("discharged"):
            # a run whose proof obligations did not build: the schema's proof keys require discharged >= 1, so the counts are
            # recorded under other names and the exploration-style counts (evaluations, distinct_nontrivial) describe the run
            cov["obligations_stated"] = cov.pop("obligations", 0)
            cov["obligations_discharged"] = cov.pop("discharged", 0)
        ev = {
            "property_id": self.pid, "tier": self.tier, "seed": self.seed, "level": self.level,
            "coverage": cov, "assumptions": self.assumptions,
            "wall_s": round(time.time() - self.t0, 2), "violations": new,
        }
        # evidence/ only ever describes runs against /repo itself; a run against a scratch tree (VERIF_REPO, used to
        # try seeded changes) leaves its record under evidence_scratch/ (not committed)
        ev_dir = "evidence" if os.path.realpath(REPO) == os.path.realpath("/repo") else "evidence_scratch"
        os.makedirs(os.path.join(VERIF, ev_dir), exist_ok=True)
        with open(os.path.join(VERIF, ev_dir, f"{self.pid}.json"), "w") as fh:
            json.dump(ev, fh, indent=1, default=str)
        for ln in lines:
            print(ln)
        print(f"[{self.pid}] tier={self.tier} seed={self.seed} obligations={cov.get('obligations', cov.get('obligations_stated'))} discharged={cov.get('discharged', cov.get('obligations_discharged'))} "
              f"evaluations={cov['evaluations']} nontrivial={cov['distinct_nontrivial']} new_violations={new} "
              f"known={len(seen_known)} wall={ev['wall_s']}s")
        sys.stdout.flush()
        return 1 if new else 0


# --------------------------------------------------------------------------
# failing-input search, engine (b): where does a regenerated fragment differ from the pinned one?
# --------------------------------------------------------------------------

_DEF = re.compile(r"^Definition (\w+)((?: \(\w+ : \w+\))*) : ([^:=]+?) :=", re.M)


def _frag_defs(path):
    out = {}
    try:
        txt = open(path).read()
    except OSError:
        return out
    for m in _DEF.finditer(txt):
        args = re.findall(r"\((\w+) : (\w+)\)", m.group(2))
        out[m.group(1)] = (args, [t.strip() for t in m.group(3).split("*")])
    return out


def fragment_divergence(groups, timeout=300):
    """for every definition of Gen/Frag_<g>.v whose signature equals the pinned one, search a small
    boundary grid (inside coqc, vm_compute) for an argument tuple on which the two differ"""
    found = []
    for g in groups or []:
        gen_defs = _frag_defs(os.path.join(GEN, f"Frag_{g}.v"))
        pin_defs = _frag_defs(os.path.join(COQ, "Pinned", f"Frag_{g}.v"))
        common_defs = [n for n in gen_defs if n in pin_defs and gen_defs[n] == pin_defs[n]]
        for n in gen_defs:
            if n not in pin_defs or gen_defs[n] != pin_defs[n]:
                found.append({"fragment": f"{g}.{n}", "difference": "signature changed or fragment missing in pinned copy"})
        if not common_defs:
            continue
        body = ["From Coq Require Import ZArith QArith List Bool.", "Import ListNotations.",
                f"Require SB3V.Gen.Frag_{g}.", "Require Import Coq.QArith.Qminmax Coq.QArith.Qabs.",
                "Definition gZ : list Z := [0; 1; 2; 3; 4; 7; (-1)]%Z.",
                "Definition gQ : list Q := [0; 1; (-1); (1#2); 2; (3#4)]%Q.",
                "Definition gB : list bool := [true; false].",
                "Definition pQ (q : Q) : Z * Z := (Qnum q, Zpos (Qden q)).",
                # the pinned copy is loaded from its file under another logical name
                ]
        # compile the pinned copy as module SB3V.Pinned.Frag_<g>
        pin_path = os.path.join(COQ, "Pinned", f"Frag_{g}.v")
        rc, out, err, _ = coqc_file(pin_path, timeout)
        if rc != 0:
            found.append({"fragment": g, "difference": "pinned copy does not compile: " + err[-300:]})
            continue
        body.append(f"Require SB3V.Pinned.Frag_{g}.")
        names = []
        for n in common_defs:
            args, res = gen_defs[n]
            if not args:
                continue
            grid = {"Z": "gZ", "Q": "gQ", "bool": "gB"}
            if any(t not in grid for _, t in args) or any(t not in grid for t in res):
                continue
            small = len(args) > 5
            prod = None
            for a, t in reversed(args):
                gexp = grid[t] if not small else f"(firstn 4 {grid[t]})"
                prod = gexp if prod is None else f"(list_prod {gexp} {prod})"
            pat = None
            for a, t in reversed(args):
                pat = a if pat is None else f"({a}, {pat})"
            call = lambda mod: f"(SB3V.{mod}.Frag_{g}.{n} " + " ".join(a for a, _ in args) + ")"  # noqa: E731
            eqs = {"Z": "Z.eqb", "Q": "Qeq_bool", "bool": "Bool.eqb"}
            if len(res) == 1:
                eq = f"({eqs[res[0]]} {call('Gen')} {call('Pinned')})"
            else:
                comps = []
                for k, t in enumerate(res):
                    def proj(x, k=k):
                        e = x
                        for _ in range(len(res) - 1 - k if k > 0 else len(res) - 1):
                            e = f"(fst {e})"
                        return e if k == 0 else f"(snd {e})"
                    comps.append(f"({eqs[t]} {proj(call('Gen'))} {proj(call('Pinned'))})")
                eq = "(" + " && ".join(comps) + ")%bool"
            show = "(" + ", ".join((f"pQ {a}" if t == "Q" else a) for a, t in args) + ")" if len(args) > 1 else (f"pQ {args[0][0]}" if args[0][1] == "Q" else args[0][0])
            body.append(f"Eval vm_compute in (hd_error (map (fun '{pat} => {show}) (filter (fun '{pat} => negb {eq}) {prod}))).")
            names.append((n, [a for a, _ in args]))
        try:
            vals = coq_eval_text(f"fragdiff_{g}", "\n".join(body), timeout)
        except (CoqError, ValueError) as e:
            found.append({"fragment": g, "difference": f"divergence search failed: {str(e)[-300:]}"})
            continue
        for (n, argnames), v in zip(names, vals):
            if v is not None:
                w = v[1] if isinstance(v, tuple) and v and v[0] == "Some" else v
                found.append({"fragment": f"{g}.{n}", "arguments": argnames, "first_differing_input": w})
    return found


def shrink_list(items, fails, max_rounds=200):
    """greedy delta-debugging on a list: `fails(candidate)` must stay true"""
    cur = list(items)
    n = 2
    rounds = 0
    while len(cur) >= 2 and rounds < max_rounds:
        rounds += 1
        chunk = max(1, len(cur) // n)
        reduced = False
        for i in range(0, len(cur), chunk):
            cand = cur[:i] + cur[i + chunk :]
            if cand and fails(cand):
                cur = cand
                n = max(n - 1, 2)
                reduced = True
                break
        if not reduced:
            if chunk == 1:
                break
            n = min(n * 2, len(cur))
    return cur


def fraction_of_float(x) -> Fraction:
    return Fraction(float(x))
