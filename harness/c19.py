"""C19 - no aliasing between the library and its callers.

Proof side:  Props/C19.v - for every program of the heap language that passes the copy-discipline
             checker, and every call history interleaved with arbitrary caller writes: the call
             leaves every caller-owned location unchanged (frame), never retains or writes through
             anything it returned, and two runs that differ only in caller-owned locations give the
             same results (non-interference); all component programs pass the checker; the pinned
             (pre-fix) VecFrameStack / DictReplayBuffer.add programs are refuted with witnesses.
Tie:         alias-graph correspondence: after every call of every VecEnv wrapper stack / buffer /
             predict, np.shares_memory between everything the caller holds and every internal array
             must equal the model's sharing relation (harness walks the component's __dict__).
Oracle:      (from the property text) snapshots of every object passed in or returned must never
             change afterwards; a twin run in which the caller overwrites everything it holds with a
             sentinel must return the same values.
"""
from __future__ import annotations

import copy
import json

from harness import common
from harness.common import Check

REGISTRY = dict(
    text=("Proof (unbounded): in the heap model every component operation (DummyVecEnv, VecFrameStack, VecNormalize, VecTransposeImage, VecExtractDictObs, VecCheckNan, "
          "VecMonitor, replay/rollout buffers, HerReplayBuffer with retained info dicts, rollout buffer add/compute/get/reset, VecNormalize's public transforms, predict on array and Dict observations) passes the copy-discipline checker, and for EVERY disciplined program and EVERY call history interleaved with arbitrary "
          "caller writes: caller-owned arrays are never modified, returned objects are never retained in live state nor written later, and results do not depend on "
          "caller writes to objects passed or returned earlier. Pre-fix VecFrameStack, DictReplayBuffer.add and HerReplayBuffer.add (kept / one-level-copied info dicts) and predict() without the Dict copy are refuted with concrete histories. Tie: per-call aliasing facts of every program (call_facts) compared with the implementation + alias-graph correspondence "
          "(np.shares_memory vs model sharing relation) + snapshot/twin-run oracle over random call sequences."),
    note=("Trusted: Coq 8.16.1 kernel, harness/c19.py (walk of __dict__ for internal arrays, sentinel twin runs), numpy's shares_memory. The component programs in "
          "coq/Model/Alias.v are hand-written from the source and tied to it only by the alias-graph correspondence (no translator: the property is about object identity, "
          "which has no arithmetic fragment). A numpy view counts as the same location as its base. Theorems are closed under the global context."),
    technique="machine-checked proof in Coq (abstract-interpretation soundness of a copy-discipline checker over a heap language; frame + two-run non-interference by induction over programs and histories) + alias-graph differential correspondence",
)

HEADER = """From Coq Require Import List ZArith Bool.
From SB3V Require Import Model.Alias.
Import ListNotations.
"""

DEAD_ATTRS = {"_observations", "_actions", "actions"}  # dead slots of the model (VecCheckNan, DummyVecEnv.step_async)
SENTINEL = 77


# ------------------------------------------------------------------ helpers

def _leaves(obj, prefix=""):
    """(path, ndarray) for every array reachable in an observation / batch-like object"""
    import numpy as np
    import torch as th

    out = []
    if isinstance(obj, np.ndarray):
        out.append((prefix, obj))
    elif isinstance(obj, th.Tensor):
        out.append((prefix, obj.detach().numpy()))
    elif isinstance(obj, dict):
        for k, v in obj.items():
            out += _leaves(v, f"{prefix}.{k}")
    elif isinstance(obj, (list, tuple)):
        for i, v in enumerate(obj):
            out += _leaves(v, f"{prefix}[{i}]")
    elif hasattr(obj, "_fields"):
        for k in obj._fields:
            out += _leaves(getattr(obj, k), f"{prefix}.{k}")
    return out


def _internal_arrays(comp, depth=0, seen=None, prefix=""):
    """walk a component's __dict__ (and nested library objects) for numpy arrays"""
    import numpy as np

    seen = seen if seen is not None else set()
    out = []
    if id(comp) in seen or depth > 4:
        return out
    seen.add(id(comp))
    d = getattr(comp, "__dict__", None)
    if d is None:
        return out
    for k, v in d.items():
        name = f"{prefix}{k}"
        if isinstance(v, np.ndarray):
            out.append((k, name, v))
        elif isinstance(v, dict):
            for kk, vv in v.items():
                if isinstance(vv, np.ndarray):
                    out.append((k, f"{name}[{kk}]", vv))
                elif hasattr(vv, "__dict__") and type(vv).__module__.startswith("stable_baselines3"):
                    out += [(k, n2, a) for (_, n2, a) in _internal_arrays(vv, depth + 1, seen, f"{name}[{kk}].")]
        elif isinstance(v, (list, tuple)):
            for i, vv in enumerate(v):
                if isinstance(vv, np.ndarray):
                    out.append((k, f"{name}[{i}]", vv))
                elif isinstance(vv, dict):
                    for kk, v3 in vv.items():
                        for p, a in _leaves(v3):
                            out.append((k, f"{name}[{i}][{kk}]{p}", a))
        elif hasattr(v, "__dict__") and type(v).__module__.startswith("stable_baselines3"):
            out += [(k if depth == 0 and k != "venv" else k2, n2, a) for (k2, n2, a) in _internal_arrays(v, depth + 1, seen, name + ".")]
    return out


class Holder:
    """everything the caller holds: (label, array, snapshot)"""

    def __init__(self):
        self.items = []

    def keep(self, label, obj):
        for p, a in _leaves(obj):
            self.items.append((label + p, a, a.copy()))

    def changed(self):
        import numpy as np

        bad = []
        for label, a, snap in self.items:
            if a.shape != snap.shape or not np.array_equal(a, snap, equal_nan=True):
                bad.append(label)
        return bad

    def scribble(self):
        for _, a, _ in self.items:
            if a.flags.writeable:
                if a.dtype == bool:
                    a[...] = ~a
                else:
                    a[...] = SENTINEL


def _shares(holder_items, internals):
    import numpy as np

    out = []
    for label, a, _ in holder_items:
        for attr, name, arr in internals:
            if arr.size and a.size and np.shares_memory(a, arr):
                out.append((label, attr, name))
    return out


def _same(a, b):
    import numpy as np

    la, lb = _leaves(a), _leaves(b)
    if [p for p, _ in la] != [p for p, _ in lb]:
        return False
    return all(x.shape == y.shape and np.array_equal(x, y, equal_nan=True) for (_, x), (_, y) in zip(la, lb))


# ------------------------------------------------------------------ VecEnv stacks

def gen_stack(rng):
    kind = rng.choice(["box1", "image_hwc", "dict", "dict", "discrete", "tuple", "multidiscrete"])
    n_envs = rng.randint(1, 3)
    wrappers = []
    cur = kind
    for _ in range(rng.randint(1, 3)):
        if cur == "box1":
            w = rng.choice(["framestack", "normalize", "monitor", "checknan"])
        elif cur == "image_hwc":
            w = rng.choice(["framestack", "transpose", "monitor", "checknan"])
        elif cur == "image_chw":
            w = rng.choice(["framestack", "monitor", "checknan"])
        elif cur == "dict":
            w = rng.choice(["framestack", "normalize_dict", "extract_vec", "extract_img", "monitor", "checknan", "transpose"])
        elif cur == "dict_t":  # Dict whose image entry is already channel-first
            w = rng.choice(["framestack", "normalize_dict", "extract_vec", "extract_img", "monitor", "checknan"])
        else:
            w = rng.choice(["monitor", "checknan"])
        if w == "transpose" and "framestack" in wrappers:
            w = "monitor"  # a stacked image is no longer a channel-last image that VecTransposeImage accepts
        wrappers.append(w)
        if w == "framestack" and cur == "image_hwc":
            cur = "image_chw"  # stacked along the last axis: no longer a channel-last image for VecTransposeImage
        if w == "transpose":
            cur = "dict_t" if cur == "dict" else "image_chw"
        elif w == "extract_vec":
            cur = "box1"
        elif w == "extract_img":
            cur = "image_chw" if cur == "dict_t" else "image_hwc"
    n_ops = rng.randint(4, 14)
    ops = ["reset"]
    for _ in range(n_ops):
        ops.append("reset" if rng.random() < 0.15 else "step")
    if any(w.startswith("normalize") for w in wrappers):
        for i in range(len(ops)):
            if ops[i] == "step" and rng.random() < 0.3:
                ops.insert(i + 1, rng.choice(["orig", "orig", "normcall"]))
                if ops[i + 1] == "orig" and rng.random() < 0.5:
                    ops.insert(i + 2, "orig")  # asked twice with no step in between: the first answer, overwritten by the twin, must not leak into the second
    return {"what": "vecenv", "kind": kind, "n_envs": n_envs, "wrappers": wrappers, "ops": ops,
            "n_stack": rng.randint(1, 4), "script_seed": rng.randint(0, 10**6),
            # coverage audit: VecNormalize with every flag combination, training toggled off, frame stack channel orders,
            # SubprocVecEnv as the base in the thorough tier
            "vn": {"norm_obs": rng.random() < 0.8, "norm_reward": rng.random() < 0.8, "training": rng.random() < 0.8},
            "channels_order": rng.choice([None, None, "last", "first"]) if kind in ("image_hwc",) else None,
            "subproc": common.tier() == "thorough" and rng.random() < 0.1}


def build_stack(case):
    import random

    from stable_baselines3.common.vec_env import (DummyVecEnv, VecCheckNan, VecExtractDictObs, VecFrameStack, VecMonitor,
                                                  VecNormalize, VecTransposeImage)

    from harness import scripted_envs as se

    r = random.Random(case["script_seed"])
    scripts = [se.gen_script(r, n_episodes=3, max_len=4, tag_base=40 * i, tag_cap=250) for i in range(case["n_envs"])]
    osp = None
    if case["kind"] == "dict":  # VecFrameStack does not support Discrete entries: Box + image entries only
        import numpy as np
        from gymnasium import spaces
        osp = spaces.Dict({"vec": spaces.Box(-1e5, 1e5, (2,), dtype=np.float32), "img": spaces.Box(0, 255, (8, 8, 3), dtype=np.uint8)})
    fns = [se.make_env_fn(s, obs_kind=case["kind"], act_kind="discrete", obs_space=osp) for s in scripts]
    if case.get("subproc"):
        from stable_baselines3.common.vec_env import SubprocVecEnv

        venv = SubprocVecEnv(fns, start_method="fork")
    else:
        venv = DummyVecEnv(fns)
    vn = case.get("vn") or {"norm_obs": True, "norm_reward": True, "training": True}
    first_stack = True
    for w in case["wrappers"]:
        if w == "framestack":
            co = case.get("channels_order") if first_stack and isinstance(venv.observation_space, __import__("gymnasium").spaces.Box) and len(venv.observation_space.shape) == 3 else None
            venv = VecFrameStack(venv, n_stack=case["n_stack"], channels_order=co)
            first_stack = False
        elif w == "normalize":
            venv = VecNormalize(venv, norm_obs=vn["norm_obs"], norm_reward=vn["norm_reward"], training=vn["training"])
        elif w == "normalize_dict":
            venv = VecNormalize(venv, norm_obs=vn["norm_obs"], norm_reward=vn["norm_reward"], training=vn["training"],
                                norm_obs_keys=["vec"] if vn["norm_obs"] else None)
        elif w == "transpose":
            venv = VecTransposeImage(venv)
        elif w == "extract_vec":
            venv = VecExtractDictObs(venv, "vec")
        elif w == "extract_img":
            venv = VecExtractDictObs(venv, "img")
        elif w == "monitor":
            venv = VecMonitor(venv)
        elif w == "checknan":
            venv = VecCheckNan(venv)
    return venv


def _chain(venv):
    out = [venv]
    while hasattr(out[-1], "venv"):
        out.append(out[-1].venv)
    return out


def run_vecenv(case):
    import numpy as np

    prim, twin = build_stack(case), build_stack(case)
    taps = tap_chain(prim)
    hp, ht = Holder(), Holder()
    problems, sharing = [], []
    held_infos = []
    extra_facts_bad = []
    try:
        for k, op in enumerate(case["ops"]):
            outs = []
            for venv, holder, is_twin in ((prim, hp, False), (twin, ht, True)):
                if op == "reset":
                    res = {"obs": venv.reset()}
                elif op == "step":
                    actions = np.array([(k + i) % 4 for i in range(case["n_envs"])])
                    asnap = actions.copy()
                    o, r, d, infos = venv.step(actions)
                    if not np.array_equal(actions, asnap):
                        problems.append(("oracle-argument-modified", f"op {k} step: the actions array passed in was modified"))
                    holder.keep(f"op{k}.actions", actions)
                    res = {"obs": o, "rew": r, "done": d,
                           "term": [inf.get("terminal_observation") for inf in infos],
                           "trunc": np.array([bool(inf.get("TimeLimit.truncated", False)) for inf in infos])}
                    if not is_twin:
                        # the infos LIST and its dicts are results too: what the caller holds must not change at later calls
                        for lab, held, fp in held_infos:
                            now = (len(held), [sorted(map(str, h.keys())) if isinstance(h, dict) else None for h in held], _infos_fp(held))
                            if now != fp and not any(p_[0] == "oracle-earlier-result-changed-by-later-call" for p_ in problems):
                                problems.append(("oracle-earlier-result-changed-by-later-call", f"op {k} (step) changed the infos list returned by {lab}"))
                        held_infos.append((f"op{k}", infos, (len(infos), [sorted(map(str, h.keys())) for h in infos], _infos_fp(infos))))
                    if is_twin:
                        for inf in infos:
                            inf.clear()
                elif op == "normcall":  # the public transforms applied to arrays the CALLER owns
                    vn = [v for v in _chain(venv) if type(v).__name__ == "VecNormalize"][0]
                    mine_o, mine_r = copy.deepcopy(vn.get_original_obs()), vn.get_original_reward().copy()
                    snap_o, snap_r = copy.deepcopy(mine_o), mine_r.copy()
                    vslots = [None if x is None else list(x) for x in _slot_objects(vn, "vecnorm")]
                    before = _snap_slots(vslots)
                    fp_o, fp_r = _fp_any(mine_o) if not isinstance(mine_o, dict) else _fp_any(mine_o), _fp_any(mine_r)
                    res = {"n_obs": vn.normalize_obs(mine_o), "n_rew": vn.normalize_reward(mine_r)}
                    if not is_twin:
                        vafter = [None if x is None else list(x) for x in _slot_objects(vn, "vecnorm")]
                        normcall_bad = call_facts_compare("vecnorm_normalize_call", before, vafter, [[a for _, a in _leaves(mine_o)]], [res["n_obs"]],
                                                          args_fp_before=[fp_o], args_objs=[mine_o])
                        normcall_bad += call_facts_compare("vecnorm_normalize_reward_call", before, vafter, [[mine_r]], [res["n_rew"]],
                                                           args_fp_before=[fp_r], args_objs=[mine_r])
                        extra_facts_bad.extend(normcall_bad)
                    res["u_obs"] = vn.unnormalize_obs(res["n_obs"])
                    res["u_rew"] = vn.unnormalize_reward(res["n_rew"])
                    if not _same({"o": mine_o, "r": mine_r}, {"o": snap_o, "r": snap_r}):
                        problems.append(("oracle-argument-modified", f"op {k} normcall: normalize_obs / normalize_reward modified the arrays they were handed"))
                    holder.keep(f"op{k}.normcall.args", {"o": mine_o, "r": mine_r})
                else:  # orig
                    vn = [v for v in _chain(venv) if type(v).__name__ == "VecNormalize"][0]
                    res = {"orig_obs": vn.get_original_obs(), "orig_rew": vn.get_original_reward()}
                outs.append(copy.deepcopy(res))
                bad = holder.changed()
                if bad and not is_twin:
                    problems.append(("oracle-earlier-result-changed-by-later-call", f"op {k} ({op}) changed objects returned/passed earlier: {bad[:4]}"))
                holder.keep(f"op{k}.{op}", res)
                if not is_twin:
                    internals = []
                    for comp in _chain(venv):
                        internals += [(a, type(comp).__name__ + "." + n, arr) for (a, n, arr) in _internal_arrays(comp) if a != "venv"]
                    sharing += [(f"op{k}", lab, attr, name) for (lab, attr, name) in _shares(holder.items, internals)]
                else:
                    holder.scribble()
                    for _, a, snap in holder.items:  # twin snapshots follow the scribbling
                        pass
                    holder.items = [(lab, a, a.copy()) for (lab, a, _) in holder.items]
            if not _same(outs[0], outs[1]):
                problems.append(("oracle-caller-write-changed-later-result", f"op {k} ({op}): twin run (caller overwrote everything it held with {SENTINEL}) returned different values"))
            if problems:
                break
    finally:
        prim.close()
        twin.close()
    live = sorted({(attr, name) for (_, _, attr, name) in sharing if attr not in DEAD_ATTRS})
    facts_bad = (compare_facts(MODEL_FACTS, taps) if MODEL_FACTS else []) or extra_facts_bad[:4]
    return problems, live, len(case["ops"]), facts_bad



# ------------------------------------------------------------------ per-level call facts (tie of the component programs)

LEVEL_COMPONENT = {"DummyVecEnv": "dummy", "VecFrameStack": "framestack", "VecNormalize": "vecnorm", "VecTransposeImage": "transpose",
                   "VecExtractDictObs": "extract", "VecCheckNan": "checknan", "VecMonitor": "vecmonitor"}
# component -> (reset program, step program, live slots, dead slots) as named in coq/Model/Alias.v
COMPONENT_PROGRAMS = {
    "dummy": ("dummy_reset", "dummy_step", 4, 1), "framestack": ("framestack_reset", "framestack_step", 1, 0),
    "vecnorm": ("vecnorm_reset", "vecnorm_step", 5, 0), "transpose": ("transpose_reset", "transpose_step", 0, 0),
    "transpose_dict": ("transpose_dict_reset", "transpose_dict_step", 0, 0), "extract": ("extract_reset", "extract_step", 0, 0),
    "checknan": ("checknan_reset", "checknan_step", 0, 2), "vecmonitor": ("vecmonitor_reset", "vecmonitor_step", 2, 0),
}


def _rms_objs(r):
    return list(r.values()) if isinstance(r, dict) else ([r] if r is not None else [])


def _slot_objects(venv, comp):
    """the objects each LIVE slot of the component currently refers to (None = slot not observed)"""
    if comp == "dummy":
        return [list(venv.buf_obs.values()), [venv.buf_rews], [venv.buf_dones], None]
    if comp == "framestack":
        so = venv.stacked_obs
        subs = getattr(so, "sub_stacked_observations", None)
        return [[x.stacked_obs for x in subs.values()] if subs else [so.stacked_obs]]
    if comp == "vecnorm":
        old = getattr(venv, "old_obs", None)
        old_l = [a for _, a in _leaves(old)] if old is not None else []
        oldr = getattr(venv, "old_reward", None)
        return [old_l, [oldr] if oldr is not None else [], [venv.returns], _rms_objs(getattr(venv, "obs_rms", None)), [venv.ret_rms]]
    if comp == "vecmonitor":
        return [[venv.episode_returns], [venv.episode_lengths]]
    return []


def _fp(o):
    import numpy as np

    if isinstance(o, np.ndarray):
        return (o.shape, o.tobytes())
    if hasattr(o, "mean") and hasattr(o, "var"):  # RunningMeanStd
        return (np.asarray(o.mean).tobytes(), np.asarray(o.var).tobytes(), float(o.count))
    return repr(o)


def _snap(venv, comp):
    out = []
    for objs in _slot_objects(venv, comp):
        out.append(None if objs is None else {"objs": list(objs), "ids": tuple(id(o) for o in objs), "fp": [_fp(o) for o in objs]})
    return out


def _arrays_of(o):
    import numpy as np

    if isinstance(o, np.ndarray):
        return [o]
    if hasattr(o, "mean") and hasattr(o, "var"):
        return [np.asarray(o.mean), np.asarray(o.var)]
    return [a for _, a in _leaves(o)]


def _related(a, b):
    """same object, or some array of a shares memory with some array of b"""
    import numpy as np

    if a is b:
        return True
    if isinstance(a, list) and a and isinstance(a[0], dict):  # infos: identity of the list only
        return False
    if isinstance(b, list) and b and isinstance(b[0], dict):
        return False
    for x in _arrays_of(a):
        for y in _arrays_of(b):
            if x.size and y.size and np.shares_memory(x, y):
                return True
    return False


def _infos_fp(infos):
    out = []
    for inf in infos:
        t = inf.get("terminal_observation") if isinstance(inf, dict) else None
        out.append((sorted(inf.keys()) if isinstance(inf, dict) else None, [(_p, a.tobytes()) for _p, a in _leaves(t)] if t is not None else None))
    return repr(out)


class LevelTap:
    """records, for one level of a wrapper chain, what step_wait()/reset() returned and how the level's live attributes changed"""

    def __init__(self, venv, inner_tap):
        self.venv, self.inner = venv, inner_tap
        cls = type(venv).__name__
        self.comp = LEVEL_COMPONENT.get(cls)
        if self.comp == "transpose" and isinstance(venv.venv.observation_space, __import__("gymnasium").spaces.Dict):
            self.comp = "transpose_dict"
        self.last = None
        self.facts = []  # (op, observed facts)
        self.actions = None
        o_step_async, o_step_wait, o_reset = venv.step_async, venv.step_wait, venv.reset
        tap = self

        def step_async(actions):
            tap.actions = actions
            return o_step_async(actions)

        def step_wait():
            before = _snap(venv, tap.comp)
            out = o_step_wait()
            tap._record("step", list(out), before)
            return out

        def reset():
            before = _snap(venv, tap.comp)
            out = o_reset()
            tap._record("reset", [out], before)
            return out

        venv.step_async, venv.step_wait, venv.reset = step_async, step_wait, reset

    def _record(self, op, ret, before):
        import numpy as np

        after = _snap(self.venv, self.comp)
        inner = self.inner.last["ret"] if (self.inner is not None and self.inner.last is not None and self.inner.last["op"] == op) else []
        inner = (inner + [None] * 4)[:4]
        args = [self.actions] if op == "step" else []
        f = {
            "ret_slot": [[(sl is not None and any(_related(r, o) for o in sl["objs"])) for sl in after] for r in ret],
            "ret_arg": [[_related(r, a) for a in args] for r in ret],
            "ret_inner": [[(c is not None and _related(r, c)) for c in inner] for r in ret],
            "slot_rebound": [(b is not None and a is not None and b["ids"] != a["ids"]) for b, a in zip(before, after)],
            "slot_inner": [[(a is not None and c is not None and any(_related(o, c) for o in a["objs"])) for c in inner] for a in after],
            "slot_arg": [[(a is not None and any(_related(o, x) for o in a["objs"])) for x in args] for a in after],
            "slot_written": [(b is not None and [_fp(o) for o in b["objs"]] != b["fp"]) for b in before],
            "inner_written": [False] * 4,
            "observed_slots": [b is not None for b in before],
        }
        if self.inner is not None and self.inner.last is not None and self.inner.last["op"] == op:
            fps = self.inner.last["fp_ret"]
            cur = self._fp_ret(self.inner.last["ret"])
            f["inner_written"] = [(i < len(fps) and fps[i] != cur[i]) for i in range(4)]
        self.last = {"op": op, "ret": ret, "fp_ret": self._fp_ret(ret)}
        self.facts.append((op, f))

    @staticmethod
    def _fp_ret(ret):
        out = []
        for r in ret:
            if isinstance(r, list) and (not r or isinstance(r[0], dict)):
                out.append(_infos_fp(r))
            else:
                out.append(repr([(p, a.shape, a.tobytes()) for p, a in _leaves(r)]))
        return out


def tap_chain(venv):
    chain = _chain(venv)[::-1]  # innermost first
    taps, prev = [], None
    for lvl in chain:
        prev = LevelTap(lvl, prev)
        taps.append(prev)
    return taps


def compare_facts(model_facts, taps):
    """model_facts: {program name: tuple of the 8 fact lists}.  Returns disagreements."""
    bad = []
    for tap in taps:
        if tap.comp is None:
            continue
        rp, sp, nlive, ndead = COMPONENT_PROGRAMS[tap.comp]
        for k, (op, f) in enumerate(tap.facts):
            m = model_facts[rp if op == "reset" else sp]
            m_ret_slot, m_ret_arg, m_ret_inner, m_rebound, m_slot_inner, m_slot_arg, m_written, m_inner_written = m[:8]
            who = f"{type(tap.venv).__name__}.{op} (call {k})"
            if len(f["ret_slot"]) != len(m_ret_slot):
                bad.append(f"{who}: {len(f['ret_slot'])} returned components, model program returns {len(m_ret_slot)}")
                continue
            for j in range(len(m_ret_slot)):
                for s_i in range(len(m_ret_slot[j])):
                    if f["observed_slots"][s_i] and f["ret_slot"][j][s_i] != m_ret_slot[j][s_i]:
                        bad.append(f"{who}: returned component {j} shares memory with live slot {s_i}: observed {f['ret_slot'][j][s_i]}, model {m_ret_slot[j][s_i]}")
                if f["ret_arg"][j] != m_ret_arg[j]:
                    bad.append(f"{who}: returned component {j} vs arguments: observed {f['ret_arg'][j]}, model {m_ret_arg[j]}")
                if tap.inner is not None and f["ret_inner"][j] != m_ret_inner[j]:
                    bad.append(f"{who}: returned component {j} vs inner results: observed {f['ret_inner'][j]}, model {m_ret_inner[j]}")
            for s_i in range(len(m_rebound)):
                if not f["observed_slots"][s_i]:
                    continue
                if f["slot_rebound"][s_i] and not m_rebound[s_i]:
                    bad.append(f"{who}: live slot {s_i} was rebound to another object, the model program keeps it")
                if f["slot_written"][s_i] and not m_written[s_i]:
                    bad.append(f"{who}: the object of live slot {s_i} was modified in place, the model program does not write it")
                if f["slot_rebound"][s_i] and m_rebound[s_i]:
                    if tap.inner is not None and f["slot_inner"][s_i] != m_slot_inner[s_i]:
                        bad.append(f"{who}: live slot {s_i} after the call vs inner results: observed {f['slot_inner'][s_i]}, model {m_slot_inner[s_i]}")
                if f["slot_arg"][s_i] != m_slot_arg[s_i]:
                    bad.append(f"{who}: live slot {s_i} vs arguments: observed {f['slot_arg'][s_i]}, model {m_slot_arg[s_i]}")
            for c in range(4):
                if f["inner_written"][c] and not m_inner_written[c]:
                    bad.append(f"{who}: inner result component {c} was modified in place, the model program does not write it")
            if bad:
                return bad[:6]
    return bad



# ------------------------------------------------------------------ per-call facts of the buffer programs

# program of coq/Model/Alias.v -> (nargs, live slots, dead slots)
BUFFER_PROGRAMS = {"buffer_add": (5, 5, 0), "buffer_sample": (0, 5, 0), "her_add": (7, 7, 0), "her_sample": (0, 7, 0),
                   "rollout_add": (6, 8, 0), "rollout_compute": (2, 8, 0), "rollout_get": (0, 8, 0), "rollout_reset": (0, 8, 0),
                   "vecnorm_normalize_call": (1, 5, 0), "vecnorm_normalize_reward_call": (1, 5, 0),
                   "predict_prog": (1, 1, 0), "predict_dict_prog": (1, 1, 0)}


def _mutable_values(infos):
    """the mutable objects held INSIDE info dicts (nested dict / list / array), one level and below"""
    import numpy as np

    out = []

    def walk(v):
        if isinstance(v, (dict, list, np.ndarray)):
            out.append(v)
        if isinstance(v, dict):
            for x in v.values():
                walk(x)
        elif isinstance(v, (list, tuple)):
            for x in v:
                walk(x)
    for inf in infos or []:
        if isinstance(inf, dict):
            for x in inf.values():
                walk(x)
    return out


def _buf_slot_objects(buf, cell=None):
    """objects of the live slots 0..4 (ring arrays) and, for HER with copy_info_dict, 5 (info dicts retained for ring
    cell `cell`) and 6 (mutable values inside them)"""
    def arrs(x):
        return list(x.values()) if isinstance(x, dict) else [x]
    nxt = getattr(buf, "next_observations", None)
    slots = [arrs(buf.observations), arrs(nxt) if nxt is not None else None, [buf.actions], [buf.rewards], [buf.dones]]
    if hasattr(buf, "infos") and cell is not None:
        kept = buf.infos[cell]
        kept = list(kept) if kept is not None else []
        slots += [[d for d in kept if isinstance(d, dict)], _mutable_values(kept)]
    return slots


def _obj_related(a, b):
    import numpy as np

    if a is b:
        return True
    if isinstance(a, np.ndarray) and isinstance(b, np.ndarray):
        return bool(a.size and b.size and np.shares_memory(a, b))
    return False


def _buf_snap(buf, cell=None):
    out = []
    for objs in _buf_slot_objects(buf, cell):
        out.append(None if objs is None else {"objs": objs, "ids": tuple(id(o) for o in objs), "fp": [_fp(o) for o in objs]})
    return out


def buffer_add_facts(prog, before, after, arg_groups):
    """compare one add() call with call_facts of the model program `prog`; arg_groups[i] = objects of argument i"""
    m = MODEL_FACTS.get(prog)
    if m is None:
        return []
    _, _, _, m_rebound, _, m_slot_arg, m_written, _ = m[:8]
    bad = []
    for s_i, (b, a) in enumerate(zip(before, after)):
        if a is None or s_i >= len(m_slot_arg):
            continue
        obs_arg = [any(_obj_related(o, x) for o in a["objs"] for x in grp) for grp in arg_groups]
        if obs_arg != list(m_slot_arg[s_i])[:len(obs_arg)]:
            bad.append(f"{prog}: live slot {s_i} vs the caller's arguments after the call: observed {obs_arg}, model {list(m_slot_arg[s_i])}")
        if b is not None:
            rebound = b["ids"] != a["ids"]
            if s_i < 5 and rebound != m_rebound[s_i]:
                bad.append(f"{prog}: live slot {s_i} rebound: observed {rebound}, model {m_rebound[s_i]}")
            if [_fp(o) for o in b["objs"]] != b["fp"] and not m_written[s_i]:
                bad.append(f"{prog}: the object live slot {s_i} referred to was modified in place, the model program does not write it")
    return bad[:4]


def buffer_sample_facts(prog, batch, after):
    """the returned batch components vs the live slots after the call (model: all fresh)"""
    m = MODEL_FACTS.get(prog)
    if m is None:
        return []
    m_ret_slot = m[0]
    comps = [getattr(batch, f) for f in batch._fields]
    bad = []
    if len(comps) != len(m_ret_slot):
        return [f"{prog}: {len(comps)} returned components, model program returns {len(m_ret_slot)}"]
    for j, c in enumerate(comps):
        arrs = [a for _, a in _leaves(c)]
        for s_i, a in enumerate(after):
            if a is None or s_i >= len(m_ret_slot[j]):
                continue
            o = any(_obj_related(x, y) for x in arrs for y in a["objs"])
            if o != m_ret_slot[j][s_i]:
                bad.append(f"{prog}: returned component {j} shares memory with live slot {s_i}: observed {o}, model {m_ret_slot[j][s_i]}")
    return bad[:4]

def _np_view(o):
    """numpy view of a tensor (shares its memory), arrays unchanged"""
    import numpy as np
    import torch as th

    if isinstance(o, th.Tensor):
        return o.detach().numpy()
    return o if isinstance(o, np.ndarray) else None


def _fp_any(o):
    a = _np_view(o)
    if a is not None:
        return (a.shape, str(a.dtype), a.tobytes())
    if isinstance(o, dict):
        return tuple((k, id(v), _fp_any(v)) for k, v in o.items())
    return repr(o)


def call_facts_compare(prog, slots_before, slots_after, arg_groups, rets, args_fp_before=None, args_objs=None, strict_rebound=False):
    """compare one library call with `call_facts prog` of coq/Model/Alias.v.
    slots_*: per live slot None (not observed) or list of objects; arg_groups[i] = objects of argument i; rets = returned objects.
    Sharing / identity facts must be EQUAL; `rebound`, `written`, `arg written` observed must be ALLOWED by the program
    (strict_rebound: a slot the program rebinds must really have been rebound)."""
    m = MODEL_FACTS.get(prog)
    if m is None:
        return []
    m_ret_slot, m_ret_arg, _, m_rebound, _, m_slot_arg, m_written, _, m_arg_written = m
    bad = []

    def related(x, y):
        ax, ay = _np_view(x), _np_view(y)
        if x is y:
            return True
        import numpy as np
        return bool(ax is not None and ay is not None and ax.size and ay.size and np.shares_memory(ax, ay))

    ret_objs = [[a for _, a in _leaves(r)] or [r] for r in rets]
    if len(rets) != len(m_ret_slot):
        return [f"{prog}: {len(rets)} returned components, model program returns {len(m_ret_slot)}"]
    for j, objs in enumerate(ret_objs):
        for s_i, a in enumerate(slots_after):
            if a is None or s_i >= len(m_ret_slot[j]):
                continue
            o = any(related(x, y) for x in objs for y in a)
            if o != m_ret_slot[j][s_i]:
                bad.append(f"{prog}: returned component {j} shares memory with live slot {s_i}: observed {o}, model {m_ret_slot[j][s_i]}")
        o_arg = [any(related(x, y) for x in objs for y in grp) for grp in arg_groups]
        if o_arg != list(m_ret_arg[j])[:len(o_arg)]:
            bad.append(f"{prog}: returned component {j} vs arguments: observed {o_arg}, model {list(m_ret_arg[j])}")
    for s_i, (b, a) in enumerate(zip(slots_before, slots_after)):
        if a is None or s_i >= len(m_slot_arg):
            continue
        o_arg = [any(related(o, x) for o in a for x in grp) for grp in arg_groups]
        if o_arg != list(m_slot_arg[s_i])[:len(o_arg)]:
            bad.append(f"{prog}: live slot {s_i} vs the caller's arguments after the call: observed {o_arg}, model {list(m_slot_arg[s_i])}")
        if b is not None:
            rebound = tuple(id(o) for o in b["objs"]) != tuple(id(o) for o in a)
            if rebound and not m_rebound[s_i]:
                bad.append(f"{prog}: live slot {s_i} was rebound to another object, the model program keeps it")
            if strict_rebound and m_rebound[s_i] and not rebound:
                bad.append(f"{prog}: live slot {s_i} still refers to the same object, the model program rebinds it to a new one")
            if [_fp_any(o) for o in b["objs"]] != b["fp"] and not m_written[s_i]:
                bad.append(f"{prog}: the object live slot {s_i} referred to was modified in place, the model program does not write it")
    if args_fp_before is not None:
        for i, (fp0, obj) in enumerate(zip(args_fp_before, args_objs)):
            if _fp_any(obj) != fp0 and not (i < len(m_arg_written) and m_arg_written[i]):
                bad.append(f"{prog}: argument {i} was modified in place (contents or entries rebound), the model program does not write it")
    return bad[:4]


def _snap_slots(slot_objs):
    return [None if objs is None else {"objs": list(objs), "fp": [_fp_any(o) for o in objs]} for objs in slot_objs]


def _roll_slot_objects(buf):
    def arrs(x):
        return list(x.values()) if isinstance(x, dict) else [x]
    return [arrs(buf.observations), [buf.actions], [buf.rewards], [buf.episode_starts], [buf.values], [buf.log_probs], [buf.advantages], [buf.returns]]


# ------------------------------------------------------------------ buffers

def gen_buffer(rng):
    cls = rng.choice(["ReplayBuffer", "DictReplayBuffer", "DictReplayBuffer", "RolloutBuffer", "DictRolloutBuffer", "HerReplayBuffer"])
    memopt = cls == "ReplayBuffer" and rng.random() < 0.3
    # (a full memory-optimised buffer of capacity 1 has no sampleable slot: sample() raises - C03's business, not aliasing)
    return {"what": "buffer", "cls": cls, "n_envs": rng.randint(1, 3), "size": rng.randint(2 if memopt else 1, 6), "memopt": memopt,
            "disc_obs": rng.random() < 0.3,
            "n_ops": rng.randint(3, 12), "seed": rng.randint(0, 10**6)}


def run_buffer(case):
    if case["cls"] == "HerReplayBuffer":
        return run_her(case)
    import random

    import numpy as np
    import torch as th
    from gymnasium import spaces

    from stable_baselines3.common import buffers as B

    n = case["n_envs"]
    is_dict = case["cls"].startswith("Dict")
    is_roll = "Rollout" in case["cls"]
    if is_dict:
        osp = spaces.Dict({"d": spaces.Discrete(7), "v": spaces.Box(-10, 10, (2,), dtype=np.float32)})
    else:
        osp = spaces.Box(-10, 10, (2,), dtype=np.float32)
    asp = spaces.Box(-1, 1, (2,), dtype=np.float32)
    disc_obs = (not is_dict) and case.get("disc_obs", False)
    if disc_obs:
        osp = spaces.Discrete(19)

    def mk():
        cls = getattr(B, case["cls"])
        if is_roll:
            return cls(case["size"], osp, asp, device="cpu", n_envs=n)
        kw = dict(optimize_memory_usage=True, handle_timeout_termination=False) if case["memopt"] else {}
        return cls(case["size"] * n, osp, asp, device="cpu", n_envs=n, **kw)

    prim, twin = mk(), mk()
    hp, ht = Holder(), Holder()
    problems, sharing, facts_bad = [], [], []
    r = random.Random(case["seed"])
    n_added = 0
    for k in range(case["n_ops"]):
        do_add = n_added == 0 or r.random() < 0.6 or (is_roll and not prim.full)
        if is_roll and prim.full and do_add:
            do_add = False
        vals = [r.randint(-9, 9) for _ in range(8)]
        outs = []
        for buf, holder, is_twin in ((prim, hp, False), (twin, ht, True)):
            def mkobs(base):
                if is_dict:
                    return {"d": np.array([(base + i) % 7 for i in range(n)]), "v": np.full((n, 2), base, dtype=np.float32)}
                if disc_obs:
                    return np.array([(base + 9 + i) % 19 for i in range(n)])
                return np.full((n, 2), base, dtype=np.float32)
            if do_add:
                obs, nxt = mkobs(vals[0]), mkobs(vals[1])
                act = np.full((n, 2), vals[2] / 10.0, dtype=np.float32)
                rew = np.full((n,), vals[3], dtype=np.float32)
                done = np.array([(vals[4] + i) % 3 == 0 for i in range(n)])
                args = {"obs": obs, "next_obs": nxt, "action": act, "reward": rew, "done": done}
                ids = {k2: id(v) for k2, v in obs.items()} if is_dict else {}
                snap = copy.deepcopy(args)
                if is_roll:
                    es, vt, lt = done.astype(np.float32), th.tensor([float(vals[5])] * n), th.tensor([float(vals[6])] * n)
                    before = _snap_slots(_roll_slot_objects(buf))
                    buf.add(obs, act, rew, es, vt, lt)
                    if not is_twin and not facts_bad:
                        groups = [[a for _, a in _leaves(obs)], [act], [rew], [es], [vt], [lt]]
                        facts_bad += call_facts_compare("rollout_add", before, _roll_slot_objects(buf), groups, [])
                else:
                    before = _buf_snap(buf)
                    buf.add(obs, nxt, act, rew, done, [{} for _ in range(n)])
                    if not is_twin and not facts_bad:
                        groups = [[a for _, a in _leaves(obs)], [a for _, a in _leaves(nxt)], [act], [rew], [done]]
                        facts_bad += buffer_add_facts("buffer_add", before, _buf_snap(buf), groups)
                if not _same(args, snap) or (is_dict and ids != {k2: id(v) for k2, v in obs.items()}):
                    problems.append(("oracle-argument-modified", f"op {k}: {case['cls']}.add modified the arrays/dict it was handed"))
                holder.keep(f"op{k}.add", args)
                res = {}
            else:
                np.random.seed(1000 + k)
                if is_roll:
                    if not buf.generator_ready:
                        lv, dn = th.zeros(n), np.zeros(n, dtype=bool)
                        before = _snap_slots(_roll_slot_objects(buf))
                        buf.compute_returns_and_advantage(lv, dn)
                        if not is_twin and not facts_bad:
                            facts_bad += call_facts_compare("rollout_compute", before, _roll_slot_objects(buf), [[lv], [dn]], [])
                    before = _snap_slots(_roll_slot_objects(buf))
                    res = {"batches": [b for b in buf.get(3)]}
                    if not is_twin and not facts_bad:
                        after = _roll_slot_objects(buf)
                        for bt in res["batches"]:
                            facts_bad += call_facts_compare("rollout_get", before, after, [], [getattr(bt, f) for f in bt._fields])
                            if facts_bad:
                                break
                else:
                    res = {"batch": buf.sample(4)}
                    if not is_twin and not facts_bad:
                        facts_bad += buffer_sample_facts("buffer_sample", res["batch"], _buf_snap(buf))
                holder.keep(f"op{k}.sample", res)
            outs.append(copy.deepcopy(res))
            bad = holder.changed()
            if bad and not is_twin:
                problems.append(("oracle-earlier-result-changed-by-later-call", f"op {k} changed objects returned/passed earlier: {bad[:4]}"))
            if not is_twin:
                internals = [(a, case["cls"] + "." + nm, arr) for (a, nm, arr) in _internal_arrays(buf)]
                sharing += [(f"op{k}", lab, attr, nm) for (lab, attr, nm) in _shares(holder.items, internals)]
            else:
                holder.scribble()
                holder.items = [(lab, a, a.copy()) for (lab, a, _) in holder.items]
        if do_add:
            n_added += 1
        if not _same(outs[0], outs[1]):
            problems.append(("oracle-caller-write-changed-later-result", f"op {k}: twin run (caller overwrote everything it held) sampled different values"))
        if is_roll and prim.full and not do_add and r.random() < 0.5:
            before = _snap_slots(_roll_slot_objects(prim))
            prim.reset()
            if not facts_bad:
                facts_bad += call_facts_compare("rollout_reset", before, _roll_slot_objects(prim), [], [], strict_rebound=True)
            twin.reset()
        if problems:
            break
    live = sorted({(attr, nm) for (_, _, attr, nm) in sharing})
    return problems, live, case["n_ops"], facts_bad



class _GoalEnv:
    """minimal goal env whose reward depends on the info dict (so that retained info dicts matter)"""

    def __new__(cls):
        import gymnasium as gym
        import numpy as np
        from gymnasium import spaces

        class G(gym.Env):
            observation_space = spaces.Dict({k: spaces.Box(-10, 10, (1,), dtype=np.float32) for k in ("observation", "achieved_goal", "desired_goal")})
            action_space = spaces.Box(-1, 1, (1,), dtype=np.float32)

            def reset(self, *, seed=None, options=None):
                return {k: np.zeros(1, dtype=np.float32) for k in self.observation_space.spaces}, {}

            def step(self, a):
                return {k: np.zeros(1, dtype=np.float32) for k in self.observation_space.spaces}, 0.0, False, False, {}

            def compute_reward(self, ag, dg, info):
                # the reward reads the top-level value AND values nested inside mutable containers of the info dict
                # (a shallow per-dict copy keeps those containers shared with the caller)
                def one(i):
                    return (float(i.get("bonus", 0.0)) + 3.0 * float(i.get("nested", {}).get("b", 0.0))
                            + 5.0 * float(np.asarray(i.get("arr", [0.0])).reshape(-1)[0]) + 7.0 * float((i.get("lst") or [0.0])[0]))
                return np.array([one(i) for i in info], dtype=np.float32) + np.asarray(ag)[..., 0] * 0.0

        return G()


def run_her(case):
    import random

    import numpy as np

    from stable_baselines3.common.vec_env import DummyVecEnv
    from stable_baselines3.her.her_replay_buffer import HerReplayBuffer

    n = case["n_envs"]
    r = random.Random(case["seed"])

    def mk():
        env = DummyVecEnv([_GoalEnv for _ in range(n)])
        return HerReplayBuffer(case["size"] * 3 * n, env.observation_space, env.action_space, env, device="cpu", n_envs=n,
                               copy_info_dict=True, n_sampled_goal=4)

    prim, twin = mk(), mk()
    hp, ht = Holder(), Holder()
    problems, sharing, facts_bad = [], [], []
    t_in_ep = 0
    for k in range(case["n_ops"] + 4):
        do_add = k < 4 or r.random() < 0.6
        vals = [r.randint(-9, 9) for _ in range(4)]
        outs = []
        end = t_in_ep >= 2 and (vals[3] % 2 == 0)
        for buf, holder, is_twin in ((prim, hp, False), (twin, ht, True)):
            if do_add:
                def mkobs(b):
                    return {kk: np.full((n, 1), b, dtype=np.float32) for kk in ("observation", "achieved_goal", "desired_goal")}
                obs, nxt = mkobs(vals[0]), mkobs(vals[1])
                infos = [{"bonus": float(vals[2] + i), "nested": {"b": float(vals[0] - i)}, "arr": np.array([float(vals[1] + i)]),
                          "lst": [float(vals[3] + 2 * i)]} for i in range(n)]
                args = {"obs": obs, "next_obs": nxt, "action": np.full((n, 1), 0.5, dtype=np.float32), "reward": np.zeros(n, dtype=np.float32),
                        "done": np.array([end] * n)}
                snap, isnap = copy.deepcopy(args), copy.deepcopy(infos)
                cell = buf.pos
                before = _buf_snap(buf, cell)
                buf.add(obs, nxt, args["action"], args["reward"], args["done"], infos)
                if not is_twin and not facts_bad:
                    groups = [[a for _, a in _leaves(obs)], [a for _, a in _leaves(nxt)], [args["action"]], [args["reward"]], [args["done"]],
                              list(infos), _mutable_values(infos)]
                    facts_bad += buffer_add_facts("her_add", before, _buf_snap(buf, cell), groups)
                if not _same(args, snap) or not _same(infos, isnap) or repr(infos) != repr(isnap):
                    problems.append(("oracle-argument-modified", f"op {k}: HerReplayBuffer.add modified the arrays / info dicts it was handed"))
                holder.keep(f"op{k}.add", args)
                if is_twin:
                    for inf in infos:  # the caller changes the info dicts it passed in, at every depth, in place
                        inf["bonus"] = float(SENTINEL)
                        inf["nested"]["b"] = float(SENTINEL)
                        inf["arr"][...] = float(SENTINEL)
                        inf["lst"][0] = float(SENTINEL)
                res = {}
            else:
                np.random.seed(2000 + k)
                try:
                    res = {"batch": buf.sample(6)}
                    if not is_twin and not facts_bad:
                        facts_bad += buffer_sample_facts("her_sample", res["batch"], _buf_snap(buf))
                except (ValueError, RuntimeError):  # nothing sampleable yet (no finished episode)
                    res = {}
                holder.keep(f"op{k}.sample", res)
            outs.append(copy.deepcopy(res))
            bad = holder.changed()
            if bad and not is_twin:
                problems.append(("oracle-earlier-result-changed-by-later-call", f"op {k} changed objects returned/passed earlier: {bad[:4]}"))
            if not is_twin:
                internals = [(a, "HerReplayBuffer." + nm, arr) for (a, nm, arr) in _internal_arrays(buf) if a not in ("env",)]
                sharing += [(f"op{k}", lab, attr, nm) for (lab, attr, nm) in _shares(holder.items, internals)]
            else:
                holder.scribble()
                holder.items = [(lab, a, a.copy()) for (lab, a, _) in holder.items]
        if do_add:
            t_in_ep = 0 if end else t_in_ep + 1
        if not _same(outs[0], outs[1]):
            problems.append(("oracle-caller-write-changed-later-result", f"op {k}: twin run (caller overwrote the arrays and info dicts it had passed) sampled different values"))
        if problems:
            break
    live = sorted({(attr, nm) for (_, _, attr, nm) in sharing})
    return problems, live, case["n_ops"] + 4, facts_bad


# ------------------------------------------------------------------ predict

def gen_predict(rng):
    return {"what": "predict", "obs": rng.choice(["box", "dict", "discrete", "image"]), "batch": rng.choice([None, 1, 3]), "seed": rng.randint(0, 10**6)}


def run_predict(case):
    import numpy as np
    import torch as th
    from gymnasium import spaces

    from stable_baselines3.common.policies import ActorCriticCnnPolicy, ActorCriticPolicy, MultiInputActorCriticPolicy

    th.manual_seed(case["seed"])
    asp = spaces.Box(-1, 1, (2,), dtype=np.float32)
    kind = case["obs"]
    if kind == "box":
        osp, cls = spaces.Box(-5, 5, (3,), dtype=np.float32), ActorCriticPolicy
    elif kind == "discrete":
        osp, cls = spaces.Discrete(5), ActorCriticPolicy
    elif kind == "image":
        osp, cls = spaces.Box(0, 255, (1, 36, 36), dtype=np.uint8), ActorCriticCnnPolicy
    else:
        osp, cls = spaces.Dict({"d": spaces.Discrete(4), "v": spaces.Box(-5, 5, (2,), dtype=np.float32)}), MultiInputActorCriticPolicy
    pol = cls(osp, asp, lambda _: 1e-3, net_arch=[8])
    rs = np.random.RandomState(case["seed"])

    def sample_obs():
        b = case["batch"]
        def one(sp):
            if isinstance(sp, spaces.Discrete):
                return rs.randint(0, sp.n, size=() if b is None else (b,))
            shape = sp.shape if b is None else (b, *sp.shape)
            if sp.dtype == np.uint8:
                return rs.randint(0, 255, size=shape).astype(np.uint8)
            return rs.uniform(-4, 4, size=shape).astype(np.float32)
        if isinstance(osp, spaces.Dict):
            return {k: one(s) for k, s in osp.spaces.items()}
        return one(osp)

    problems, hold = [], Holder()
    params0 = [p.detach().clone() for p in pol.parameters()]
    obs = sample_obs()
    snap = copy.deepcopy(obs)
    ids = {k: id(v) for k, v in obs.items()} if isinstance(obs, dict) else {}
    pslots = [[p_.detach().numpy() for p_ in pol.parameters()]]
    before = _snap_slots(pslots)
    fp_obs = _fp_any(obs)
    a1, _ = pol.predict(obs, deterministic=True)
    facts_bad = call_facts_compare("predict_dict_prog" if isinstance(obs, dict) else "predict_prog", before, pslots,
                                   [[a for _, a in _leaves(obs)] or [obs]], [a1], args_fp_before=[fp_obs], args_objs=[obs])
    if not _same(obs, snap) or (isinstance(obs, dict) and ids != {k: id(v) for k, v in obs.items()}):
        problems.append(("oracle-argument-modified", "predict() modified the observation it was handed"))
    hold.keep("a1", a1)
    a1_snap = np.array(a1, copy=True)
    np.asarray(a1)[...] = SENTINEL if np.asarray(a1).flags.writeable else np.asarray(a1)
    a2, _ = pol.predict(snap, deterministic=True)
    if not np.array_equal(np.asarray(a2), a1_snap):
        problems.append(("oracle-caller-write-changed-later-result", "overwriting the returned action changed the next predict() on the same observation"))
    internals = [(n, "policy." + n, p.detach().numpy()) for n, p in pol.named_parameters()]
    live = sorted({(attr, nm) for (lab, attr, nm) in _shares([("a2", np.asarray(a2), None)] + [(p, a, None) for p, a in _leaves(obs, "obs")], internals)})
    if any(not th.equal(p, q) for p, q in zip(pol.parameters(), params0)):
        problems.append(("oracle-parameters-modified", "predict() changed the policy parameters"))
    return problems, live, 2, facts_bad


MODEL_FACTS = {}  # filled from Coq by main() before the worker pool starts (inherited by fork)

RUNNERS = {"vecenv": run_vecenv, "buffer": run_buffer, "predict": run_predict}
GENS = [("vecenv", gen_stack, 0.55), ("buffer", gen_buffer, 0.33), ("predict", gen_predict, 0.12)]


def model_sharing():
    """ask the Coq model: every component program disciplined? any returned object sharing a live slot / an argument?"""
    exprs = ["all_disciplined",
             "map (fun c => let '(_, (na, ns, p)) := c in (existsb (existsb (fun b => b)) (ret_shares_slot F0 p na ns 2), existsb (existsb (fun b => b)) (ret_shares_arg F0 p na ns 2))) components",
             "(disciplined 1 1 framestack_step_pinned, disciplined 0 1 framestack_reset_pinned, disciplined 5 5 dictbuffer_add_pinned)"]
    vals = common.coq_eval_many("C19_model", HEADER, exprs, shard=10, procs=1)
    return {"all_disciplined": vals[0], "any_ret_shares_live_slot": any(a for a, _ in vals[1]), "any_ret_is_arg": any(b for _, b in vals[1]),
            "pinned_programs_disciplined": list(vals[2])}


def model_call_facts():
    """per-program facts of coq/Model/Alias.v (call_facts), one Coq evaluation"""
    names, exprs = [], []
    for comp, (rp, sp, nlive, ndead) in COMPONENT_PROGRAMS.items():
        for prog, nargs in ((rp, 0), (sp, 1)):
            names.append(prog)
            exprs.append(f"let f := call_facts {prog} {nargs} {nlive} {ndead} in (f_ret_slot f, f_ret_arg f, f_ret_inner f, f_slot_rebound f, "
                         f"f_slot_inner f, f_slot_arg f, f_slot_written f, f_inner_written f, f_arg_written f)")
    for prog, (nargs, nlive, ndead) in BUFFER_PROGRAMS.items():
        names.append(prog)
        exprs.append(f"let f := call_facts {prog} {nargs} {nlive} {ndead} in (f_ret_slot f, f_ret_arg f, f_ret_inner f, f_slot_rebound f, "
                     f"f_slot_inner f, f_slot_arg f, f_slot_written f, f_inner_written f, f_arg_written f)")
    vals = common.coq_eval_many("C19_facts", HEADER, exprs, shard=40, procs=1)
    return {n: v for n, v in zip(names, vals)}


def _run_case(case):
    import torch as th

    th.set_num_threads(1)
    try:
        out = RUNNERS[case["what"]](case)
        problems, live, nops = out[:3]
        return {"problems": problems, "live": live, "nops": nops, "facts_bad": out[3] if len(out) > 3 else []}
    except Exception as e:  # a crash of the implementation on a legal call sequence is reported, not hidden
        import traceback

        return {"problems": [("harness-exception", f"{type(e).__name__}: {e}\n{traceback.format_exc()[-800:]}")], "live": [], "nops": 0, "facts_bad": []}


def main():
    from concurrent.futures import ProcessPoolExecutor

    chk = Check("C19")
    chk.build_props()
    ms = model_sharing()
    chk.notes["model"] = ms
    MODEL_FACTS.update(model_call_facts())
    chk.notes["model_programs_compared"] = sorted(MODEL_FACTS)
    if not ms["all_disciplined"]:
        chk.violation("model-program-undisciplined", "a component program of Model/Alias.v no longer passes the discipline checker", {"model": ms}, found_input=False)
    n_cases = 260 if chk.tier == "quick" else 3000
    cases = []
    corpus = common.os.path.join(common.VERIF, "corpus", "C19.jsonl")
    if common.os.path.exists(corpus):
        cases += [json.loads(l) for l in open(corpus) if l.strip()]
    n_corpus = len(cases)
    for _ in range(n_cases):
        u = chk.rng.random()
        acc = 0.0
        for name, g, w in GENS:
            acc += w
            if u <= acc:
                cases.append(g(chk.rng))
                break
        else:
            cases.append(gen_stack(chk.rng))
    with ProcessPoolExecutor(max_workers=8) as ex:
        results = list(ex.map(_run_case, cases, chunksize=4))
    hist, distinct, ops_total = {}, set(), 0

    def case_key(c):
        return c["what"] + ":" + (c.get("cls") or c.get("obs") or "+".join(c.get("wrappers", [])))
    for c, res in zip(cases, results):
        key = case_key(c)
        hist[key] = hist.get(key, 0) + 1
        ops_total += res["nops"]
        nontrivial = (c["what"] == "vecenv" and c["ops"].count("reset") >= 2 and "step" in c["ops"]) or (c["what"] == "buffer" and c["n_ops"] >= 5) or c["what"] == "predict"
        if nontrivial:
            distinct.add(json.dumps(c, sort_keys=True))
    # concrete failing histories first (shortest first), then - only when fewer than three were found - the correspondences that
    # no longer check
    concrete = sorted([(c, res) for c, res in zip(cases, results) if res["problems"]],
                      key=lambda cr: len(cr[0].get("ops", [])) or cr[0].get("n_ops", 0))
    for c, res in concrete[:3] + [(c, res) for c, res in zip(cases, results) if not res["problems"]]:
        key = case_key(c)
        if res["problems"]:
            sig, msg = res["problems"][0]
            chk.violation(sig.replace("oracle-", "") + "-" + key.replace(":", "-"), msg, {"case": c, "problems": res["problems"], "live_sharing": res["live"]}, found_input=True)
        elif res.get("facts_bad"):
            chk.violation("component-program-" + key.replace(":", "-"),
                          "the implementation's aliasing behaviour differs from the component program of Model/Alias.v: " + "; ".join(res["facts_bad"][:3]),
                          {"case": c, "disagreements": res["facts_bad"], "correspondence": "per-call facts (identity / shares_memory / rebound / written in place) vs Model.Alias.call_facts"},
                          found_input=False)
        elif res["live"] and not ms["any_ret_shares_live_slot"]:
            chk.violation("alias-graph-" + key.replace(":", "-"),
                          f"objects held by the caller share memory with live internal state {res['live'][:3]} but the model says no returned/passed object is retained",
                          {"case": c, "live_sharing": res["live"], "correspondence": "np.shares_memory vs Model.Alias.ret_shares_slot"}, found_input=False)
        if len(chk.violations) >= 3:
            break
    chk.coverage["evaluations"] = len(cases)
    chk.coverage["traces_validated_against_impl"] = len(cases)
    chk.coverage["distinct_nontrivial"] = len(distinct)
    chk.coverage["rule"] = ("random call sequences over random type-correct VecEnv wrapper stacks (DummyVecEnv + up to 3 of VecFrameStack/VecNormalize/VecTransposeImage/VecExtractDictObs/VecMonitor/VecCheckNan; "
                            "box, image, Dict, Discrete observations; 1-3 envs), the five buffer classes (add/sample/get/reset past wrap-around), and predict on four observation kinds; "
                            "non-trivial = a VecEnv history with a step and at least two resets, a buffer history of >= 5 ops, or any predict case; distinct = distinct case description")
    chk.notes["input_distribution"] = hist
    chk.notes["library_calls_executed"] = ops_total
    chk.notes["corpus_cases"] = n_corpus
    chk.add_samples(cases[n_corpus:n_corpus + 3])
    chk.assumptions += ["a numpy view is treated as the same location as its base", "SubprocVecEnv is not driven here (its results cross a pipe and are always fresh); C02 ties it to DummyVecEnv",
                        "step_async/step_wait are driven as the atomic step()"]
    return chk.finish()


def replay(path):
    d = json.load(open(path))
    res = _run_case(d["replay"]["case"])
    print(json.dumps(res, indent=1, default=str))
    return 1 if res["problems"] or res["live"] else 0
