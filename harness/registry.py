"""What MANIFEST.json claims, per property: collected from the REGISTRY dict of every
harness/cXX.py (tools_manifest.py renders MANIFEST.json from it).  Modules must keep heavy
imports (torch, stable_baselines3) inside functions so that importing them here is cheap."""
import importlib
import os

STD_NOTE = ("Trusted: Coq 8.16.1 kernel (vm_compute used, no native_compute), the fragment translator translate/py2coq.py and its specs, "
            "the correspondence harness and Python/numpy/torch/gymnasium. Theorems are about the Gallina model; the model is tied to /repo on every run by "
            "regenerated fragments (interface lemmas) and by differential execution. ")

CHECKS = {}
_here = os.path.dirname(os.path.abspath(__file__))
# only properties listed in harness/ready.txt are claimed (the lead adds an id after reviewing and
# running its check on the unchanged tree)
_ready = set(open(os.path.join(_here, "ready.txt")).read().split())
for i in range(1, 21):
    pid = f"C{i:02d}"
    if pid in _ready and os.path.exists(os.path.join(_here, f"{pid.lower()}.py")):
        mod = importlib.import_module(f"harness.{pid.lower()}")
        reg = getattr(mod, "REGISTRY", None)
        if reg and reg.get("claimed", True):
            CHECKS[pid] = reg

_PENDING = "check not built yet (planned per DESIGN.md section 5); not claimed until its theorems and correspondence run"
NOT_APPLICABLE = {f"C{i:02d}": _PENDING for i in range(1, 21) if f"C{i:02d}" not in CHECKS}

NOTES = ("Technique family: machine-checked proof in Coq 8.16.1. Each check (1) regenerates Gallina fragments from /repo's working tree and rebuilds the property's theorems "
         "(Props/Cxx.v, Print Assumptions after each), (2) runs the real implementation and the hand-written Gallina model on the same generated inputs and compares, "
         "(3) runs a statement-level oracle. See DESIGN.md.")
