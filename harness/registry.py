"""What MANIFEST.json claims, per property (tools_manifest.py renders it)."""

_STD_NOTE = ("Trusted: Coq 8.16.1 kernel (vm_compute used, no native_compute), the fragment translator translate/py2coq.py and its specs, "
             "the correspondence harness and Python/numpy/torch/gymnasium. Theorems are about the Gallina model; the model is tied to /repo on every run by "
             "regenerated fragments (interface lemmas) and by differential execution. ")

CHECKS = {
    "C05": dict(
        text=("Proof (unbounded): the backward GAE loop assembled from the statements regenerated from buffers.py equals the discounted-sum definition for every horizon, "
              "cuts at episode boundaries, bootstraps from last_values, returns = advantage + value, environments are independent, and the minibatches of any pass over any "
              "permutation partition the rollout for every batch size; flatten index law. Tie: fragment translator + correspondence on RolloutBuffer/DictRolloutBuffer."),
        note=_STD_NOTE + "Not verified: float32 rounding (exact dyadic stream + rel 1e-4 stream), numpy broadcasting/reshape (correspondence only). All C05 theorems are closed under the global context.",
        technique="machine-checked proof in Coq (induction over the step list / index arithmetic) + regenerated-fragment interface lemmas + differential correspondence",
    ),
}

_PENDING = "check not built yet in this session (planned per DESIGN.md section 5); not claimed until its theorems and correspondence run"
NOT_APPLICABLE = {f"C{i:02d}": _PENDING for i in range(1, 21) if f"C{i:02d}" not in CHECKS}

NOTES = ("Technique family: machine-checked proof in Coq 8.16.1. Each check (1) regenerates Gallina fragments from /repo's working tree and rebuilds the property's theorems "
         "(Props/Cxx.v, Print Assumptions after each), (2) runs the real implementation and the hand-written Gallina model on the same generated inputs and compares, "
         "(3) runs a statement-level oracle. See DESIGN.md.")
