"""C20 - Logger outputs are complete and re-readable.

Proof side:   Props/C20.v (record / record_mean / dump state machine, record_mean = arithmetic mean with the update
              regenerated from logger.py, exclusion filters from regenerated tests, character-level CSV writer
              (header rewrite, padding of physical lines) and reader: round trip for all histories whose strings
              contain no line break and any column-order oracle; Refuted/C20_*.v: findings F5 and F6).
Tie:          real Logger with csv/json/log/stdout writers on random record/record_mean/dump histories:
              (a) pending maps just before every dump vs Model.Logger (values at 1e-9, exclusion tuples exact);
              (b) progress.csv bytes vs Model.Csv.csv_run fed by the Logger model (byte-exact, decided inside Coq);
              (c) which keys reach which writer vs the model (csv row cells, json objects, log / stdout tables);
              (d) statement-level oracle in plain Python: read_csv / read_json rows = recorded values per dump,
                  every non-excluded key present in every configured output, record_mean = mean, dump clears.
Known findings reproduced from fixed corpus inputs and classified by precise predicates in the generic stream:
  csv-multiline-value-corrupted-by-header-rewrite (F5), exclude-stdout-also-hides-from-log-file (F6).
Build round 5: Model/HumanFormat.v = the whole HumanOutputFormat.write (sort, tags, truncation, refusal, layout) + a reader; harness/c20_human.py runs the
              byte-exact correspondence of the printed table (kind "hfmt").
"""
from __future__ import annotations

import io
import json
import math
import os
import shutil
import sys
import tempfile
import warnings
from fractions import Fraction

from harness import common
from harness.common import Check, coq_list
from harness import c20_human as HF

REGISTRY = dict(
    text=("Proof (unbounded): record stores value and exclusion tuple, record_mean (update regenerated from logger.py) yields the arithmetic mean of any number of values, dump hands "
          "every pending value to every writer it is not excluded from (regenerated tests) and clears the maps; character-level model of CSVOutputFormat.write (header rewrite, "
          "padding of every physical line) and an RFC-4180 reader: for every history of dumps - keys appearing, disappearing, re-appearing, any order oracle for new columns, strings "
          "with quotes/commas/spaces but no line break - the file reads back as the table of what was recorded; the reader inverts the printer for all tables. Refuted (vm_compute "
          "witnesses, reproduced on the implementation): a value with a line break is corrupted when a later dump adds a column (F5, csv-multiline-value-corrupted-by-header-rewrite); "
          "exclude='stdout' also hides from 'log' (F6, exclude-stdout-also-hides-from-log-file); a dump without any csv-visible value leaves a blank line that read_csv drops or the next "
          "header rewrite overwrites / mis-pads (F13, csv-dump-without-values-misaligns-rows). "
          "Tie: fragment translator + byte-exact correspondence of progress.csv + per-writer key sets + read_csv/read_json oracle."),
    note=("Trusted: Coq 8.16.1 kernel (vm_compute, no native_compute), translate/py2coq.py + specs/logger.py, harness/c20.py, Python/numpy/pandas. "
          "Not verified: Python's str() of numbers (rendered text is an input of the CSV model), pandas' tokenizer and type inference (strings pandas would coerce - empty, NA-like, "
          "numeric-looking, booleans - and the comment character '#' are excluded from the generator), the JSON writer (oracle only), the value formatting of the human writer ('%-8.3g' / str(): "
          "an input of Model.HumanFormat; its max_length >= 3), tensorboard output, float rounding of record_mean "
          "(1e-9). A carriage return is modelled as a line break (universal newlines); CR LF pairs are not generated. All C20 theorems are closed under the global context."),
    technique="machine-checked proof in Coq (state machine, character-level printer/reader induction) + regenerated-fragment interface lemmas + byte-exact differential correspondence",
)

COV_TARGETS = {"stable_baselines3/common/logger.py": ["KVWriter", "SeqWriter", "HumanOutputFormat", "filter_excluded_keys", "JSONOutputFormat", "CSVOutputFormat",
                                                       "make_output_format", "Logger", "configure", "read_json", "read_csv"]}

HEADER = """From Coq Require Import List QArith ZArith Bool Ascii String.
From SB3V Require Import Model.Csv Model.Logger Model.HumanFormat.
Import ListNotations.
Definition T (s : string) : text := list_ascii_of_string s.
"""

F = Fraction
KEYS = ["k0", "k1", "k2", "rollout/a", "rollout/b", "train/loss", "time", "z9"]
ALPHABET = 'abcxyzABZ019 .-_/:;!?' + '"",,  '
NA_LIKE = {"", "nan", "na", "n/a", "null", "none", "<na>", "#n/a", "#na", "-nan", "1.#ind", "1.#qnan", "-1.#ind", "-1.#qnan", "inf", "-inf", "infinity", "true", "false"}
EXCLUDES = [None, None, None, None, "csv", "json", "stdout", "log", ["stdout", "log"], ["csv", "json"], "tensorboard", ["json", "log"], ["csv", "stdout"]]


# ---------------------------------------------------------------- Coq rendering

def coq_text(s: str) -> str:
    parts, cur = [], ""
    for ch in s:
        if ch in "\n\r":
            parts.append('(T "' + cur.replace('"', '""') + '"%string)')
            parts.append("[nl]" if ch == "\n" else "[cr]")
            cur = ""
        else:
            assert 32 <= ord(ch) < 127, repr(ch)
            cur += ch
    parts.append('(T "' + cur.replace('"', '""') + '"%string)')
    return "(" + " ++ ".join(parts) + ")"


def coq_Q(x) -> str:
    fr = F(x)
    n = fr.numerator
    return f"(Qmake ({'-' if n < 0 else ''}{hex(abs(n))})%Z {hex(fr.denominator)}%positive)"


def excl_tuple(e):
    """Logger.to_tuple"""
    if e is None:
        return [""]
    if isinstance(e, (list, tuple)):
        return list(e)
    return [e]


# ---------------------------------------------------------------- generators

def gen_string(rng, breaks):
    while True:
        n = rng.randint(1, 9)
        s = rng.choice("abcxyz") + "".join(rng.choice(ALPHABET) for _ in range(n - 1))
        if breaks and rng.random() < 0.7:
            pos = rng.randint(1, len(s))
            s = s[:pos] + rng.choice(["\n", "\n", "\r"]) + s[pos:]
            if "\r\n" in s or "\n\r" in s:
                continue
        if s.strip().lower() in NA_LIKE:
            continue
        try:
            float(s.strip())
            continue
        except ValueError:
            pass
        return s


def gen_value(rng, kind, breaks):
    if kind == "str" or (kind == "mixed" and rng.random() < 0.5):
        return {"t": "str", "v": gen_string(rng, breaks)}
    t = rng.choice(["int", "float", "float", "np_float32", "np_float64", "np_int64", "int", "float", "np_arr0", "np_arr1", "np_arr2"])
    if t in ("int", "np_int64"):
        return {"t": t, "v": rng.randint(-50, 5000)}
    return {"t": t, "v": rng.randint(-400, 400) / 16.0}


def blank_row_class(ops, formats):
    """precise predicate of the 'dump without any csv-visible value' class (rows then misalign): such a dump before
    the first csv column exists, or such a dump while the file ends up with a single column"""
    seen, pending, empties_before, empty_any = set(), {}, False, False
    for op in ops:
        if op[0] == "dump":
            vis = [k for k, e in pending.items() if "csv" not in excl_tuple(e)]
            if not vis:
                empty_any = True
                if not seen:
                    empties_before = True
            seen |= set(vis)
            pending = {}
        elif op[0] == "record" or (op[0] == "record_mean" and op[2] is not None):
            pending[op[1]] = op[3]
    return empties_before or (empty_any and len(seen) <= 1)


LEVELS = {"debug": 10, "info": 20, "warn": 30, "error": 40}
LONG = "abcdefghijklmnopqrstuvwxyz0123456789"   # 36 characters


def gen_human_case(rng, i):
    """log levels, the disabled logger and truncation / collision of long keys in the human formats"""
    pool = ["k0", "k1", LONG, LONG + "x", LONG[:33] + "Q" + "tail", LONG[:33] + "Z" + "tail", LONG[:35], "v" * 50]
    ops, tok = [], 0
    for _ in range(rng.randint(3, 14)):
        u = rng.random()
        if u < 0.2:
            ops.append(["level", rng.choice([10, 20, 30, 40, 50, 20])])
        elif u < 0.55:
            m = rng.choice(["debug", "info", "warn", "error", "log"])
            ops.append(["log", m, rng.choice([10, 20, 30, 40]) if m == "log" else LEVELS[m], f"msg{tok}x"] + ([f"arg{tok}y"] if rng.random() < 0.3 else []))
            tok += 1
        elif u < 0.85:
            ops.append(["record", rng.choice(pool if rng.random() < 0.8 else pool[:2]), rng.randint(0, 99)])
        else:
            ops.append(["dump"])
    ops.append(["dump"])
    return {"kind": "human", "formats": ["stdout", "log"], "ops": ops, "id": i}


def gen_case(rng, i):
    if i % 10 == 7:
        return gen_human_case(rng, i)
    breaks = i % 5 == 4  # separate sub-stream with line breaks in string values
    while True:
        pool = rng.sample(KEYS, rng.randint(1, 8))
        kinds = {k: rng.choice(["num", "num", "str", "mixed"]) for k in pool}
        formats = ["csv", "json"] if breaks else rng.choice([["csv", "json", "log", "stdout"], ["csv", "json", "log", "stdout"], ["csv", "log"], ["json", "csv"], ["stdout", "csv", "json"]])
        ops = []
        for _ in range(rng.randint(1, 12)):
            for k in rng.sample(pool, rng.randint(0, min(6, len(pool)))):
                e = rng.choice(EXCLUDES)
                if kinds[k] == "num" and rng.random() < 0.5:
                    for _j in range(rng.choice([1, 1, 2, 3, 5])):
                        ops.append(["record_mean", k, None if rng.random() < 0.1 else rng.randint(-64, 64) / 4.0, e])
                else:
                    ops.append(["record", k, gen_value(rng, kinds[k], breaks), e])
            ops.append(["dump"])
        # interleave the operations of each dump (per-key order kept): record_mean calls of one key are no longer contiguous
        out, seg = [], []
        for op in ops:
            if op[0] == "dump":
                queues = {}
                for o in seg:
                    queues.setdefault(o[1], []).append(o)
                keys = list(queues)
                while keys:
                    kk = rng.choice(keys)
                    out.append(queues[kk].pop(0))
                    if not queues[kk]:
                        keys.remove(kk)
                out.append(op)
                seg = []
            else:
                seg.append(op)
        ops = out
        if not blank_row_class(ops, formats):
            return {"kind": "breaks" if breaks else "plain", "formats": formats, "ops": ops, "id": i}


# ---------------------------------------------------------------- implementation run

def py_value(spec):
    import numpy as np

    t, v = spec["t"], spec["v"]
    if t == "np_arr0":
        return np.array(float(v))
    if t == "np_arr1":
        return np.array([float(v)])
    if t == "np_arr2":
        return np.array([float(v), float(v) + 1.0])
    return {"str": str, "int": int, "float": float, "np_float32": np.float32, "np_float64": np.float64, "np_int64": np.int64}[t](v)


def parse_tables(text):
    """tables of HumanOutputFormat: list of {key: value string}"""
    tables, cur, inside = [], None, False
    for line in text.split("\n"):
        if line and set(line) == {"-"}:
            if inside:
                tables.append(cur)
                inside = False
            else:
                cur, inside, tag = {}, True, ""
            continue
        if inside and line.startswith("| ") and line.endswith(" |"):
            body = line[2:-2]
            k, _, v = body.partition(" | ")
            k_raw, v = k.rstrip(), v.strip()
            if k_raw.endswith("/") and v == "":
                tag = k_raw
            elif k_raw.startswith("   ") and tag:
                cur[tag + k_raw.strip()] = v
            else:
                cur[k_raw.strip()] = v
    return tables


def run_impl(case):
    from stable_baselines3.common import logger as L

    d = tempfile.mkdtemp(prefix="c20_")
    old_stdout = sys.stdout
    buf = io.StringIO()
    try:
        sys.stdout = buf
        with warnings.catch_warnings():
            warnings.simplefilter("ignore")
            lg = L.configure(d, list(case["formats"]))
            csv_fmt = next((f for f in lg.output_formats if isinstance(f, L.CSVOutputFormat)), None)
            dumps, known = [], 0
            for op in case["ops"]:
                if op[0] == "record":
                    lg.record(op[1], py_value(op[2]), exclude=tuple(op[3]) if isinstance(op[3], list) else op[3])
                elif op[0] == "record_mean":
                    lg.record_mean(op[1], op[2], exclude=tuple(op[3]) if isinstance(op[3], list) else op[3])
                else:
                    pend = []
                    for k, v in lg.name_to_value.items():
                        isnum = not isinstance(v, str)
                        first = (lambda x: float(__import__("numpy").ravel(x)[0]))   # arrays: the model carries the first element, the text is str(array)
                        pend.append({"k": k, "num": isnum, "v": (first(v) if isnum else v), "text": str(v), "excl": list(lg.name_to_excluded[k])})
                    lg.dump()
                    extra = list(csv_fmt.keys[known:]) if csv_fmt else []
                    known = len(csv_fmt.keys) if csv_fmt else 0
                    dumps.append({"pending": pend, "extra": extra,
                                  "cleared": len(lg.name_to_value) == 0 and len(lg.name_to_count) == 0 and len(lg.name_to_excluded) == 0})
            left = len(lg.name_to_value)
            lg.close()
        sys.stdout = old_stdout
        out = {"dumps": dumps, "left": left, "csv_keys": list(csv_fmt.keys) if csv_fmt else []}
        if "csv" in case["formats"]:
            out["csv_text"] = open(os.path.join(d, "progress.csv"), "rb").read().decode("latin-1")
            try:
                df = L.read_csv(os.path.join(d, "progress.csv"))
                out["csv_cols"] = [str(c) for c in df.columns]
                out["csv_rows"] = [[None if (isinstance(x, float) and math.isnan(x)) else (x if isinstance(x, str) else float(x)) for x in row] for row in df.values.tolist()]
            except Exception as e:  # pandas refuses the file
                out["csv_error"] = f"{type(e).__name__}: {e}"
        if "json" in case["formats"]:
            df = L.read_json(os.path.join(d, "progress.json"))
            cols = [str(c) for c in df.columns]
            out["json_rows"] = [{c: (x if isinstance(x, (str, list)) else float(x)) for c, x in zip(cols, row) if not (isinstance(x, float) and math.isnan(x)) and x is not None}
                                for row in df.values.tolist()]
            if len(out["json_rows"]) == 0 and len(df) > 0:
                out["json_rows"] = [{} for _ in range(len(df))]
        if "log" in case["formats"]:
            out["log_tables"] = parse_tables(open(os.path.join(d, "log.txt")).read())
        if "stdout" in case["formats"]:
            out["stdout_tables"] = parse_tables(buf.getvalue())
        return out
    finally:
        sys.stdout = old_stdout
        shutil.rmtree(d, ignore_errors=True)


# ---------------------------------------------------------------- log levels / truncation sub-stream

def run_human(case):
    from stable_baselines3.common import logger as L

    d = tempfile.mkdtemp(prefix="c20h_")
    old_stdout, buf = sys.stdout, io.StringIO()
    events = []
    try:
        sys.stdout = buf
        with warnings.catch_warnings():
            warnings.simplefilter("ignore")
            lg = L.configure(d, ["stdout", "log"])
            for op in case["ops"]:
                if op[0] == "level":
                    lg.set_level(op[1])
                elif op[0] == "log":
                    if op[1] == "log":
                        lg.log(*op[3:], level=op[2])
                    else:
                        getattr(lg, op[1])(*op[3:])
                elif op[0] == "record":
                    lg.record(op[1], op[2])
                else:
                    try:
                        lg.dump()
                        events.append({"raised": False, "left": len(lg.name_to_value)})
                    except ValueError as e:   # (the dump is abandoned before anything is cleared)
                        events.append({"raised": True, "msg": str(e)[:80]})
            lg.close()
        sys.stdout = old_stdout
        return {"human": True, "events": events, "log": open(os.path.join(d, "log.txt")).read(), "stdout": buf.getvalue()}
    finally:
        sys.stdout = old_stdout
        shutil.rmtree(d, ignore_errors=True)


def run_configure(case):
    """documented ways to configure: environment variables, defaults, refused formats"""
    from stable_baselines3.common import logger as L

    d = tempfile.mkdtemp(prefix="c20c_")
    old = {k: os.environ.get(k) for k in ("SB3_LOGDIR", "SB3_LOG_FORMAT")}
    res = {}
    try:
        os.environ["SB3_LOGDIR"], os.environ["SB3_LOG_FORMAT"] = d, "csv,log"
        lg = L.configure()
        res["folder and formats from SB3_LOGDIR / SB3_LOG_FORMAT"] = (lg.get_dir() == d and [type(f).__name__ for f in lg.output_formats] == ["CSVOutputFormat", "HumanOutputFormat"])
        lg.record("a", 1)
        lg.dump()
        lg.close()
        res["files written there"] = os.path.exists(os.path.join(d, "progress.csv")) and os.path.exists(os.path.join(d, "log.txt"))
        os.environ.pop("SB3_LOGDIR")
        os.environ.pop("SB3_LOG_FORMAT")
        old_out, sys.stdout = sys.stdout, io.StringIO()
        try:
            lg2 = L.configure()
            lg2.close()
        finally:
            sys.stdout = old_out
        res["default folder in the temp dir, default formats stdout,log,csv"] = (os.path.basename(lg2.get_dir()).startswith("SB3-") and
                                                                                [type(f).__name__ for f in lg2.output_formats] == ["HumanOutputFormat", "HumanOutputFormat", "CSVOutputFormat"])
        shutil.rmtree(lg2.get_dir(), ignore_errors=True)

        def raises(f):
            try:
                f()
                return False
            except ValueError:
                return True

        res["unknown format refused"] = raises(lambda: L.configure(d, ["xml"]))
        res["HumanOutputFormat refuses something that is neither a path nor a file"] = raises(lambda: L.HumanOutputFormat(123))
        res["empty format strings are skipped"] = len(L.configure(d, ["", "csv"]).output_formats) == 1
    finally:
        for k, v in old.items():
            if v is None:
                os.environ.pop(k, None)
            else:
                os.environ[k] = v
        shutil.rmtree(d, ignore_errors=True)
    return {"configure": res}


def human_plan(case):
    """what the Logger model is asked: (cfg, level) of every log call; (cfg, pending keys) of every dump (pending survives a disabled dump)"""
    cfg, pending, logs, dumps = 20, [], [], []
    for op in case["ops"]:
        if op[0] == "level":
            cfg = op[1]
        elif op[0] == "log":
            logs.append((cfg, op[2], " ".join(op[3:])))   # several arguments are written separated by one space
        elif op[0] == "record":
            if op[1] not in pending:
                pending.append(op[1])
        else:
            dumps.append((cfg, list(pending)))
            cut = [k if len(k) <= 36 else k[:33] + "..." for k in pending]
            if cfg != 50 and len(set(cut)) == len(cut):   # a disabled or refused dump clears nothing
                pending = []
    return logs, dumps


def exprs_human(case, impl):
    logs, dumps = human_plan(case)
    le = coq_list([f"(({cfg})%Z, ({lv})%Z)" for cfg, lv, _ in logs])
    de = coq_list([f"(({cfg})%Z, {coq_list([coq_text(k) for k in keys])})" for cfg, keys in dumps])
    return [f"(map (fun c => log_emits (fst c) (snd c)) {le}, "
            f"map (fun d => (Z.eqb (fst d) DISABLED_, map (fun k => S_ (truncate 36 k)) (snd d), existsb (fun a => existsb (collide 36 a) (snd d)) (snd d))) {de})"]


def compare_human(case, impl, mv):
    probs = []
    logs, dumps = human_plan(case)
    emits, dviews = mv[0]
    for fmt in ("log", "stdout"):
        text = impl[fmt]
        lines = text.split("\n")
        # ---- oracle: a message is written iff the configured level is not above the message's level
        for (cfg, lv, tok), em in zip(logs, emits):
            shown = tok in lines
            if shown != (cfg <= lv):
                probs.append(("oracle-log-level-filter", f"{fmt}: message at level {lv} with logger level {cfg}: written={shown}"))
            if shown != em:
                probs.append(("log-level-model", f"{fmt}: message {tok}: impl {shown} model {em}"))
        tables = parse_tables(text)
        for r, ((cfg, keys), (disabled, shown_keys, collides)) in enumerate(zip(dumps, dviews)):
            if r >= len(impl["events"]):
                break
            ev = impl["events"][r]
            if collides and not disabled and keys:
                if not ev["raised"]:
                    probs.append(("oracle-human-key-collision-not-refused", f"dump {r}: two keys are cut to the same text but no ValueError was raised"))
                    break
                continue
            if ev["raised"]:
                probs.append(("oracle-human-dump-raises", f"dump {r}: ValueError {ev['msg']} without a key collision"))
                break
            if disabled or not keys:
                continue
            table = tables.pop(0) if tables else {}
            # ---- oracle: every key is shown, cut to at most 36 characters (first 33 + "...") when longer
            want = [k if len(k) <= 36 else k[:33] + "..." for k in keys]
            if sorted(table) != sorted(want):
                probs.append(("oracle-human-truncation", f"{fmt} dump {r}: keys shown {sorted(table)} expected {sorted(want)}"))
            if sorted(table) != sorted(shown_keys):
                probs.append(("human-truncation-model", f"{fmt} dump {r}: keys shown {sorted(table)} model {sorted(shown_keys)}"))
            if any(len(k) > 36 for k in table):
                probs.append(("oracle-human-truncation", f"{fmt} dump {r}: a shown key is longer than max_length"))
        if tables:
            probs.append(("human-disabled-dump-model", f"{fmt}: {len(tables)} more tables than the model expects (a disabled logger must not write)"))
    return probs


# ---------------------------------------------------------------- model expression

def model_exprs(case, impl):
    ops = []
    for op in case["ops"]:
        if op[0] == "dump":
            ops.append("ODump")
            continue
        ex = coq_list([coq_text(x) for x in excl_tuple(op[3])])
        if op[0] == "record":
            v = op[2]
            val = f"(LStr {coq_text(v['v'])})" if v["t"] == "str" else f"(LNum {coq_Q(F(float(v['v'])))})"
            ops.append(f"ORecord {coq_text(op[1])} {val} {ex}")
        else:
            val = "None" if op[2] is None else f"(Some {coq_Q(F(op[2]))})"
            ops.append(f"ORecordMean {coq_text(op[1])} {val} {ex}")
    pend, rends, extras = [], [], []
    for d in impl["dumps"]:
        pend.append(coq_list([f"({coq_text(p['k'])}, {('(LNum ' + coq_Q(F(p['v'])) + ')') if p['num'] else ('(LStr ' + coq_text(p['v']) + ')')}, {coq_list([coq_text(x) for x in p['excl']])})"
                              for p in d["pending"]]))
        rends.append(coq_list([f"({coq_text(p['k'])}, {coq_text(p['text'])})" for p in d["pending"] if p["num"]]))
        extras.append(coq_list([coq_text(k) for k in d["extra"]]))
    csv_text = coq_text(impl.get("csv_text", ""))
    return [f"c20_check {coq_list(ops)} {coq_list(pend)} {coq_list(rends)} {coq_list(extras)} {csv_text}"]


# ---------------------------------------------------------------- oracle + comparison

def recorded_per_dump(case):
    """from the property text: per dump, key -> (value, exclusion tuple); record_mean = arithmetic mean of the values given
    since the last dump (a record() in between restarts from that value with the running count kept - not generated)"""
    out, pending, means = [], {}, {}
    for op in case["ops"]:
        if op[0] == "dump":
            out.append(pending)
            pending, means = {}, {}
        elif op[0] == "record":
            v = op[2]
            pending[op[1]] = (v["v"] if v["t"] == "str" else _recorded(v), excl_tuple(op[3]))
        elif op[2] is not None:
            means.setdefault(op[1], []).append(F(op[2]))
            pending[op[1]] = (float(sum(means[op[1]]) / len(means[op[1]])), excl_tuple(op[3]))
    return out, pending


def _recorded(spec):
    """a recorded numeric value: a float, or ("arr", values, ndim) for a numpy array"""
    if spec["t"] == "np_arr0":
        return ("arr", [float(spec["v"])], 0)
    if spec["t"] == "np_arr1":
        return ("arr", [float(spec["v"])], 1)
    if spec["t"] == "np_arr2":
        return ("arr", [float(spec["v"]), float(spec["v"]) + 1.0], 1)
    return float(py_value(spec))


def as_fmt(v, fmt):
    """what a numpy array value is expected to look like in one output: csv / human write str(array), json a float (size 1) or a list;
    "pending" = the first element (what the Logger model carries)"""
    if not (isinstance(v, tuple) and v and v[0] == "arr"):
        return v
    import numpy as np

    _, vals, nd = v
    if fmt == "pending" or nd == 0:
        return vals[0]
    if fmt == "json":
        return vals[0] if len(vals) == 1 else list(vals)
    return str(np.array(vals))


def cell_matches(want, got):
    if want is None:
        return got is None
    if got is None:
        return False
    if isinstance(want, list):
        return isinstance(got, list) and len(got) == len(want) and all(abs(float(a) - b) <= 1e-9 * max(1.0, abs(b)) for a, b in zip(got, want))
    if isinstance(want, str):
        return isinstance(got, str) and got == want
    try:
        return abs(float(got) - want) <= 1e-9 * max(1.0, abs(want))
    except (TypeError, ValueError):
        return False


def human_value_ok(want, shown):
    if isinstance(want, str):
        return shown == want.strip() or (len(want) > 36)
    try:
        g = float(shown)
    except ValueError:
        return False
    return abs(g - want) <= 5e-3 * max(abs(want), 1e-9) + 1e-12


def f5_predicate(case):
    """a csv-visible string value containing a line break, and a later dump that adds a csv column"""
    seen, hit_rows, pending = set(), [], {}
    pend_break = []
    r = 0
    for op in case["ops"]:
        if op[0] == "dump":
            vis = {k: v for k, (v, e) in pending.items() if "csv" not in e}
            new = set(vis) - seen
            if new and pend_break:
                hit_rows += pend_break
                pend_break = []
            seen |= set(vis)
            pend_break += [(r, k) for k, v in vis.items() if isinstance(v, str) and ("\n" in v or "\r" in v)]
            pending = {}
            r += 1
        elif op[0] == "record":
            v = op[2]
            pending[op[1]] = (v["v"] if v["t"] == "str" else 0.0, excl_tuple(op[3]))
        elif op[2] is not None:
            pending[op[1]] = (0.0, excl_tuple(op[3]))
    return hit_rows


def compare(case, impl, mv):
    probs = []
    formats = case["formats"]
    rec, left = recorded_per_dump(case)
    n = len(rec)
    # ---------------- oracle ----------------
    if len(impl["dumps"]) != n:
        probs.append(("oracle-dump-count", "number of dumps"))
    for r, d in enumerate(impl["dumps"]):
        if not d["cleared"]:
            probs.append(("oracle-dump-does-not-clear", f"dump {r}: pending maps not empty after dump"))
        got = {p["k"]: p for p in d["pending"]}
        if set(got) != set(rec[r]):
            probs.append(("oracle-pending-keys", f"dump {r}: pending keys {sorted(got)} recorded {sorted(rec[r])}"))
            continue
        for k, (v, e) in rec[r].items():
            if not cell_matches(as_fmt(v, "pending"), got[k]["v"]):
                sig = "oracle-record-mean-not-mean" if any(op[0] == "record_mean" and op[1] == k for op in case["ops"]) else "oracle-pending-value"
                probs.append((sig, f"dump {r} key {k}: pending value {got[k]['v']!r}, recorded / mean {v!r}"))
            if got[k]["excl"] != e:
                probs.append(("oracle-pending-exclusions", f"dump {r} key {k}: exclusions {got[k]['excl']} given {e}"))
    f5_rows = f5_predicate(case) if "csv" in formats else []
    blank = blank_row_class(case["ops"], formats)  # never true for generated histories; corpus inputs only
    BLANK_SIG = "csv-dump-without-values-misaligns-rows"
    if "csv" in formats:
        want_cols = []
        for r in range(n):
            for k, (v, e) in rec[r].items():
                if "csv" not in e and k not in want_cols:
                    want_cols.append(k)
        if "csv_error" in impl:
            sig = "csv-multiline-value-corrupted-by-header-rewrite" if f5_rows else "oracle-csv-unreadable"
            probs.append((sig, f"read_csv fails on the file: {impl['csv_error']}"))
        else:
            if sorted(impl["csv_cols"]) != sorted(want_cols) and want_cols:
                probs.append(("csv-multiline-value-corrupted-by-header-rewrite" if f5_rows else BLANK_SIG if blank else "oracle-csv-columns",
                              f"read_csv columns {impl['csv_cols']} keys recorded for csv {want_cols}"))
            elif want_cols:
                rows = impl["csv_rows"]
                bad, bad_cells = [], []
                if len(rows) != n:
                    bad.append(f"{len(rows)} rows for {n} dumps")
                    bad_cells.append(None)
                else:
                    for r in range(n):
                        for c, k in enumerate(impl["csv_cols"]):
                            want = rec[r].get(k)
                            want = None if (want is None or "csv" in want[1]) else as_fmt(want[0], "csv")
                            if not cell_matches(want, rows[r][c]):
                                bad.append(f"dump {r} key {k}: read back {rows[r][c]!r}, recorded {want!r}")
                                bad_cells.append((r, k))
                if bad:
                    # classify: ONLY the cells of the F5 class (value with a line break written before a later new column) may be wrong
                    only_f5 = bool(f5_rows) and all(c is not None and tuple(c) in {tuple(x) for x in f5_rows} for c in bad_cells)
                    sig = "csv-multiline-value-corrupted-by-header-rewrite" if only_f5 else BLANK_SIG if blank else "oracle-csv-readback"
                    f5_rows_msg = only_f5
                    msg = bad[0]
                    if f5_rows_msg:
                        msg = f"a string value with a line break is corrupted by the CSV header rewrite when a later dump adds a column: {bad[0]}"
                    elif blank:
                        msg = ("a dump without any csv-visible value (before the first column exists, or with a single column) leaves a blank line that read_csv drops / the next "
                               f"header rewrite overwrites or mis-pads, so rows no longer correspond to dumps: {bad[0]}")
                    probs.append((sig, msg))
    if "json" in formats:
        rows = impl["json_rows"]
        if len(rows) != n:
            probs.append(("oracle-json-row-count", f"{len(rows)} json rows for {n} dumps"))
        else:
            for r in range(min(n, len(rows))):
                want = {k: as_fmt(v, "json") for k, (v, e) in rec[r].items() if "json" not in e}
                if set(rows[r]) != set(want) or not all(cell_matches(want[k], rows[r][k]) for k in want):
                    probs.append(("oracle-json-readback", f"dump {r}: read back {rows[r]}, recorded {want}"))
                    break
    for fmt, other in (("log", "stdout"), ("stdout", "log")):
        if fmt not in formats:
            continue
        tables = list(impl[fmt + "_tables"])
        for r in range(n):
            want = {k: as_fmt(v, "human") for k, (v, e) in rec[r].items() if fmt not in e}
            # the writer skips the table when it has nothing to show; otherwise the next table is this dump's
            faithful = {k for k, (v, e) in rec[r].items() if "stdout" not in e and "log" not in e}
            table = tables.pop(0) if faithful and tables else {}
            missing = [k for k in want if k not in table]
            f6 = [k for k in missing if other in rec[r][k][1]]
            if f6:
                probs.append(("exclude-stdout-also-hides-from-log-file",
                              f"record(key, value, exclude='{other}') also hides the key from the '{fmt}' output: dump {r}, keys {f6} absent from {fmt}"))
            if len(f6) != len(missing):
                probs.append(("oracle-human-missing-key", f"dump {r}: keys {[k for k in missing if k not in f6]} not excluded from {fmt} but absent from it"))
            extra = [k for k in table if k not in want]
            if extra:
                probs.append(("oracle-human-excluded-key-shown", f"dump {r}: keys {extra} excluded from {fmt} but shown"))
            for k in want:
                if k in table and not human_value_ok(want[k], table[k]):
                    probs.append(("oracle-human-value", f"dump {r} key {k}: {fmt} shows {table[k]!r} for {want[k]!r}"))
    # ---------------- model vs impl ----------------
    pending_ok, views, diff, mkeys, roundtrip_ok, mleft, n_records_skip_blank = mv[0]
    if "csv" in formats and "csv_rows" in impl and not f5_rows and mkeys and impl["dumps"] and impl["dumps"][0]["extra"]:
        # the model's file read with blank-line skipping has as many records as pandas returns rows (+ header): also for the blank-row class (a)
        if n_records_skip_blank != len(impl["csv_rows"]) + 1:
            probs.append(("csv-skip-blank-row-count", f"read_csv returns {len(impl['csv_rows'])} rows, Model.Csv.parse_csv_skip_blank {n_records_skip_blank - 1}"))
    if pending_ok is not True:
        probs.append(("logger-pending-maps", "pending maps just before a dump differ between Model.Logger and the implementation (keys, order, values at 1e-9 or exclusion tuples)"))
    if mleft != impl["left"]:
        probs.append(("logger-pending-left", f"entries pending after the last operation: impl {impl['left']} model {mleft}"))
    if "csv" in formats:
        if diff is not None:
            pos = diff[1]
            probs.append(("csv-bytes", f"progress.csv differs from Model.Csv at byte {pos}: impl ...{impl['csv_text'][max(0, pos - 20):pos + 20]!r}"))
        if list(mkeys) != impl["csv_keys"]:
            probs.append(("csv-columns", f"column list impl {impl['csv_keys']} model {mkeys}"))
        # the model's reader on the model's file gives the recorded table iff the history is outside the F5 class
        if not blank and roundtrip_ok is not (not f5_rows):
            probs.append(("csv-model-roundtrip", f"Model.Csv: parse_csv(file) = recorded table is {roundtrip_ok}, F5 predicate says rows {f5_rows}"))
    if len(views) != n:
        probs.append(("logger-dump-count", f"{len(views)} model dumps for {n}"))
    else:
        for r, (vc, vj, vl, vs) in enumerate(views):
            if "json" in formats and r < len(impl["json_rows"]) and set(vj) != set(impl["json_rows"][r]):
                probs.append(("json-keys", f"dump {r}: json keys impl {sorted(impl['json_rows'][r])} model {sorted(vj)}"))
        for fmt, idx in (("log", 2), ("stdout", 3)):
            if fmt in formats:
                tables = list(impl[fmt + "_tables"])
                for r, v in enumerate(views):
                    if v[idx]:
                        t = tables.pop(0) if tables else {}
                        if set(t) != set(v[idx]):
                            probs.append((fmt + "-keys", f"dump {r}: {fmt} table keys impl {sorted(t)} model {sorted(v[idx])}"))
                            break
                if tables:
                    probs.append((fmt + "-keys", f"{len(tables)} extra {fmt} tables"))
    return probs


def mean_on_string(case):
    """precise predicate: record_mean(k, number) while k holds a string recorded since the last dump"""
    held = {}
    for op in case["ops"]:
        if op[0] == "dump":
            held = {}
        elif op[0] == "record":
            held[op[1]] = isinstance(op[2], dict) and op[2].get("t") == "str"
        elif op[0] == "record_mean" and op[2] is not None and held.get(op[1]):
            return True
    return False


def nontrivial(case, impl):
    if "raised" in impl or "configure" in impl:
        return False
    if case["kind"] == "hfmt":
        return HF.nontrivial_hfmt(case, impl)
    if case["kind"] == "human":
        return any(e["raised"] for e in impl["events"]) or any(op[0] == "level" for op in case["ops"])
    extras = [d["extra"] for d in impl["dumps"]]
    later_new = any(e for e in extras[1:])
    keysets = [frozenset(p["k"] for p in d["pending"]) for d in impl["dumps"]]
    return later_new and len(set(keysets)) >= 2 and len(case["ops"]) >= 6


KNOWN = {"csv-multiline-value-corrupted-by-header-rewrite", "exclude-stdout-also-hides-from-log-file", "csv-dump-without-values-misaligns-rows", HF.SLASH_KEY}


def run_cases(chk, cases):
    impls = []
    for c in cases:
        try:
            impls.append(run_configure(c) if c["kind"] == "configure" else HF.run_hfmt(c) if c["kind"] == "hfmt" else run_human(c) if c["kind"] == "human" else run_impl(c))
        except Exception as e:  # noqa: BLE001 - the implementation raised on the history: reported, the check goes on
            import traceback

            impls.append({"raised": f"{type(e).__name__}: {e}", "traceback": traceback.format_exc()[-2500:]})
    exprs = []
    for c, im in zip(cases, impls):
        try:
            exprs += ["true"] if ("raised" in im or "configure" in im) else HF.exprs_hfmt(c, im, coq_text, coq_list) if c["kind"] == "hfmt" else exprs_human(c, im) if c["kind"] == "human" else model_exprs(c, im)
        except Exception as ex:  # noqa: BLE001 - the recorded state cannot be turned into a model query (NaN, unexpected type, ...)
            import traceback

            im["raised"] = f"the implementation's state cannot be sent to the model ({type(ex).__name__}: {ex})"
            im["traceback"] = traceback.format_exc()[-2500:]
            exprs += ["true"]
    vals = common.coq_eval_many(chk.pid, HEADER, exprs, shard=120, procs=4)
    results = []
    for c, im, v in zip(cases, impls, vals):
        if "raised" in im:
            # record_mean on a key that holds a string (mean_defined = false in the model) is a TypeError of the caller, not a violation
            results.append([] if (mean_on_string(c) and im["raised"].startswith("TypeError")) else
                           [("oracle-implementation-raised", "the implementation raises on a legal history: " + im["raised"])])
        elif "configure" in im:
            results.append([("oracle-configure", k) for k, ok in im["configure"].items() if not ok])
        else:
            try:
                results.append(HF.compare_hfmt(c, im, [v]) if c["kind"] == "hfmt" else compare_human(c, im, [v]) if c["kind"] == "human" else compare(c, im, [v]))
            except Exception as e:  # noqa: BLE001 - the files / values cannot even be decoded
                import traceback

                im["traceback"] = traceback.format_exc()[-2500:]
                results.append([("oracle-implementation-raised", f"the implementation's output cannot be compared (unexpected shape / missing file): {type(e).__name__}: {e}")])
    return impls, results


def main():
    chk = Check("C20", groups=["logger"])
    chk.build_props()
    from harness import c18_branchcov

    cov = c18_branchcov.maybe_start(COV_TARGETS)   # VERIF_BRANCHCOV=1: which lines of the anchored functions this run executes
    n_cases = int(os.environ.get("VERIF_NCASES", 0)) or (1000 if chk.tier == "quick" else 8000)
    cases = []
    corpus = os.path.join(common.VERIF, "corpus", "C20.jsonl")
    if os.path.exists(corpus):
        cases += [json.loads(l) for l in open(corpus) if l.strip()]
    n_corpus = len(cases)
    for i in range(n_cases):
        cases.append(gen_case(chk.rng, i))
    # build round 5: whole-writer sub-stream of HumanOutputFormat.write (byte-exact against Model.HumanFormat), generated AFTER the older streams
    n_hfmt = int(os.environ.get("VERIF_NHFMT", 0)) or (560 if chk.tier == "quick" else 4000)
    for i in range(n_hfmt):
        cases.append(HF.gen_hfmt_case(chk.rng, i))
    impls, results = run_cases(chk, cases)
    distinct = set()
    hist = {"plain": 0, "breaks": 0, "human": 0, "hfmt": 0, "hfmt_refused": 0, "hfmt_empty": 0, "hfmt_truncated_key": 0, "corpus": n_corpus, "formats": {}, "dumps": {}, "with_record_mean": 0, "with_exclusions": 0, "f5_class": 0, "f6_class": 0}
    reported, queue = set(), []
    for idx, (c, im, probs) in enumerate(zip(cases, impls, results)):
        if ("raised" in im or "configure" in im) and not probs:
            continue
        if idx >= n_corpus:
            hist[c["kind"]] += 1
        if c["kind"] == "hfmt":
            hist["hfmt_refused"] += int(im["refused"])
            hist["hfmt_empty"] += int(not im["refused"] and not im["text"])
            hist["hfmt_truncated_key"] += int("..." in im["text"])
        fk = ",".join(c["formats"])
        hist["formats"][fk] = hist["formats"].get(fk, 0) + 1
        nd = str(sum(1 for op in c["ops"] if op[0] == "dump"))
        hist["dumps"][nd] = hist["dumps"].get(nd, 0) + 1
        hist["with_record_mean"] += int(any(op[0] == "record_mean" for op in c["ops"]))
        hist["with_exclusions"] += int(c["kind"] != "human" and any(op[0] != "dump" and op[3] is not None for op in c["ops"]))
        hist["f5_class"] += int(any(s == "csv-multiline-value-corrupted-by-header-rewrite" for s, _ in probs))
        hist["f6_class"] += int(any(s == "exclude-stdout-also-hides-from-log-file" for s, _ in probs))
        if nontrivial(c, im):
            distinct.add(json.dumps({k: c[k] for k in c if k != "id"}, sort_keys=True))
        for sig, msg in probs:
            is_oracle = sig.startswith("oracle-") or sig in KNOWN or sig.startswith("csv-dump-without")
            full = sig if is_oracle else "model-correspondence-" + sig
            if full in reported:
                continue
            # known findings are reported from the fixed corpus inputs (first occurrence); anything else from wherever it shows
            reported.add(full)
            queue.append((full, msg, {"case": c, "problems": probs[:8], "traceback": im.get("traceback"), "correspondence": "harness/c20.py vs Model.Logger.c20_check / Model.Csv.csv_run"},
                          is_oracle))
    # statement-level oracle failures (concrete failing inputs) are reported first; model-only disagreements go into the remaining slots
    emitted = 0
    for q_sig, q_msg, q_replay, q_found in sorted(queue, key=lambda q: not q[3]):
        if q_sig not in KNOWN:
            if emitted >= 3:
                continue
            emitted += 1
        chk.violation(q_sig, q_msg, q_replay, found_input=q_found)
    chk.coverage["evaluations"] = len(cases)
    chk.coverage["traces_validated_against_impl"] = len(cases)
    chk.coverage["distinct_nontrivial"] = len(distinct)
    chk.coverage["rule"] = ("random histories: 1-12 dumps, 0-6 keys per dump from a pool of up to 8 (tagged and untagged), ints / dyadic floats / numpy scalars / strings over an alphabet "
                            "with quotes, commas, spaces and punctuation; record and record_mean (1-5 values, 10% None) ; per-key exclusion from none/csv/json/stdout/log/pairs/tensorboard; "
                            "formats csv+json+log+stdout or subsets. Every 5th history is in the separate line-break sub-stream (LF or CR inside string values, csv+json only), whose "
                            "read-back mismatches are classified by the precise predicate 'a csv-visible value contains a line break AND a later dump adds a csv column'. "
                            "Not generated (precise predicate, see assumptions): dumps without any csv-visible value before the first column or with a single final column. "
                            "Every 10th history: log-level sub-stream (set_level, debug/info/warn/error/log, keys longer than max_length=36, colliding truncations, dumps while DISABLED) "
                            "on the log and stdout writers. Non-trivial = a later dump adds a column, >= 2 distinct key sets, >= 6 operations (log-level sub-stream: a level change or a "
                            "refused collision). distinct = distinct full case description. Build round 5: AFTER these streams, 560 (thorough 4000) single-dump cases through the real "
                            "Logger.record/dump into HumanOutputFormat(file, max_length in 3..36): 0-9 keys (lengths around max_length-1..max_length+4 counting the 3-space indent, keys equal up "
                            "to the cut, tags a/ ab/ -a/ a/b/c/ and tags longer than max_length, empty tag /x, trailing slash, bare '/', slash-led keys that CONTAIN an earlier tag, plain keys a "
                            "long tag is cut to), int / float / np.float64 / np.float32 / string values (also with '|'), exclusions; the printed bytes, the refusal (ValueError) and the empty "
                            "case are compared with Model.HumanFormat.write_lines (first differing byte decided inside Coq); non-trivial there = refused, or >= 3 keys with one near the cut")
    chk.notes["input_distribution"] = hist
    chk.notes["corpus_cases"] = n_corpus
    chk.notes["human_writer_stream"] = {"cases": hist["hfmt"], "refused_with_ValueError": hist["hfmt_refused"], "nothing_visible": hist["hfmt_empty"],
                                        "tables_with_a_truncated_cell": hist["hfmt_truncated_key"],
                                        "compared": "bytes of the file vs Model.HumanFormat (write_lines / file_text), refusal, model reader on the model table; oracle: equal line widths <= 2*max_length+7, "
                                                    "rows = visible keys + distinct tags, every value shown, untagged short keys verbatim, a refused dump writes and clears nothing"}
    chk.add_samples([{"kind": cases[i]["kind"], "formats": cases[i]["formats"], "ops": cases[i]["ops"][:12]} for i in (n_corpus, n_corpus + 4) if i < len(cases)])
    chk.assumptions += [
        "strings pandas would coerce are excluded from the generator: empty, NA-like sentinels (NA, NaN, null, None, n/a, ...), numeric-looking, booleans, inf; also the comment character '#' "
        "(read_csv is called with comment='#') and non-ASCII characters; every string starts with a letter: pandas' type inference is not modelled",
        "cells are compared numerically (numbers) or as exact strings (strings); absent = NaN",
        "a carriage return is treated as a line break (file opened in text mode with universal newlines); CR LF pairs are not generated",
        "dumps that carry no csv-visible value before the first csv column exists, or while the file ends with a single column, are not generated: the csv row is then a blank line "
        "(dropped by read_csv) or is overwritten by / mis-padded at the next header rewrite: known finding F13 csv-dump-without-values-misaligns-rows, reproduced from two fixed corpus inputs",
        "Python's str() of numbers is an input of the CSV model (taken from the pending value, which is compared with the Logger model at 1e-9)",
        "a record() between record_mean() calls on the same key in one dump is not generated (the running count is kept, the documented mean then no longer applies)",
    ]
    if cov is not None:
        chk.notes["branch_coverage"] = cov.report()
    return chk.finish()


def replay(path):
    d = json.load(open(path))
    case = d["replay"]["case"] if "replay" in d else d
    chk = Check("C20", groups=["logger"])
    impls, results = run_cases(chk, [case])
    print(json.dumps({"problems": results[0]}, indent=1))
    return 1 if results[0] else 0
