"""C14 - action distributions are mathematically consistent.

Proof side:  Props/C14.v - theorems over the reals about Model/Distributions.v (tanh change of
             variables, epsilon gap, mass one on product spaces, additivity over dimensions, mode
             maximises, entropy formulas, expln / gSDE positivity) + interface lemmas to the
             fragments regenerated from distributions.py.
Tie:         the public Distribution API of /repo is called in float64 on generated parameter
             tensors; for every returned number a Coq goal `Rabs (model_expr - value) <= tol` is
             emitted and discharged by Coq-Interval (kernel-checked, Qed).  A goal that does not
             check is a disagreement and is re-judged by an independent oracle (plain Python float64
             from the textbook formulas).
Oracle:      textbook formulas; total mass over the enumerated product space; entropy = E[-log p];
             numerical integration of exp(log_prob) in action space (1-D); mode maximises; support;
             reparametrisation identity for the recorded torch draw; helper consistency; 6-sigma
             sampling statistics.
"""
from __future__ import annotations

import itertools
import json
import math
import os
import re

from harness import common
from harness.common import Check

REGISTRY = dict(
    text=("Proof (unbounded, over the reals): d/du tanh = 1 - tanh^2, artanh is the inverse of tanh and P(tanh U <= a) = P(U <= artanh a), so the density of the squashed action is "
          "f(artanh a)/(1-a^2); with epsilon = 0 SquashedDiagGaussian.log_prob is the log of the product over dimensions of that density and the epsilon inside the log moves it by at most "
          "sum eps/(1-a^2); the cached sample-and-log-prob path equals log_prob(sample); softmax sums to one; total mass over the whole product space is 1 for MultiCategorical and Bernoulli "
          "(induction on the number of dimensions) and their entropy() is E[-log_prob] over that space; log_prob is the sum over dimensions / joint density the product; mode maximises for "
          "Gaussian (mean), categorical (any argmax), multi-categorical, Bernoulli (round(p), ties allowed); Gaussian entropy sum formula; expln > 0, gSDE variance >= 0, std > 0. "
          "Known finding F12 (signature squashed-mode-is-tanh-of-mean-not-density-maximiser, refuted in Coq and reproduced on the implementation): mode() of the tanh-squashed Gaussian / gSDE with "
          "squash_output is tanh(mean), which is not the maximiser of the action-space density. "
          "Partial: torch's Normal/Categorical/Bernoulli base formulas are compared numerically (Interval-checked goals), not proved to integrate to one (Gaussian integral unavailable); "
          "'samples follow that density' is decided only through the reparametrisation identity of the recorded draw and 6-sigma statistics."),
    note=("Axioms reported by Print Assumptions for Props/C14.v: ClassicalDedekindReals.sig_forall_dec, ClassicalDedekindReals.sig_not_dec, "
          "FunctionalExtensionality.functional_extensionality_dep, Classical_Prop.classic (Coq standard library real numbers, used by every theorem incl. the Q2R fragment lemmas); "
          "the refuted witness is proved by hand from 1+x <= exp x (no Interval). Only the generated correspondence goals (coq/Gen/Cases_C14_*.v) use Coq-Interval, i.e. the primitive "
          "PrimInt63/PrimFloat operations and their Uint63.*_spec / FloatAxioms.*_spec axioms. Trusted: Coq 8.16.1 kernel (vm_compute inside Interval, no native_compute), Coquelicot 3 / Interval 4 libraries, "
          "translate/py2coq.py + specs/dist.py, harness/c14.py, Python/torch. Not verified: float64 rounding (tolerance rel 1e-9), exact float32 rounding, the sampling law (reparametrisation identity + 6-sigma statistics only)."),
    technique="machine-checked proof in Coq over R (Coquelicot is_derive, induction over dimensions) + regenerated-fragment interface lemmas + Coq-Interval-checked numerical correspondence",
)

KNOWN_MODE_SIG = "squashed-mode-is-tanh-of-mean-not-density-maximiser"

HEADER = """From Coq Require Import Reals List Lia.
From Interval Require Import Tactic.
From SB3V Require Import Model.Distributions Proofs.DistributionsProofs.
Import ListNotations.
Local Open Scope R_scope.
Ltac unf1 := cbv [sumR map2 map fold_right fst snd nth combine firstn skipn length seq
  sum_independent_dims gauss_logprob gauss_logpdfs gauss_entropy gauss_mode gauss_rsample normal_logpdf normal_entropy
  squashed_logprob squashed_logprob_g squash_correction squashed_mode squashed_sample
  cat_logprob cat_entropy softmax split_logits multicat_logprob multicat_entropy max_at
  bern_logprob bern_entropy1 bernoulli_logprob bernoulli_entropy sigmoid
  gsde_get_std gsde_variance gsde_std gsde_logpdfs gsde_logprob gsde_logprob_squashed gsde_entropy dot gsde_sample].
Ltac unf2 := cbv [sumR map fold_right lse artanh squash_correction bijector_correction].
Ltac fix_expln := repeat match goal with |- context [expln ?e ?l] =>
   first [rewrite (proj1 (expln_cases e l)) by interval | rewrite (proj2 (expln_cases e l)) by interval] end.
Ltac fix_clamp := repeat match goal with |- context [tanh_inverse ?f ?y] =>
   rewrite (tanh_inverse_inside f y) by (split; interval) end.
Ltac fix_corr := repeat match goal with |- context [bijector_correction ?e (artanh ?a)] =>
   rewrite (bijector_correction_artanh e a) by (split; interval) end.
(* log-sum-exp occurs once per category: enclose it once and treat it as a bounded variable *)
Ltac abs_lse := repeat match goal with |- context [lse ?l] =>
   let L := fresh "L" in let H := fresh "HL" in
   let e := eval cbv [lse sumR map fold_right] in (lse l) in
   interval_intro e as H; change e with (lse l) in H; set (L := lse l) in *; clearbody L end.
Ltac c14 := unf1; fix_expln; fix_clamp; fix_corr; abs_lse; unf2; repeat split; first [lia | apply Rle_refl | interval | interval with (i_prec 80)].
(* model's argmax / bernoulli_mode evaluated on literals: decide every real comparison with interval *)
Ltac c14_argmax := unfold multicat_mode; cbv [map split_logits firstn skipn]; unfold argmax;
   repeat first [ rewrite argmax_from_lt by interval | rewrite argmax_from_ge by (first [apply Rle_refl | interval]) ]; reflexivity.
Ltac c14_bernmode := unfold bernoulli_mode; cbn [map];
   repeat match goal with |- context [bern_mode1 ?l] =>
     first [rewrite (proj1 (bern_mode1_cases l)) by interval | rewrite (proj2 (bern_mode1_cases l)) by interval] end; reflexivity.
"""

FEPS = 2.220446049250313e-16  # th.finfo(float64).eps


# ---------------------------------------------------------------- Coq printing
def R(x) -> str:
    x = float(x)
    assert math.isfinite(x), x
    if 0.9 < abs(x) < 1.0:
        # close to +-1 the goal is ill-conditioned in 1 - |a|: the shortest decimal repr differs from the double by up to
        # half an ulp, which is not negligible relative to 1 - |a|; print the double exactly (n / 2^k)
        from fractions import Fraction

        fr = Fraction(x)
        return f"({'-' if fr.numerator < 0 else ''}{abs(fr.numerator)} / {fr.denominator})"
    s = repr(abs(x))
    if "e" in s:
        m, e = s.split("e")
        s = f"{m}e{int(e)}"
    return f"(-{s})" if x < 0 else s


def RL(xs) -> str:
    return "[" + "; ".join(R(x) for x in xs) + "]"


def NL(xs) -> str:
    return "[" + "; ".join(str(int(x)) for x in xs) + "]%nat"


def gp(mean_row, log_std) -> str:
    return "[" + "; ".join(f"({R(m)}, {R(s)})" for m, s in zip(mean_row, log_std)) + "]"


def tol(v) -> float:
    return 1e-9 * max(1.0, abs(v))


def close(a, b, rel=1e-9) -> bool:
    return abs(a - b) <= rel * max(1.0, abs(a), abs(b))


# ---------------------------------------------------------------- generators
def _ls(rng):
    return rng.choice([rng.uniform(-5, 2), rng.uniform(-5, 2), rng.uniform(-1, 1), -5.0, 2.0, 0.0])


def _logit(rng, scale):
    return rng.choice([rng.uniform(-3, 3) * scale, rng.uniform(-3, 3) * scale, 0.0, 30.0, -30.0] if scale > 1 else [rng.uniform(-3, 3), rng.uniform(-3, 3), rng.uniform(-3, 3), 0.0])


def gen_case(rng, i):
    fam = ["gauss", "squashed", "categorical", "multicat", "bernoulli", "gsde", "gsde"][i % 7]
    b = rng.randint(1, 8)
    c = {"family": fam, "id": i, "b": b, "seed": rng.randint(0, 10**6)}
    if fam == "gauss":
        d = rng.randint(1, 6)
        rank1 = rng.random() < 0.3
        if rank1:
            c["b"] = b = 0
        ls = [_ls(rng) for _ in range(d)]
        rows = max(b, 1)
        mean = [[rng.uniform(-3, 3) for _ in range(d)] for _ in range(rows)]
        acts = [[mean[r][j] + math.exp(ls[j]) * rng.gauss(0, 1.5) if rng.random() < 0.7 else rng.uniform(-5, 5) for j in range(d)] for r in range(rows)]
        c.update(d=d, log_std=ls, mean=mean if b else mean[0], actions=acts if b else acts[0])
    elif fam == "squashed":
        d = rng.randint(1, 6)
        ls = [_ls(rng) for _ in range(d)]
        mean = [[rng.uniform(-3, 3) for _ in range(d)] for _ in range(b)]

        def act():
            k = rng.random()
            if k < 0.35:
                return rng.choice([-1, 1]) * (1 - 10 ** (-rng.choice([1, 2, 3, 4, rng.uniform(1, 4)])))
            if k < 0.45:
                return rng.choice([0.0, 0.5, -0.5])
            return math.tanh(rng.gauss(0, 1.5))

        near = rng.random() < 0.35   # actions tanh(u) with |u| up to 16: |a| up to 1 - 1e-13 in float64
        lim = 1 - 1e-13 if near else 1 - 1e-4
        acts = [[min(max(math.tanh(rng.choice([-1, 1]) * rng.uniform(5, 16)) if (near and rng.random() < 0.5) else act(), -lim), lim) for _ in range(d)] for _ in range(b)]
        c.update(d=d, log_std=ls, mean=mean, actions=acts, epsilon=rng.choice([1e-6, 1e-6, 1e-6, 1e-4, 1e-8, 0.0]))
    elif fam == "categorical":
        n = rng.randint(2, 8)
        scale = rng.choice([1, 1, 10])
        c.update(n=n, logits=[[_logit(rng, scale) for _ in range(n)] for _ in range(b)], actions=[rng.randrange(n) for _ in range(b)])
    elif fam == "multicat":
        dims = [rng.randint(2, 5) for _ in range(rng.randint(1, 4))]
        scale = rng.choice([1, 1, 10])
        c.update(dims=dims, logits=[[_logit(rng, scale) for _ in range(sum(dims))] for _ in range(b)],
                 actions=[[rng.randrange(n) for n in dims] for _ in range(b)])
    elif fam == "bernoulli":
        n = rng.randint(1, 6)
        scale = rng.choice([1, 1, 10])
        c.update(n=n, logits=[[_logit(rng, scale) for _ in range(n)] for _ in range(b)], actions=[[float(rng.randrange(2)) for _ in range(n)] for _ in range(b)])
    else:
        k, d = rng.randint(1, 4), rng.randint(1, 4)
        full, expln, squash = rng.random() < 0.5, rng.random() < 0.5, rng.random() < 0.5
        ls = [[_ls(rng) for _ in range(d if full else 1)] for _ in range(k)]
        latent = [[rng.choice([rng.uniform(-2, 2), rng.uniform(-2, 2), 0.0]) for _ in range(k)] for _ in range(b)]
        mean = [[rng.uniform(-2, 2) for _ in range(d)] for _ in range(b)]
        if squash:
            lim = 1 - 1e-13 if rng.random() < 0.35 else 1 - 1e-4
            acts = [[min(max(math.tanh(rng.gauss(0, 1.5)) if rng.random() < 0.6 else rng.choice([-1, 1]) * (math.tanh(rng.uniform(5, 16)) if lim > 1 - 1e-5 else 1 - 10 ** (-rng.uniform(1, 4))), -lim), lim)
                     for _ in range(d)] for _ in range(b)]
        else:
            acts = [[mean[r][j] + rng.gauss(0, 1.0) for j in range(d)] for r in range(b)]
        c.update(k=k, d=d, full_std=full, use_expln=expln, squash=squash, learn_features=rng.random() < 0.4, log_std=ls, latent=latent, mean=mean, actions=acts,
                 epsilon=rng.choice([1e-6, 1e-6, 1e-4]))
    return c


# ---------------------------------------------------------------- textbook oracle (plain float64)
LN2PI = math.log(2 * math.pi)


def o_normal(mu, sigma, x):
    z = (x - mu) / sigma
    return -0.5 * z * z - math.log(sigma) - 0.5 * LN2PI


def o_normal_entropy(sigma):
    return 0.5 * math.log(2 * math.pi * math.e * sigma * sigma)


def o_lse(l):
    m = max(l)
    return m + math.log(sum(math.exp(x - m) for x in l))


def o_cat_entropy(l):
    z = o_lse(l)
    return -sum(math.exp(x - z) * (x - z) for x in l)


def o_softplus(x):
    return max(x, 0.0) + math.log1p(math.exp(-abs(x)))


def o_bern(l, k):
    # k ln p + (1-k) ln (1-p),  p = 1/(1+e^-l):  ln p = -softplus(-l), ln(1-p) = -softplus(l)
    return -o_softplus(-l) if k else -o_softplus(l)


def o_bern_entropy(l):
    return -sum(math.exp(o_bern(l, k)) * o_bern(l, k) for k in (0, 1))


def o_expln(ls, eps):
    return math.exp(ls) if ls <= 0 else math.log1p(ls + eps) + 1.0


# ---------------------------------------------------------------- implementation runs
def _imports():
    import torch as th

    th.set_num_threads(1)
    from stable_baselines3.common import distributions as D

    return th, D


class Out:
    def __init__(self, case):
        self.case = case
        self.goals = []      # (label, coq_prop, info)
        self.problems = []   # (signature, message)
        self.checks = 0

    ROW_CAP = 2  # quick tier: Coq goals for the first rows of a batch only (the Python oracle covers every row)

    HEAVY_CAP = 1
    HEAVY = ("gsde-logprob", "gsde-logprob-squashed", "gsde-entropy", "multicat-entropy")  # ~1-3 s each: quick tier checks one row

    def goal(self, label, expr, value, row=0):
        if row >= Out.ROW_CAP or (label in Out.HEAVY and row >= Out.HEAVY_CAP):
            return
        v = float(value)
        if not math.isfinite(v):
            self.problems.append((f"oracle-{label}-not-finite", f"{label}: implementation returned {v!r}"))
            return
        self.goals.append((label, f"Rabs ({expr} - {R(v)}) <= {R(tol(v))}", {"impl": v}))

    def prop_goal(self, label, prop, row=0, tac="c14"):
        if row >= Out.ROW_CAP:
            return
        self.goals.append((label, prop, {"tac": tac}))

    def check(self, ok, sig, msg):
        self.checks += 1
        if not ok:
            self.problems.append((sig, msg))

    def oracle(self, label, expected, got, rel=1e-9):
        self.checks += 1
        if not (math.isfinite(got) and close(expected, got, rel)):
            self.problems.append((f"oracle-{label}", f"{label}: implementation {got!r}, textbook formula {expected!r}"))


def t64(th, x):
    return th.tensor(x, dtype=th.float64)


def std_normal_like(th, seed, shape):
    th.manual_seed(seed)
    return th.normal(th.zeros(shape, dtype=th.float64), th.ones(shape, dtype=th.float64))


def run_gauss(c, out):
    th, D = _imports()
    d, b, ls = c["d"], c["b"], c["log_std"]
    dist = D.DiagGaussianDistribution(d)
    mean_t, ls_t, act_t = t64(th, c["mean"]), t64(th, ls), t64(th, c["actions"])
    dist.proba_distribution(mean_t, ls_t)
    lp, ent, mode = dist.log_prob(act_t), dist.entropy(), dist.mode()
    rows_m = c["mean"] if b else [c["mean"]]
    rows_a = c["actions"] if b else [c["actions"]]
    want_shape = (b,) if b else ()
    out.check(tuple(lp.shape) == want_shape and tuple(ent.shape) == want_shape, "oracle-gauss-sum-independent-dims-shape",
              f"log_prob shape {tuple(lp.shape)} / entropy shape {tuple(ent.shape)}, expected {want_shape} for mean of shape {tuple(mean_t.shape)}")
    if tuple(lp.shape) != want_shape or tuple(ent.shape) != want_shape:
        return
    lpl = lp.tolist() if b else [lp.item()]
    entl = ent.tolist() if b else [ent.item()]
    for r, (m, a) in enumerate(zip(rows_m, rows_a)):
        if b:
            out.goal("gauss-logprob", f"gauss_logprob {gp(m, ls)} {RL(a)}", lpl[r], r)
        else:
            out.goal("gauss-logprob-rank1", f"nth 0 (sum_independent_dims (T1 (gauss_logpdfs {gp(m, ls)} {RL(a)}))) 0", lpl[r])
        out.oracle("gauss-logprob", sum(o_normal(mu, math.exp(s), x) for mu, s, x in zip(m, ls, a)), lpl[r])
        out.oracle("gauss-entropy", sum(o_normal_entropy(math.exp(s)) for s in ls), entl[r])
    out.goal("gauss-entropy", f"gauss_entropy {gp(rows_m[0], ls)}", entl[0])
    out.check(th.equal(mode, mean_t), "oracle-gauss-mode-is-not-mean", "mode() differs from mean_actions")
    out.check(th.equal(dist.actions_from_params(mean_t, ls_t, deterministic=True), mean_t), "oracle-gauss-deterministic-actions", "actions_from_params(deterministic) differs from the mean")
    # mode maximises
    lp_mode = dist.log_prob(mode)
    pert = dist.log_prob(mode + 1e-3 * th.sign(act_t - mean_t + 1e-30))
    out.check(bool((lp_mode >= lp - 1e-12).all()) and bool((lp_mode >= pert).all()), "oracle-gauss-mode-not-maximiser", "log_prob(mode) is smaller than log_prob of another action")
    # sample: support, reparametrisation identity, helper consistency
    th.manual_seed(c["seed"])
    s = dist.sample()
    e = std_normal_like(th, c["seed"], tuple(mean_t.shape))
    out.check(bool(th.isfinite(s).all()) and s.shape == mean_t.shape, "oracle-gauss-sample-support", "sample not finite / wrong shape")
    out.check(bool(th.allclose(s, mean_t + ls_t.exp() * e, rtol=0, atol=1e-12)), "oracle-gauss-sample-reparametrisation", "sample != mean + exp(log_std) * recorded normal draw")
    a2, lp2 = dist.log_prob_from_params(mean_t, ls_t)
    out.check(th.equal(lp2, dist.log_prob(a2)), "oracle-gauss-log-prob-from-params", "log_prob_from_params disagrees with log_prob(returned sample)")
    a2l = a2.tolist() if b else [a2.tolist()]
    lp2l = lp2.tolist() if b else [lp2.item()]
    out.oracle("gauss-log-prob-from-params", sum(o_normal(mu, math.exp(sg), x) for mu, sg, x in zip(rows_m[0], ls, a2l[0])), lp2l[0])


def check_squashed_mode(out, th, name, mode, log_prob, mean_t, std_t):
    """the property: mode() maximises the action-space density.  Candidates: tanh(mean + k*std) for a grid of k and the
    true stationary region tanh(mean + 2 std^2).  If some candidate has a larger log_prob, the run is an instance of the
    known finding exactly when mode() is tanh(mean) (its predicate); any other non-maximising mode is a new violation.
    A repository whose mode() does maximise is not flagged."""
    out.checks += 1
    if not (tuple(mode.shape) == tuple(mean_t.shape) and bool((mode.abs() <= 1).all())):
        out.problems.append(("oracle-squashed-mode-support", f"{name}: mode() has shape {tuple(mode.shape)} / leaves [-1, 1]"))
        return
    lp_mode = log_prob(mode)
    best = None
    for k in (-2.0, -1.0, -0.5, 0.5, 1.0, 2.0, None):
        cand = th.tanh(mean_t + (2 * std_t ** 2 * th.sign(mean_t) if k is None else k * std_t)).clamp(-1 + 1e-9, 1 - 1e-9)
        lp_c = log_prob(cand)
        gain = float((lp_c - lp_mode).max())
        if best is None or gain > best[0]:
            best = (gain, cand, lp_c)
    if best[0] > 1e-7:
        r = int((best[2] - lp_mode).argmax())
        msg = (f"{name}: log_prob(mode()={mode[r].tolist()}) = {float(lp_mode[r])!r} < log_prob({best[1][r].tolist()}) = {float(best[2][r])!r} "
               f"(mean {mean_t[r].tolist()}, std {std_t[r].tolist() if std_t.dim() > 1 else std_t.tolist()})")
        if bool(th.allclose(mode, th.tanh(mean_t), rtol=0, atol=1e-12)):
            out.problems.append((KNOWN_MODE_SIG, msg + "; mode() = tanh(mean) is the image of the Gaussian mode (the median), not the maximiser of the action-space density"))
        else:
            out.problems.append(("oracle-squashed-mode-not-maximiser", msg))


def run_squashed(c, out):
    th, D = _imports()
    d, b, ls, eps = c["d"], c["b"], c["log_std"], c["epsilon"]
    dist = D.SquashedDiagGaussianDistribution(d, epsilon=eps)
    mean_t, ls_t, act_t = t64(th, c["mean"]), t64(th, ls), t64(th, c["actions"])
    dist.proba_distribution(mean_t, ls_t)
    lp = dist.log_prob(act_t)
    out.check(tuple(lp.shape) == (b,), "oracle-squashed-logprob-shape", f"log_prob shape {tuple(lp.shape)} expected {(b,)}")
    if tuple(lp.shape) != (b,):
        return
    lpl = lp.tolist()
    for r in range(b):
        m, a = c["mean"][r], c["actions"][r]
        out.goal("squashed-logprob", f"squashed_logprob {R(FEPS)} {R(eps)} {gp(m, ls)} {RL(a)}", lpl[r], r)
        code = sum(o_normal(mu, math.exp(s), math.atanh(x)) for mu, s, x in zip(m, ls, a)) - sum(math.log(1 - x * x + eps) for x in a)
        out.oracle("squashed-logprob", code, lpl[r])
        # the property: log density in action space  f(atanh a)/(1-a^2), up to the epsilon gap
        exact = sum(o_normal(mu, math.exp(s), math.atanh(x)) - math.log(1 - x * x) for mu, s, x in zip(m, ls, a))
        gap = sum(eps / (1 - x * x) for x in a)
        out.check(-1e-9 * max(1, abs(exact)) <= exact - lpl[r] <= gap + 1e-9 * max(1, abs(exact)), "oracle-squashed-logprob-not-log-density",
                  f"log_prob {lpl[r]!r} vs exact action-space log density {exact!r}: outside the epsilon gap [0, {gap!r}]")
    out.check(dist.entropy() is None, "oracle-squashed-entropy", "entropy() should be None (no analytic form)")
    mode = dist.mode()
    check_squashed_mode(out, th, "SquashedDiagGaussianDistribution", mode, dist.log_prob, mean_t, ls_t.exp().expand_as(mean_t))
    # cached path
    th.manual_seed(c["seed"])
    s = dist.sample()
    g = dist.gaussian_actions
    e = std_normal_like(th, c["seed"], tuple(mean_t.shape))
    out.check(bool((s.abs() <= 1).all()), "oracle-squashed-sample-support", "sample outside [-1, 1]")
    out.check(bool(th.allclose(g, mean_t + ls_t.exp() * e, rtol=0, atol=1e-12)) and th.equal(s, th.tanh(g)), "oracle-squashed-sample-reparametrisation",
              "sample != tanh(mean + exp(log_std) * recorded normal draw)")
    lpc = dist.log_prob(s, g).tolist()
    lpn = dist.log_prob(s).tolist()
    sl, gl = s.tolist(), g.tolist()
    for r in range(b):
        if all(abs(x) <= 1 - 1e-9 for x in sl[r]):
            if r < 2:
                out.goal("squashed-logprob-cached", f"squashed_logprob_g {R(eps)} {gp(c['mean'][r], ls)} {RL(sl[r])} {RL(gl[r])}", lpc[r])
            code = sum(o_normal(mu, math.exp(sg), u) for mu, sg, u in zip(c["mean"][r], ls, gl[r])) - sum(math.log(1 - x * x + eps) for x in sl[r])
            out.oracle("squashed-logprob-cached", code, lpc[r])
            if all(abs(u) <= 3 for u in gl[r]):
                out.oracle("squashed-cached-vs-recomputed", lpc[r], lpn[r], rel=1e-6)
    th.manual_seed(c["seed"] + 1)
    a2, lp2 = dist.log_prob_from_params(mean_t, ls_t)
    g2 = dist.gaussian_actions
    out.check(g2 is not None and th.equal(a2, th.tanh(g2)), "oracle-squashed-log-prob-from-params-sample", "log_prob_from_params: returned action is not tanh of the cached pre-squash sample")
    if g2 is not None:
        a2l, g2l, lp2l = a2.tolist(), g2.tolist(), lp2.tolist()
        for r in range(b):
            if all(abs(x) <= 1 - 1e-9 for x in a2l[r]):
                want = sum(o_normal(mu, math.exp(sg), u) for mu, sg, u in zip(c["mean"][r], ls, g2l[r])) - sum(math.log(1 - x * x + eps) for x in a2l[r])
                out.oracle("squashed-log-prob-from-params", want, lp2l[r])


def run_categorical(c, out):
    th, D = _imports()
    n, b = c["n"], c["b"]
    dist = D.CategoricalDistribution(n)
    lg = t64(th, c["logits"])
    dist.proba_distribution(lg)
    act = th.tensor(c["actions"], dtype=th.int64)
    lp, ent, mode = dist.log_prob(act), dist.entropy(), dist.mode()
    out.check(tuple(lp.shape) == (b,) and tuple(ent.shape) == (b,) and tuple(mode.shape) == (b,), "oracle-categorical-shape", "log_prob/entropy/mode shape")
    if tuple(lp.shape) != (b,) or tuple(ent.shape) != (b,) or tuple(mode.shape) != (b,):
        return
    allp = th.stack([dist.log_prob(th.full((b,), k, dtype=th.int64)) for k in range(n)], dim=1).tolist()
    for r in range(b):
        l = c["logits"][r]
        out.goal("categorical-logprob", f"cat_logprob {RL(l)} {c['actions'][r]}%nat", lp[r].item(), r)
        out.goal("categorical-entropy", f"cat_entropy {RL(l)}", ent[r].item(), r)
        out.prop_goal("categorical-mode", f"max_at {RL(l)} {int(mode[r])}%nat", r)
        out.prop_goal("categorical-mode-is-model-argmax", f"argmax {RL(l)} = {int(mode[r])}%nat", r, tac="c14_argmax")
        out.oracle("categorical-logprob", l[c["actions"][r]] - o_lse(l), lp[r].item())
        out.oracle("categorical-entropy", o_cat_entropy(l), ent[r].item())
        out.oracle("categorical-total-mass", 1.0, sum(math.exp(x) for x in allp[r]))
        out.oracle("categorical-entropy-is-expectation", -sum(math.exp(x) * x for x in allp[r]), ent[r].item())
        out.check(allp[r][int(mode[r])] >= max(allp[r]) - 1e-12, "oracle-categorical-mode-not-maximiser", f"row {r}: mode {int(mode[r])} has log_prob {allp[r][int(mode[r])]} < max {max(allp[r])}")
    th.manual_seed(c["seed"])
    s = dist.sample()
    out.check(s.dtype == th.int64 and tuple(s.shape) == (b,) and bool(((s >= 0) & (s < n)).all()), "oracle-categorical-sample-support", "sample outside {0..n-1}")
    a2, lp2 = dist.log_prob_from_params(lg)
    out.check(th.equal(lp2, dist.log_prob(a2)), "oracle-categorical-log-prob-from-params", "log_prob_from_params disagrees with log_prob(sample)")
    out.check(th.equal(dist.actions_from_params(lg, deterministic=True), mode), "oracle-categorical-deterministic-actions", "deterministic action differs from mode")


def run_multicat(c, out):
    th, D = _imports()
    dims, b = c["dims"], c["b"]
    dist = D.MultiCategoricalDistribution(dims)
    lg = t64(th, c["logits"])
    dist.proba_distribution(lg)
    act = th.tensor(c["actions"], dtype=th.int64)
    lp, ent, mode = dist.log_prob(act), dist.entropy(), dist.mode()
    ok = tuple(lp.shape) == (b,) and tuple(ent.shape) == (b,) and tuple(mode.shape) == (b, len(dims))
    out.check(ok, "oracle-multicat-shape", "log_prob/entropy/mode shape")
    if not ok:
        return
    space = list(itertools.product(*[range(n) for n in dims]))
    enum = None
    if len(space) <= 130:
        enum = th.stack([dist.log_prob(th.tensor([a] * b, dtype=th.int64)) for a in space], dim=1).tolist()
    offs = [sum(dims[:i]) for i in range(len(dims) + 1)]
    for r in range(b):
        l = c["logits"][r]
        split = f"(split_logits {NL(dims)} {RL(l)})"
        out.goal("multicat-logprob", f"multicat_logprob {split} {NL(c['actions'][r])}", lp[r].item(), r)
        out.goal("multicat-entropy", f"multicat_entropy {split}", ent[r].item(), r)
        parts = [l[offs[i]:offs[i + 1]] for i in range(len(dims))]
        out.oracle("multicat-logprob", sum(p[k] - o_lse(p) for p, k in zip(parts, c["actions"][r])), lp[r].item())
        out.oracle("multicat-entropy", sum(o_cat_entropy(p) for p in parts), ent[r].item())
        for i, p in enumerate(parts):
            out.check(p[int(mode[r][i])] >= max(p) - 1e-12, "oracle-multicat-mode-not-maximiser", f"row {r} dim {i}: mode {int(mode[r][i])} is not an argmax of {p}")
        if r < 2:
            out.prop_goal("multicat-mode", " /\\ ".join(f"max_at {RL(p)} {int(mode[r][i])}%nat" for i, p in enumerate(parts)))
            out.prop_goal("multicat-mode-is-model-argmax", f"multicat_mode {split} = {NL([int(x) for x in mode[r].tolist()])}", r, tac="c14_argmax")
        if enum is not None:
            out.oracle("multicat-total-mass", 1.0, sum(math.exp(x) for x in enum[r]))
            out.oracle("multicat-entropy-is-expectation", -sum(math.exp(x) * x for x in enum[r]), ent[r].item())
            out.check(dist.log_prob(mode)[r].item() >= max(enum[r]) - 1e-12, "oracle-multicat-mode-not-maximiser", f"row {r}: log_prob(mode) < max over the product space")
    th.manual_seed(c["seed"])
    s = dist.sample()
    out.check(s.dtype == th.int64 and tuple(s.shape) == (b, len(dims)) and all(bool(((s[:, i] >= 0) & (s[:, i] < n)).all()) for i, n in enumerate(dims)),
              "oracle-multicat-sample-support", "sample outside the product space")
    a2, lp2 = dist.log_prob_from_params(lg)
    out.check(th.equal(lp2, dist.log_prob(a2)), "oracle-multicat-log-prob-from-params", "log_prob_from_params disagrees with log_prob(sample)")
    out.check(th.equal(dist.actions_from_params(lg, deterministic=True), mode), "oracle-multicat-deterministic-actions", "deterministic action differs from mode")


def run_bernoulli(c, out):
    th, D = _imports()
    n, b = c["n"], c["b"]
    dist = D.BernoulliDistribution(n)
    lg = t64(th, c["logits"])
    dist.proba_distribution(lg)
    act = t64(th, c["actions"])
    lp, ent, mode = dist.log_prob(act), dist.entropy(), dist.mode()
    ok = tuple(lp.shape) == (b,) and tuple(ent.shape) == (b,) and tuple(mode.shape) == (b, n)
    out.check(ok, "oracle-bernoulli-shape", "log_prob/entropy/mode shape")
    if not ok:
        return
    space = list(itertools.product([0.0, 1.0], repeat=n))
    enum = th.stack([dist.log_prob(t64(th, [list(a)] * b)) for a in space], dim=1).tolist()
    lpm = dist.log_prob(mode).tolist()
    for r in range(b):
        l = c["logits"][r]
        bits = "[" + "; ".join("true" if x else "false" for x in c["actions"][r]) + "]"
        out.goal("bernoulli-logprob", f"bernoulli_logprob {RL(l)} {bits}", lp[r].item(), r)
        out.goal("bernoulli-entropy", f"bernoulli_entropy {RL(l)}", ent[r].item(), r)
        out.prop_goal("bernoulli-mode-is-model-mode", f"bernoulli_mode {RL(l)} = [" + "; ".join("true" if x else "false" for x in mode[r].tolist()) + "]", r, tac="c14_bernmode")
        out.oracle("bernoulli-logprob", sum(o_bern(x, k) for x, k in zip(l, c["actions"][r])), lp[r].item())
        out.oracle("bernoulli-entropy", sum(o_bern_entropy(x) for x in l), ent[r].item())
        out.oracle("bernoulli-total-mass", 1.0, sum(math.exp(x) for x in enum[r]))
        out.oracle("bernoulli-entropy-is-expectation", -sum(math.exp(x) * x for x in enum[r]), ent[r].item())
        out.check(lpm[r] >= max(enum[r]) - 1e-12, "oracle-bernoulli-mode-not-maximiser", f"row {r}: log_prob(mode)={lpm[r]} < max over {{0,1}}^n = {max(enum[r])}")
        out.check(all(m in (0.0, 1.0) for m in mode[r].tolist()), "oracle-bernoulli-mode-support", "mode not in {0,1}^n")
    th.manual_seed(c["seed"])
    s = dist.sample()
    out.check(tuple(s.shape) == (b, n) and bool(((s == 0) | (s == 1)).all()), "oracle-bernoulli-sample-support", "sample outside {0,1}^n")
    a2, lp2 = dist.log_prob_from_params(lg)
    out.check(th.equal(lp2, dist.log_prob(a2)), "oracle-bernoulli-log-prob-from-params", "log_prob_from_params disagrees with log_prob(sample)")
    out.check(th.equal(dist.actions_from_params(lg, deterministic=True), mode), "oracle-bernoulli-deterministic-actions", "deterministic action differs from mode")


def run_gsde(c, out):
    th, D = _imports()
    k, d, b, eps = c["k"], c["d"], c["b"], c["epsilon"]
    full, expln, squash = c["full_std"], c["use_expln"], c["squash"]
    dist = D.StateDependentNoiseDistribution(d, full_std=full, use_expln=expln, squash_output=squash, learn_features=c.get("learn_features", False), epsilon=eps)
    dist.proba_distribution_net(latent_dim=k)
    ls_t, lat_t, mean_t, act_t = t64(th, c["log_std"]), t64(th, c["latent"]), t64(th, c["mean"]), t64(th, c["actions"])
    std = dist.get_std(ls_t)
    out.check(tuple(std.shape) == (k, d), "oracle-gsde-std-shape", f"get_std shape {tuple(std.shape)} expected {(k, d)}")
    if tuple(std.shape) != (k, d):
        return
    stdl = std.tolist()
    be = "true" if expln else "false"

    def ls_of(i, j):
        return c["log_std"][i][j if full else 0]

    def std_expr(i, j):
        return f"gsde_get_std {be} {R(eps)} {R(ls_of(i, j))}"

    for (i, j) in [(0, 0), (k - 1, d - 1)]:
        out.goal("gsde-get-std", std_expr(i, j), stdl[i][j])
    for i in range(k):
        for j in range(d):
            want = o_expln(ls_of(i, j), eps) if expln else math.exp(ls_of(i, j))
            out.oracle("gsde-get-std", want, stdl[i][j])
            out.check(stdl[i][j] > 0, "oracle-gsde-std-not-positive", f"get_std[{i},{j}] = {stdl[i][j]} for log_std {ls_of(i, j)}")
    th.manual_seed(c["seed"])
    dist.sample_weights(ls_t, batch_size=b)
    th.manual_seed(c["seed"])
    e1 = th.normal(th.zeros_like(std), th.ones_like(std))
    out.check(bool(th.allclose(dist.exploration_mat, std * e1, rtol=0, atol=1e-12)), "oracle-gsde-weights-reparametrisation", "exploration_mat != std * recorded normal draw")
    dist.proba_distribution(mean_t, ls_t, lat_t)
    lp, ent, mode = dist.log_prob(act_t), dist.entropy(), dist.mode()
    out.check(tuple(lp.shape) == (b,), "oracle-gsde-logprob-shape", f"log_prob shape {tuple(lp.shape)}")
    if tuple(lp.shape) != (b,):
        return
    cols = "[" + "; ".join("[" + "; ".join(std_expr(i, j) for i in range(k)) + "]" for j in range(d)) + "]"
    for r in range(b):
        x, m, a = c["latent"][r], c["mean"][r], c["actions"][r]
        sig = [math.sqrt(sum(x[i] ** 2 * stdl[i][j] ** 2 for i in range(k)) + eps) for j in range(d)]
        if squash:
            out.goal("gsde-logprob-squashed", f"gsde_logprob_squashed {R(FEPS)} {R(eps)} {RL(x)} {RL(m)} {cols} {RL(a)}", lp[r].item(), r)
            want = sum(o_normal(m[j], sig[j], math.atanh(a[j])) - math.log(1 - a[j] ** 2 + eps) for j in range(d))
            out.checks += 1
            if not (math.isfinite(lp[r].item()) and close(want, lp[r].item(), 1e-8)):
                out.problems.append(("oracle-gsde-logprob-squashed", f"gsde-logprob-squashed: log_prob({a}) = {lp[r].item()!r}, log density at the GIVEN action (pre-squash {[math.atanh(v) for v in a]}) = {want!r}"))
        else:
            out.goal("gsde-logprob", f"gsde_logprob {R(eps)} {RL(x)} {RL(m)} {cols} {RL(a)}", lp[r].item(), r)
            out.oracle("gsde-logprob", sum(o_normal(m[j], sig[j], a[j]) for j in range(d)), lp[r].item())
        if squash:
            out.check(ent is None, "oracle-gsde-entropy", "entropy() should be None when squashing")
        else:
            ok = ent is not None and tuple(ent.shape) == (b,)
            out.check(ok, "oracle-gsde-entropy-shape", "entropy shape")
            if ok:
                if r < 2:
                    out.goal("gsde-entropy", f"gsde_entropy {R(eps)} {RL(x)} {cols}", ent[r].item(), r)
                out.oracle("gsde-entropy", sum(o_normal_entropy(s) for s in sig), ent[r].item())
    if squash:
        check_squashed_mode(out, th, "StateDependentNoiseDistribution(squash_output=True)", mode, dist.log_prob, mean_t, dist.distribution.scale)
    else:
        out.check(bool(th.allclose(mode, mean_t, rtol=0, atol=1e-15)), "oracle-gsde-mode", "mode() differs from mean_actions")
    if not squash:
        out.check(bool((dist.log_prob(mode) >= lp - 1e-12).all()), "oracle-gsde-mode-not-maximiser", "log_prob(mode) < log_prob(action)")
    # sample = mean + latent @ exploration matrix (one matrix per row when the batch sizes match)
    s = dist.sample()
    if b == 1 or b != len(dist.exploration_matrices):
        W = [dist.exploration_mat.tolist()] * b
    else:
        W = dist.exploration_matrices.tolist()
    sl = s.tolist()
    for r in range(b):
        for j in range(d):
            u = c["mean"][r][j] + sum(c["latent"][r][i] * W[r][i][j] for i in range(k))
            want = math.tanh(u) if squash else u
            out.oracle("gsde-sample-is-mean-plus-latent-times-weights", want, sl[r][j], rel=1e-9)
    r, j = b - 1, d - 1
    wcols = "[" + "; ".join(RL([W[r][i][jj] for i in range(k)]) for jj in range(d)) + "]"
    if not squash:
        out.goal("gsde-sample", f"nth {j} (gsde_sample {RL(c['latent'][r])} {RL(c['mean'][r])} {wcols}) 0", sl[r][j])
    else:
        out.check(bool((s.abs() <= 1).all()), "oracle-gsde-sample-support", "squashed sample outside [-1,1]")
    a2, lp2 = dist.log_prob_from_params(mean_t, ls_t, lat_t)
    if squash:
        # log_prob re-inverts tanh: only comparable away from saturation
        pass
    out.check(bool(th.allclose(lp2, dist.log_prob(a2), rtol=0, atol=0)), "oracle-gsde-log-prob-from-params", "log_prob_from_params disagrees with log_prob(sample)")



# ---------------------------------------------------------------- multi-step histories on ONE distribution object
def _hist_params(rng, fam, shape, b):
    """fresh parameters of batch b for a distribution of the fixed `shape` description"""
    if fam in ("gauss", "squashed"):
        d = shape["d"]
        return {"mean": [[rng.uniform(-3, 3) for _ in range(d)] for _ in range(b)], "log_std": [_ls(rng) for _ in range(d)]}
    if fam == "categorical":
        return {"logits": [[_logit(rng, shape["scale"]) for _ in range(shape["n"])] for _ in range(b)]}
    if fam == "multicat":
        return {"logits": [[_logit(rng, shape["scale"]) for _ in range(sum(shape["dims"]))] for _ in range(b)]}
    if fam == "bernoulli":
        return {"logits": [[_logit(rng, shape["scale"]) for _ in range(shape["n"])] for _ in range(b)]}
    k, d = shape["k"], shape["d"]
    return {"mean": [[rng.uniform(-2, 2) for _ in range(d)] for _ in range(b)], "latent": [[rng.uniform(-2, 2) for _ in range(k)] for _ in range(b)],
            "log_std": [[_ls(rng) for _ in range(d if shape["full_std"] else 1)] for _ in range(k)]}


def _hist_actions(rng, fam, shape, b):
    if fam == "gauss" or (fam == "gsde" and not shape["squash"]):
        return [[rng.uniform(-4, 4) for _ in range(shape["d"])] for _ in range(b)]
    if fam == "squashed" or fam == "gsde":
        return [[min(max(math.tanh(rng.gauss(0, 1.5)), -(1 - 1e-4)), 1 - 1e-4) for _ in range(shape["d"])] for _ in range(b)]
    if fam == "categorical":
        return [rng.randrange(shape["n"]) for _ in range(b)]
    if fam == "multicat":
        return [[rng.randrange(n) for n in shape["dims"]] for _ in range(b)]
    return [[float(rng.randrange(2)) for _ in range(shape["n"])] for _ in range(b)]


def gen_history(rng, i):
    fam = ["squashed", "gauss", "categorical", "multicat", "bernoulli", "gsde", "squashed"][i % 7]
    shape = {"gauss": lambda: {"d": rng.randint(1, 4)}, "squashed": lambda: {"d": rng.randint(1, 4), "epsilon": 1e-6},
             "categorical": lambda: {"n": rng.randint(2, 6), "scale": rng.choice([1, 10])}, "multicat": lambda: {"dims": [rng.randint(2, 4) for _ in range(rng.randint(1, 3))], "scale": 1},
             "bernoulli": lambda: {"n": rng.randint(1, 4), "scale": rng.choice([1, 10])},
             "gsde": lambda: {"k": rng.randint(1, 3), "d": rng.randint(1, 3), "full_std": rng.random() < 0.5, "use_expln": rng.random() < 0.5, "squash": rng.random() < 0.5, "epsilon": 1e-6}}[fam]()
    b = rng.randint(1, 4)
    ops = [["proba", _hist_params(rng, fam, shape, b)]]
    for _ in range(rng.randint(3, 7)):
        k = rng.random()
        if k < 0.12:
            b = rng.randint(1, 4)
            ops.append(["proba", _hist_params(rng, fam, shape, b)])
        elif k < 0.27:
            ops.append(["sample"])
        elif k < 0.37:
            ops.append(["mode"])
        elif k < 0.47:
            ops.append(["get_actions", rng.random() < 0.5])
        elif k < 0.55:
            b = rng.randint(1, 4)
            ops.append(["actions_from_params", _hist_params(rng, fam, shape, b), rng.random() < 0.5])
        elif k < 0.63:
            b = rng.randint(1, 4)
            ops.append(["log_prob_from_params", _hist_params(rng, fam, shape, b)])
        elif k < 0.9:
            bb = rng.randint(2, 4) if (b == 1 and fam in ("gauss", "squashed") and rng.random() < 0.5) else b
            ops.append(["log_prob", _hist_actions(rng, fam, shape, bb)])
        else:
            ops.append(["entropy"])
    if ops[-1][0] != "log_prob":
        ops.append(["log_prob", _hist_actions(rng, fam, shape, b)])
    return {"family": "history", "dist": fam, "shape": shape, "ops": ops, "seed": rng.randint(0, 10**6), "id": f"h{i}", "b": 2, "d": 2}


def _hist_row(fam, shape, P, r):
    """(oracle log_prob function of an action row, Coq model expression builder) for batch row r of params P"""
    if fam == "gauss":
        m, ls = P["mean"][r], P["log_std"]
        return (lambda a: sum(o_normal(mu, math.exp(s), x) for mu, s, x in zip(m, ls, a)), lambda a: f"gauss_logprob {gp(m, ls)} {RL(a)}",
                lambda: sum(o_normal_entropy(math.exp(s)) for s in ls))
    if fam == "squashed":
        m, ls, eps = P["mean"][r], P["log_std"], shape["epsilon"]
        return (lambda a: sum(o_normal(mu, math.exp(s), math.atanh(x)) for mu, s, x in zip(m, ls, a)) - sum(math.log(1 - x * x + eps) for x in a),
                lambda a: f"squashed_logprob {R(FEPS)} {R(eps)} {gp(m, ls)} {RL(a)}", None)
    if fam == "categorical":
        l = P["logits"][r]
        return (lambda a: l[a] - o_lse(l), lambda a: f"cat_logprob {RL(l)} {a}%nat", lambda: o_cat_entropy(l))
    if fam == "multicat":
        l, dims = P["logits"][r], shape["dims"]
        offs = [sum(dims[:i]) for i in range(len(dims) + 1)]
        parts = [l[offs[i]:offs[i + 1]] for i in range(len(dims))]
        return (lambda a: sum(p[k] - o_lse(p) for p, k in zip(parts, a)), lambda a: f"multicat_logprob (split_logits {NL(dims)} {RL(l)}) {NL(a)}",
                lambda: sum(o_cat_entropy(p) for p in parts))
    if fam == "bernoulli":
        l = P["logits"][r]
        return (lambda a: sum(o_bern(x, k) for x, k in zip(l, a)),
                lambda a: f"bernoulli_logprob {RL(l)} [" + "; ".join("true" if x else "false" for x in a) + "]", lambda: sum(o_bern_entropy(x) for x in l))
    k, d, eps = shape["k"], shape["d"], shape["epsilon"]
    full, expln, squash = shape["full_std"], shape["use_expln"], shape["squash"]
    x, m = P["latent"][r], P["mean"][r]
    ls_of = lambda i, j: P["log_std"][i][j if full else 0]  # noqa: E731
    std = [[(o_expln(ls_of(i, j), eps) if expln else math.exp(ls_of(i, j))) for j in range(d)] for i in range(k)]
    sig = [math.sqrt(sum(x[i] ** 2 * std[i][j] ** 2 for i in range(k)) + eps) for j in range(d)]
    be = "true" if expln else "false"
    cols = "[" + "; ".join("[" + "; ".join(f"gsde_get_std {be} {R(eps)} {R(ls_of(i, j))}" for i in range(k)) + "]" for j in range(d)) + "]"
    if squash:
        return (lambda a: sum(o_normal(m[j], sig[j], math.atanh(a[j])) - math.log(1 - a[j] ** 2 + eps) for j in range(d)),
                lambda a: f"gsde_logprob_squashed {R(FEPS)} {R(eps)} {RL(x)} {RL(m)} {cols} {RL(a)}", None)
    return (lambda a: sum(o_normal(m[j], sig[j], a[j]) for j in range(d)), lambda a: f"gsde_logprob {R(eps)} {RL(x)} {RL(m)} {cols} {RL(a)}",
            lambda: sum(o_normal_entropy(s_) for s_ in sig))


def run_history(c, out):
    """one distribution object through a random sequence of public calls; every log_prob(actions) must be the
    log-probability of the GIVEN actions under the CURRENT parameters (no stale cache), every entropy the current one"""
    th, D = _imports()
    fam, shape = c["dist"], c["shape"]
    th.manual_seed(c["seed"])
    if fam == "gauss":
        dist = D.DiagGaussianDistribution(shape["d"])
    elif fam == "squashed":
        dist = D.SquashedDiagGaussianDistribution(shape["d"], epsilon=shape["epsilon"])
    elif fam == "categorical":
        dist = D.CategoricalDistribution(shape["n"])
    elif fam == "multicat":
        dist = D.MultiCategoricalDistribution(shape["dims"])
    elif fam == "bernoulli":
        dist = D.BernoulliDistribution(shape["n"])
    else:
        dist = D.StateDependentNoiseDistribution(shape["d"], full_std=shape["full_std"], use_expln=shape["use_expln"], squash_output=shape["squash"], epsilon=shape["epsilon"])
        dist.proba_distribution_net(latent_dim=shape["k"])

    def args(P):
        if fam == "gsde":  # the policy re-draws the exploration matrices (reset_noise) in the parameters' dtype
            dist.sample_weights(t64(th, P["log_std"]), batch_size=len(P["mean"]))
        if fam in ("gauss", "squashed"):
            return (t64(th, P["mean"]), t64(th, P["log_std"]))
        if fam == "gsde":
            return (t64(th, P["mean"]), t64(th, P["log_std"]), t64(th, P["latent"]))
        return (t64(th, P["logits"]),)

    def act_tensor(a):
        return th.tensor(a, dtype=th.int64) if fam in ("categorical", "multicat") else t64(th, a)

    P, n_goals, trace = None, 0, []
    for step, op in enumerate(c["ops"]):
        name = op[0]
        trace.append(name)
        if name == "proba":
            P = op[1]
            dist.proba_distribution(*args(P))
        elif name == "sample":
            dist.sample()
        elif name == "mode":
            dist.mode()
        elif name == "get_actions":
            dist.get_actions(deterministic=op[1])
        elif name == "actions_from_params":
            P = op[1]
            dist.actions_from_params(*args(P), deterministic=op[2])
        elif name == "log_prob_from_params":
            P = op[1]
            a2, lp2 = dist.log_prob_from_params(*args(P))
            a2l, lp2l = a2.tolist(), lp2.reshape(-1).tolist()
            squashed_fam = fam == "squashed" or (fam == "gsde" and shape["squash"])
            if not squashed_fam or all(abs(x) < 1 - 1e-6 for row in a2l for x in (row if isinstance(row, list) else [row])):
                for r in range(len(lp2l)):
                    f, _, _ = _hist_row(fam, shape, P, r)
                    if fam in ("squashed",) or (fam == "gsde" and shape["squash"]):
                        if any(abs(math.atanh(x)) > 3 for x in a2l[r]):
                            continue
                        out.oracle(f"{fam}-history-log-prob-from-params", f(a2l[r]), lp2l[r], rel=1e-6)
                    else:
                        out.oracle(f"{fam}-history-log-prob-from-params", f(a2l[r]), lp2l[r])
        elif name == "entropy":
            ent = dist.entropy()
            if ent is not None:
                el = ent.reshape(-1).tolist()
                for r in range(len(el)):
                    _, _, fe = _hist_row(fam, shape, P, r)
                    out.oracle(f"{fam}-history-entropy", fe(), el[r])
        else:
            acts = op[1]
            lp = dist.log_prob(act_tensor(acts)).reshape(-1).tolist()
            pb = len(P["mean"]) if "mean" in P else len(P["logits"])
            if len(lp) != len(acts):
                out.check(False, f"oracle-{fam}-history-logprob-shape", f"log_prob returned {len(lp)} values for {len(acts)} actions")
                continue
            for r in range(len(acts)):
                f, g, _ = _hist_row(fam, shape, P, r if pb > 1 else 0)
                want = f(acts[r])
                out.checks += 1
                if not (math.isfinite(lp[r]) and close(want, lp[r], 1e-8)):
                    out.problems.append((f"oracle-{fam}-history-logprob-not-at-given-actions",
                                         f"after {trace}: log_prob(actions)[{r}] = {lp[r]!r}, log-probability of the GIVEN action {acts[r]} under the current parameters = {want!r}"))
                if n_goals < 3 and math.isfinite(lp[r]):
                    n_goals += 1
                    out.goal(f"{fam}-history-logprob", g(acts[r]), lp[r])


RUNNERS = {"gauss": run_gauss, "squashed": run_squashed, "categorical": run_categorical, "multicat": run_multicat, "bernoulli": run_bernoulli, "gsde": run_gsde}


# ---------------------------------------------------------------- whole-distribution oracles (fixed configurations)
def run_integrals(out):
    """1-D: exp(log_prob) integrates to one in action space (midpoint rule on a tanh-spaced grid)"""
    th, D = _imports()
    N = 6000
    for mu, ls in [(0.0, 0.0), (0.7, -0.5), (-1.0, -1.5), (0.3, 0.3)]:
        sigma = math.exp(ls)
        lo, hi = mu - 9 * sigma, mu + 9 * sigma
        du = (hi - lo) / N
        u = t64(th, [[lo + (i + 0.5) * du] for i in range(N)])
        mean_t, ls_t = th.full((N, 1), mu, dtype=th.float64), t64(th, [ls])
        g = D.DiagGaussianDistribution(1).proba_distribution(mean_t, ls_t)
        out.oracle("gauss-density-integrates-to-one", 1.0, float((g.log_prob(u).exp() * du).sum()), rel=1e-6)
        sq = D.SquashedDiagGaussianDistribution(1).proba_distribution(mean_t, ls_t)
        a = th.tanh(u)
        da = (1 - a ** 2).squeeze(1) * du      # da = (1 - a^2) du on the tanh-spaced grid
        out.oracle("squashed-density-integrates-to-one", 1.0, float((sq.log_prob(a).exp() * da).sum()), rel=2e-4)
        sd = D.StateDependentNoiseDistribution(1, squash_output=True)
        sd.proba_distribution_net(latent_dim=1)
        sd.proba_distribution(mean_t, t64(th, [[ls]]), th.ones(N, 1, dtype=th.float64))
        out.oracle("gsde-squashed-density-integrates-to-one", 1.0, float((sd.log_prob(a).exp() * da).sum()), rel=2e-4)



# ---------------------------------------------------------------- round 4: factory, layer constructors, KL, float32, gSDE options
def run_api_audit(out, rng):
    th, D = _imports()
    import numpy as np
    from gymnasium import spaces

    # make_proba_distribution: space type -> distribution class / sizes; rejected inputs
    cases = [(spaces.Box(-1, 1, (3,), dtype=np.float32), False, {}, D.DiagGaussianDistribution, ("action_dim", 3)),
             (spaces.Box(-1, 1, (2,), dtype=np.float32), True, {"squash_output": True, "use_expln": True}, D.StateDependentNoiseDistribution, ("action_dim", 2)),
             (spaces.Discrete(5), False, {}, D.CategoricalDistribution, ("action_dim", 5)),
             (spaces.MultiDiscrete([2, 4, 3]), False, {}, D.MultiCategoricalDistribution, ("action_dims", [2, 4, 3])),
             (spaces.MultiBinary(4), False, {}, D.BernoulliDistribution, ("action_dims", 4))]
    for sp, sde, kw, cls, (attr, val) in cases:
        d = D.make_proba_distribution(sp, use_sde=sde, dist_kwargs=kw or None)
        got = getattr(d, attr, None)
        got = [int(x) for x in got] if isinstance(val, list) else got
        out.check(type(d) is cls and got == val, "oracle-factory-wrong-distribution", f"make_proba_distribution({sp}, use_sde={sde}) -> {type(d).__name__} with {attr}={got}, expected {cls.__name__} {val}")
        if kw:
            out.check(d.use_expln is True and d.bijector is not None, "oracle-factory-drops-dist-kwargs", "dist_kwargs were not passed to the distribution")
    for bad, exc in ((spaces.MultiBinary([2, 2]), AssertionError), (spaces.Dict({"a": spaces.Discrete(2)}), NotImplementedError)):
        try:
            D.make_proba_distribution(bad)
            out.check(False, "oracle-factory-accepts-unsupported-space", f"make_proba_distribution({bad}) did not raise")
        except exc:
            out.checks += 1
    # proba_distribution_net: output sizes and log_std initialisation
    lat = 5
    m, ls = D.DiagGaussianDistribution(3).proba_distribution_net(lat, log_std_init=-0.5)
    out.check(m.in_features == lat and m.out_features == 3 and tuple(ls.shape) == (3,) and bool((ls == -0.5).all()) and ls.requires_grad, "oracle-net-gaussian", "DiagGaussian layer / log_std parameter have wrong sizes or initial value")
    out.check(D.CategoricalDistribution(4).proba_distribution_net(lat).out_features == 4, "oracle-net-categorical", "Categorical logits layer size")
    out.check(D.MultiCategoricalDistribution([2, 3, 4]).proba_distribution_net(lat).out_features == 9, "oracle-net-multicategorical", "MultiCategorical logits layer must have sum(action_dims) outputs")
    out.check(D.BernoulliDistribution(6).proba_distribution_net(lat).out_features == 6, "oracle-net-bernoulli", "Bernoulli logits layer size")
    for full in (True, False):
        g = D.StateDependentNoiseDistribution(2, full_std=full, learn_features=rng.random() < 0.5)
        mnet, lsd = g.proba_distribution_net(latent_dim=lat, log_std_init=-1.0, latent_sde_dim=3)
        ok = mnet.in_features == lat and mnet.out_features == 2 and tuple(lsd.shape) == ((3, 2) if full else (3, 1)) and bool((lsd == -1.0).all()) and g.latent_sde_dim == 3
        ok = ok and tuple(g.exploration_mat.shape) == (3, 2) and tuple(g.get_std(lsd).shape) == (3, 2)
        out.check(ok, "oracle-net-gsde", f"gSDE layers with a separate latent_sde_dim (full_std={full}) have wrong shapes")
        # a separate sde latent: log_prob at the mode equals the Gaussian normaliser with variance latent^2 . std^2 + eps
        x = t64(th, [[0.5, -1.0, 2.0]])
        mean = t64(th, [[0.1, -0.2]])
        lsd64 = lsd.detach().double()
        g.sample_weights(lsd64, batch_size=1)
        g.proba_distribution(mean, lsd64, x)
        var = sum(v * v for v in (0.5, -1.0, 2.0)) * math.exp(-1.0) ** 2 + 1e-6
        out.oracle("gsde-separate-latent-logprob", 2 * (-0.5 * math.log(2 * math.pi * var)), float(g.log_prob(g.mode())))
    # kl_divergence against the closed forms
    p_, q_ = D.DiagGaussianDistribution(2), D.DiagGaussianDistribution(2)
    mp, lp_, mq, lq = [[0.3, -1.0]], [-0.5, 0.2], [[-0.2, 0.4]], [0.1, -0.3]
    p_.proba_distribution(t64(th, mp), t64(th, lp_))
    q_.proba_distribution(t64(th, mq), t64(th, lq))
    want = sum(lq[j] - lp_[j] + (math.exp(2 * lp_[j]) + (mp[0][j] - mq[0][j]) ** 2) / (2 * math.exp(2 * lq[j])) - 0.5 for j in range(2))
    # (for the diagonal Gaussian the wrapper returns torch's per-dimension KL terms; their sum is KL of the product)
    out.oracle("kl-gaussian", want, float(D.kl_divergence(p_, q_).sum()))
    lp1, lq1 = [0.5, -1.0, 2.0], [0.0, 0.3, -0.7]
    pc, qc = D.CategoricalDistribution(3).proba_distribution(t64(th, [lp1])), D.CategoricalDistribution(3).proba_distribution(t64(th, [lq1]))
    zp, zq = o_lse(lp1), o_lse(lq1)
    out.oracle("kl-categorical", sum(math.exp(a - zp) * ((a - zp) - (b_ - zq)) for a, b_ in zip(lp1, lq1)), float(D.kl_divergence(pc, qc)[0]))
    pm, qm = D.MultiCategoricalDistribution(np.array([3, 3])).proba_distribution(t64(th, [lp1 + lq1])), D.MultiCategoricalDistribution([3, 3]).proba_distribution(t64(th, [lq1 + lp1]))
    k1 = sum(math.exp(a - zp) * ((a - zp) - (b_ - zq)) for a, b_ in zip(lp1, lq1))
    k2 = sum(math.exp(a - zq) * ((a - zq) - (b_ - zp)) for a, b_ in zip(lq1, lp1))
    out.oracle("kl-multicategorical", k1 + k2, float(D.kl_divergence(pm, qm)[0]))
    # float32 parameters (what the policies pass): same numbers within float32 accuracy
    m32, l32 = th.tensor([[0.3, -1.0]], dtype=th.float32), th.tensor([-0.5, 0.2], dtype=th.float32)
    a32 = th.tensor([[0.1, 0.5]], dtype=th.float32)
    for name, dist, f in (("gauss", D.DiagGaussianDistribution(2), lambda a: sum(o_normal(mu, math.exp(s_), x) for mu, s_, x in zip([0.3, -1.0], [-0.5, 0.2], a))),
                          ("squashed", D.SquashedDiagGaussianDistribution(2), lambda a: sum(o_normal(mu, math.exp(s_), math.atanh(x)) - math.log(1 - x * x + 1e-6) for mu, s_, x in zip([0.3, -1.0], [-0.5, 0.2], a)))):
        dist.proba_distribution(m32, l32)
        lp = dist.log_prob(a32)
        out.check(lp.dtype == th.float32, f"oracle-{name}-float32-dtype", "log_prob of float32 parameters is not float32")
        out.oracle(f"{name}-float32-logprob", f([float(np.float32(0.1)), 0.5]), float(lp[0]), rel=1e-5)



# ---------------------------------------------------------------- squashed actions close to +-1 (third-round seed)
def run_near_boundary(out, rng):
    """both squashed families with actions tanh(u), |u| up to 16 in float64 (|a| up to 1 - 1e-13) and float32 actions up to
    the last float below 1: log_prob at the GIVEN action vs the model (Interval goals) and the float64 oracle, plus a density
    RATIO between two distributions that differ only in their mean (Jacobian and epsilon cancel)"""
    th, D = _imports()
    import numpy as np

    eps = 1e-6
    variants = [("squashed", None)] + [("gsde", (full, expln)) for full in (True, False) for expln in (True, False)]
    for fam, opt in variants:
        d, k, b = 2, 2, 4
        us = [[rng.choice([-1, 1]) * rng.choice([2.0, 5.0, 7.5, 9.0, 12.0, rng.uniform(7.3, 16.0), 16.0]) for _ in range(d)] for _ in range(b)]
        acts = [[min(max(math.tanh(u), -(1 - 1e-13)), 1 - 1e-13) for u in row] for row in us]
        mean1 = [[rng.uniform(-2, 2) for _ in range(d)] for _ in range(b)]
        mean2 = [[m + rng.choice([-1.0, 0.5, 1.5]) for m in row] for row in mean1]
        if fam == "squashed":
            ls = [rng.uniform(-1, 1.5) for _ in range(d)]
            sig = [[math.exp(s_) for s_ in ls] for _ in range(b)]

            def make(mean, dtype):
                dist = D.SquashedDiagGaussianDistribution(d, epsilon=eps)
                return dist.proba_distribution(th.tensor(mean, dtype=dtype), th.tensor(ls, dtype=dtype))

            expr = lambda r: f"squashed_logprob {R(FEPS)} {R(eps)} {gp(mean1[r], ls)} {RL(acts[r])}"  # noqa: E731
        else:
            full, expln = opt
            lsd = [[rng.choice([rng.uniform(-1, 1.5), 0.0]) for _ in range(d if full else 1)] for _ in range(k)]
            lat = [[rng.uniform(-2, 2) for _ in range(k)] for _ in range(b)]
            ls_of = lambda i, j: lsd[i][j if full else 0]  # noqa: E731
            std = [[(o_expln(ls_of(i, j), eps) if expln else math.exp(ls_of(i, j))) for j in range(d)] for i in range(k)]
            sig = [[math.sqrt(sum(lat[r][i] ** 2 * std[i][j] ** 2 for i in range(k)) + eps) for j in range(d)] for r in range(b)]

            def make(mean, dtype):
                dist = D.StateDependentNoiseDistribution(d, full_std=full, use_expln=expln, squash_output=True, epsilon=eps)
                dist.proba_distribution_net(latent_dim=k)
                l_t = th.tensor(lsd, dtype=dtype)
                dist.sample_weights(l_t, batch_size=b)
                return dist.proba_distribution(th.tensor(mean, dtype=dtype), l_t, th.tensor(lat, dtype=dtype))

            be = "true" if expln else "false"
            cols = "[" + "; ".join("[" + "; ".join(f"gsde_get_std {be} {R(eps)} {R(ls_of(i, j))}" for i in range(k)) + "]" for j in range(d)) + "]"
            expr = lambda r: f"gsde_logprob_squashed {R(FEPS)} {R(eps)} {RL(lat[r])} {RL(mean1[r])} {cols} {RL(acts[r])}"  # noqa: E731
        name = fam if opt is None else f"gsde-full{int(opt[0])}-expln{int(opt[1])}"
        # float64
        a_t = t64(th, acts)
        lp1, lp2 = make(mean1, th.float64).log_prob(a_t).tolist(), make(mean2, th.float64).log_prob(a_t).tolist()
        for r in range(b):
            u = [math.atanh(x) for x in acts[r]]
            want = sum(o_normal(mean1[r][j], sig[r][j], u[j]) - math.log(1 - acts[r][j] ** 2 + eps) for j in range(d))
            out.checks += 1
            if not (math.isfinite(lp1[r]) and close(want, lp1[r], 1e-8)):
                out.problems.append((f"oracle-{name}-logprob-near-boundary", f"{name}: log_prob({acts[r]}) = {lp1[r]!r} (pre-squash {u}), log density at the GIVEN action (with the code's +epsilon) = {want!r}; "
                                                                            f"mean {mean1[r]}, std {sig[r]}"))
            ratio = sum((-(u[j] - mean1[r][j]) ** 2 + (u[j] - mean2[r][j]) ** 2) / (2 * sig[r][j] ** 2) for j in range(d))
            out.checks += 1
            if not close(ratio, lp1[r] - lp2[r], 1e-7):
                out.problems.append((f"oracle-{name}-density-ratio-near-boundary", f"{name}: log_prob_mean1(a) - log_prob_mean2(a) = {lp1[r] - lp2[r]!r} at a = {acts[r]}, Gaussian log-density ratio at atanh(a) = {ratio!r}"))
            if r < 2 and math.isfinite(lp1[r]):
                out.goal(f"{'squashed' if fam == 'squashed' else 'gsde'}-logprob-near-boundary", expr(r), lp1[r])
        # float32: actions up to the last float below 1; the clamp at 1 - finfo(float32).eps is part of the model
        f32 = np.float32
        feps32 = float(np.finfo(np.float32).eps)
        a32 = [[float(min(max(f32(math.tanh(min(abs(u_), 9.0)) * (1 if u_ > 0 else -1)), -np.nextafter(f32(1), f32(0))), np.nextafter(f32(1), f32(0)))) for u_ in row] for row in us]
        lp32 = make(mean1, th.float32).log_prob(th.tensor(a32, dtype=th.float32)).tolist()
        for r in range(b):
            ac = [min(max(x, -1 + feps32), 1 - feps32) for x in a32[r]]
            u = [math.atanh(x) for x in ac]
            corr_at = a32[r] if fam == "squashed" else ac   # Squashed uses the given action, the gSDE bijector tanh(inverse(a))
            want = sum(o_normal(float(f32(mean1[r][j])), sig[r][j], u[j]) - math.log(1 - corr_at[j] ** 2 + eps) for j in range(d))
            out.checks += 1
            if not (math.isfinite(lp32[r]) and abs(want - lp32[r]) <= 0.05 + 2e-3 * abs(want)):
                out.problems.append((f"oracle-{name}-float32-logprob-near-boundary", f"{name}: float32 log_prob({a32[r]}) = {lp32[r]!r}, model with the clamp at 1 - {feps32} = {want!r}"))



# ---------------------------------------------------------------- helpers called with NEW parameters on a USED object; actions exactly at +-1
def run_helper_reuse(out, rng):
    """actions_from_params / log_prob_from_params with NEW parameters on a distribution object that already holds OTHER
    parameters must behave like a fresh object given the new parameters (all six classes); the default of `deterministic`
    is stochastic sampling"""
    th, D = _imports()

    def objs():
        g = D.StateDependentNoiseDistribution(2, squash_output=False)
        g.proba_distribution_net(latent_dim=2)
        gs = D.StateDependentNoiseDistribution(2, squash_output=True)
        gs.proba_distribution_net(latent_dim=2)
        return {"gauss": D.DiagGaussianDistribution(2), "squashed": D.SquashedDiagGaussianDistribution(2), "categorical": D.CategoricalDistribution(3),
                "multicat": D.MultiCategoricalDistribution([2, 3]), "bernoulli": D.BernoulliDistribution(3), "gsde": g, "gsde-squash": gs}

    def params(fam, b):
        if fam in ("gauss", "squashed"):
            return (t64(th, [[rng.uniform(-2, 2) for _ in range(2)] for _ in range(b)]), t64(th, [rng.uniform(-1, 1) for _ in range(2)]))
        if fam.startswith("gsde"):
            return (t64(th, [[rng.uniform(-2, 2) for _ in range(2)] for _ in range(b)]), t64(th, [[rng.uniform(-1, 1) for _ in range(2)] for _ in range(2)]),
                    t64(th, [[rng.uniform(-2, 2) for _ in range(2)] for _ in range(b)]))
        n = {"categorical": 3, "multicat": 5, "bernoulli": 3}[fam]
        return (t64(th, [[rng.uniform(-3, 3) for _ in range(n)] for _ in range(b)]),)

    used, fresh = objs(), objs()
    for fam in used:
        A, B = params(fam, 3), params(fam, rng.choice([1, 3, 4]))
        if fam.startswith("gsde"):
            for o in (used[fam], fresh[fam]):
                th.manual_seed(3)
                o.sample_weights(B[1], batch_size=len(B[0]))
        used[fam].proba_distribution(*A)
        used[fam].get_actions()
        a_used = used[fam].actions_from_params(*B, deterministic=True)
        a_fresh = fresh[fam].proba_distribution(*B).mode()
        out.check(a_used.shape == a_fresh.shape and bool(th.equal(a_used, a_fresh)), f"oracle-{fam}-actions-from-params-uses-stale-parameters",
                  f"{fam}: actions_from_params(NEW parameters, deterministic=True) on an object holding other parameters returned {a_used.tolist()}, a fresh object gives {a_fresh.tolist()}")
        used[fam].proba_distribution(*A)
        a2, lp2 = used[fam].log_prob_from_params(*B)
        if fam in ("squashed",):
            ref = fresh[fam].proba_distribution(*B).log_prob(a2, used[fam].gaussian_actions)
        else:
            ref = fresh[fam].proba_distribution(*B).log_prob(a2)
        ok = lp2.shape == ref.shape and bool(th.allclose(lp2, ref, rtol=1e-9, atol=1e-9)) if fam != "gsde-squash" else (lp2.shape == ref.shape and bool(th.allclose(lp2, ref, rtol=1e-6, atol=1e-6)))
        out.check(ok, f"oracle-{fam}-log-prob-from-params-uses-stale-parameters",
                  f"{fam}: log_prob_from_params(NEW parameters) on an object holding other parameters returned log-probs {lp2.tolist()}, the returned actions have {ref.tolist()} under the new parameters")
    # default `deterministic` is False: the sample-and-log-prob helpers draw samples (6-sigma frequency test)
    N = 6000
    th.manual_seed(11)
    lg = t64(th, [[0.0, 1.0, -1.0]]).repeat(N, 1)
    for fam, dist, p1 in (("categorical", D.CategoricalDistribution(3), math.exp(1.0 - o_lse([0.0, 1.0, -1.0]))), ("bernoulli", D.BernoulliDistribution(3), 1 / (1 + math.exp(-1.0))),
                          ("multicat", D.MultiCategoricalDistribution([3]), math.exp(1.0 - o_lse([0.0, 1.0, -1.0])))):
        acts, _ = dist.log_prob_from_params(lg)
        col = acts[:, 1] if fam == "bernoulli" else (acts if fam == "categorical" else acts[:, 0])
        f = float((col == 1).double().mean())
        out.check(abs(f - p1) <= 6 * math.sqrt(p1 * (1 - p1) / N), f"oracle-{fam}-helper-does-not-sample", f"{fam}: log_prob_from_params returns action 1 with frequency {f:.4f}, probability {p1:.4f} (helper not sampling?)")
        acts = dist.actions_from_params(lg)
        col = acts[:, 1] if fam == "bernoulli" else (acts if fam == "categorical" else acts[:, 0])
        f = float((col == 1).double().mean())
        out.check(abs(f - p1) <= 6 * math.sqrt(p1 * (1 - p1) / N), f"oracle-{fam}-helper-does-not-sample", f"{fam}: actions_from_params() returns action 1 with frequency {f:.4f}, probability {p1:.4f}")
    # actions exactly at +-1 (reachable by tanh saturation): finite, and equal to the model with the clamp at 1 - finfo.eps
    import numpy as np

    for dtype, feps in ((th.float64, FEPS), (th.float32, float(np.finfo(np.float32).eps))):
        for sign in (1.0, -1.0):
            inv = D.TanhBijector.inverse(th.tensor([sign], dtype=dtype))
            want_u = sign * math.atanh(1 - feps)
            out.check(bool(th.isfinite(inv).all()) and abs(float(inv[0]) - want_u) <= 1e-3 * abs(want_u), "oracle-tanh-inverse-at-boundary",
                      f"TanhBijector.inverse({sign}) in {dtype} = {inv.tolist()}, expected atanh(+-(1 - {feps})) = {want_u}")
            mean, ls = th.tensor([[0.3, -0.2]], dtype=dtype), th.tensor([0.2, -0.1], dtype=dtype)
            a = th.tensor([[sign, 0.5]], dtype=dtype)
            sq = D.SquashedDiagGaussianDistribution(2).proba_distribution(mean, ls)
            lp = float(sq.log_prob(a)[0])
            want = (o_normal(float(mean[0, 0]), math.exp(float(ls[0])), want_u) - math.log(1 - 1.0 + 1e-6)
                    + o_normal(float(mean[0, 1]), math.exp(float(ls[1])), math.atanh(0.5)) - math.log(1 - 0.25 + 1e-6))
            out.check(math.isfinite(lp) and abs(lp - want) <= 2e-3 * abs(want) + 1e-6, "oracle-squashed-logprob-at-boundary",
                      f"SquashedDiagGaussian.log_prob([{sign}, 0.5]) in {dtype} = {lp!r}, model with the clamp at 1 - finfo.eps = {want!r}")
            g = D.StateDependentNoiseDistribution(2, squash_output=True)
            g.proba_distribution_net(latent_dim=1)
            l_t = th.tensor([[0.0, 0.0]], dtype=dtype)
            g.sample_weights(l_t, batch_size=1)
            g.proba_distribution(mean, l_t, th.ones(1, 1, dtype=dtype))
            lpg = float(g.log_prob(a)[0])
            sd = math.sqrt(1.0 + 1e-6)
            ac = 1 - feps
            wantg = (o_normal(float(mean[0, 0]), sd, want_u) - math.log(1 - ac * ac + 1e-6) + o_normal(float(mean[0, 1]), sd, math.atanh(0.5)) - math.log(1 - 0.25 + 1e-6))
            out.check(math.isfinite(lpg) and abs(lpg - wantg) <= 2e-3 * abs(wantg) + 1e-6, "oracle-gsde-logprob-at-boundary",
                      f"gSDE(squash).log_prob([{sign}, 0.5]) in {dtype} = {lpg!r}, model with the clamp at 1 - finfo.eps = {wantg!r}")


def run_statistics(out, seed):
    """samples follow the density: 6-sigma moment / frequency tests on fixed configurations"""
    th, D = _imports()
    N = 20000
    th.manual_seed(seed)
    six = 6.0

    def zcheck(z, label):
        z = z.reshape(-1)
        n = z.numel()
        out.check(abs(float(z.mean())) <= six / math.sqrt(n) and abs(float((z ** 2).mean()) - 1) <= six * math.sqrt(2.0 / n),
                  f"oracle-{label}-sample-law", f"{label}: standardised samples have mean {float(z.mean()):.4f}, second moment {float((z ** 2).mean()):.4f} (n={n})")

    mean, ls = t64(th, [[0.5, -1.0]]).repeat(N, 1), t64(th, [-1.0, 0.5])
    g = D.DiagGaussianDistribution(2).proba_distribution(mean, ls)
    s = g.sample()
    zcheck((s - mean) / ls.exp(), "gauss")
    nl = -g.log_prob(s)
    out.check(abs(float(nl.mean()) - float(g.entropy()[0])) <= six * float(nl.std()) / math.sqrt(N), "oracle-gauss-entropy-vs-samples", "mean of -log_prob(sample) differs from entropy()")
    sq = D.SquashedDiagGaussianDistribution(2).proba_distribution(mean, ls)
    s = sq.sample()
    inner = (s.abs() < 1 - 1e-12).all(dim=1)
    zcheck(((D.TanhBijector.inverse(s) - mean) / ls.exp())[inner], "squashed")
    lg = t64(th, [[0.0, 1.0, -1.0, 2.5]]).repeat(N, 1)
    cat = D.CategoricalDistribution(4).proba_distribution(lg)
    s = cat.sample()
    probs = [math.exp(x - o_lse([0.0, 1.0, -1.0, 2.5])) for x in [0.0, 1.0, -1.0, 2.5]]
    for kk, p in enumerate(probs):
        f = float((s == kk).double().mean())
        out.check(abs(f - p) <= six * math.sqrt(p * (1 - p) / N), "oracle-categorical-sample-law", f"frequency of {kk} is {f:.4f}, probability {p:.4f}")
    mc = D.MultiCategoricalDistribution([2, 2]).proba_distribution(lg)
    s = mc.sample()
    for i, pair in enumerate([[0.0, 1.0], [-1.0, 2.5]]):
        p = math.exp(pair[1] - o_lse(pair))
        f = float((s[:, i] == 1).double().mean())
        out.check(abs(f - p) <= six * math.sqrt(p * (1 - p) / N), "oracle-multicat-sample-law", f"dim {i}: frequency of 1 is {f:.4f}, probability {p:.4f}")
    be = D.BernoulliDistribution(4).proba_distribution(lg)
    s = be.sample()
    for i, l in enumerate([0.0, 1.0, -1.0, 2.5]):
        p = 1 / (1 + math.exp(-l))
        f = float(s[:, i].mean())
        out.check(abs(f - p) <= six * math.sqrt(p * (1 - p) / N), "oracle-bernoulli-sample-law", f"dim {i}: frequency of 1 is {f:.4f}, probability {p:.4f}")
    # gSDE: one exploration matrix per row -> independent rows; noise variance = latent^2 @ std^2
    sd = D.StateDependentNoiseDistribution(2, full_std=True, use_expln=True, squash_output=False)
    sd.proba_distribution_net(latent_dim=2)
    lsd = t64(th, [[-0.5, 0.4], [0.2, -1.0]])
    lat = t64(th, [[1.0, -0.5]]).repeat(N, 1)
    m2 = t64(th, [[0.1, -0.2]]).repeat(N, 1)
    sd.sample_weights(lsd, batch_size=N)
    sd.proba_distribution(m2, lsd, lat)
    s = sd.sample()
    var = (lat ** 2) @ (sd.get_std(lsd) ** 2)
    zcheck((s - m2) / var.sqrt(), "gsde")


# ---------------------------------------------------------------- the known finding (fixed corpus input)
def run_mode_finding(case, out):
    th, D = _imports()
    mean_t, ls_t = t64(th, case["mean"]), t64(th, case["log_std"])
    res = []
    for name, dist in (("SquashedDiagGaussianDistribution", D.SquashedDiagGaussianDistribution(len(case["log_std"]))),):
        dist.proba_distribution(mean_t, ls_t)
        mode = dist.mode()
        lp_mode = dist.log_prob(mode, dist.gaussian_actions)
        other = th.tanh(t64(th, case["other_pre_squash"]))
        lp_other = dist.log_prob(other)
        res.append((name, mode.tolist(), lp_mode.tolist(), other.tolist(), lp_other.tolist()))
        if bool((lp_other > lp_mode + 1e-9).any()):
            out.problems.append((KNOWN_MODE_SIG,
                                 f"{name}: mean={case['mean']} log_std={case['log_std']}: log_prob(mode()={mode.tolist()}) = {lp_mode.tolist()} < log_prob({other.tolist()}) = {lp_other.tolist()}; "
                                 "mode() = tanh(mean) is the image of the Gaussian mode (the median), not the maximiser of the action-space density"))
    g = D.StateDependentNoiseDistribution(1, squash_output=True)
    g.proba_distribution_net(latent_dim=1)
    g.proba_distribution(mean_t[:, :1], t64(th, [[case["log_std"][0]]]), th.ones(mean_t.shape[0], 1, dtype=th.float64))
    m = g.mode()
    other = th.tanh(t64(th, case["other_pre_squash"]))[:, :1]
    if bool((g.log_prob(other) > g.log_prob(m) + 1e-9).any()):
        out.problems.append((KNOWN_MODE_SIG, f"StateDependentNoiseDistribution(squash_output=True): log_prob(mode()) = {g.log_prob(m).tolist()} < log_prob({other.tolist()}) = {g.log_prob(other).tolist()}"))
    out.checks += 2
    return res


# ---------------------------------------------------------------- Coq goals
def coq_check_goals(name, goals, shard=60, procs=4):
    """each goal is proved by `c14` and closed with Qed; returns the set of indices that do not check"""
    from concurrent.futures import ThreadPoolExecutor

    os.makedirs(common.GEN, exist_ok=True)
    shards = [list(range(i, min(i + shard, len(goals)))) for i in range(0, len(goals), shard)]
    shard_errors = []

    def write(k, idxs, tolerant):
        path = os.path.join(common.GEN, f"Cases_{name}_{k}.v")
        with open(path, "w") as fh:
            fh.write(HEADER)
            for i in idxs:
                tac = goals[i][2].get("tac", "c14")
                if tolerant:
                    fh.write(f"Goal {goals[i][1]}.\nProof. first [ solve [{tac}] | idtac \"C14FAIL {i}\" ]. Abort.\n")
                else:
                    fh.write(f"Goal {goals[i][1]}.\nProof. {tac}. Qed.\n")
        return path

    def clean(path):
        for ext in (".vo", ".vok", ".vos", ".glob"):
            try:
                os.remove(path[:-2] + ext)
            except OSError:
                pass
        try:
            os.remove(os.path.join(os.path.dirname(path), "." + os.path.basename(path)[:-2] + ".aux"))
        except OSError:
            pass

    def one(k):
        import time as _time

        idxs = shards[k]
        for attempt in range(3):
            path = write(k, idxs, False)
            rc, so, se, _ = common.coqc_file(path, timeout=900)
            clean(path)
            if rc == 0:
                return set()
            path = write(k, idxs, True)
            rc, so, se, _ = common.coqc_file(path, timeout=900)
            clean(path)
            bad = {int(m) for m in re.findall(r"C14FAIL (\d+)", so + se)}
            if rc == 0 and bad:
                return bad
            # the file itself did not compile although every goal is guarded: a library was being rebuilt
            # concurrently (inconsistent .vo) or coqc was killed - wait and retry before calling it undecided
            shard_errors.append((k, attempt, (se or "")[-400:]))
            _time.sleep(6)
        return set(idxs)

    failed = set()
    with ThreadPoolExecutor(max_workers=procs) as ex:
        for part in ex.map(one, range(len(shards))):
            failed |= part
    coq_check_goals.last_errors = shard_errors
    return failed


# ---------------------------------------------------------------- driver
FIXED_CASES = [
    # boundary inputs that must stay in every run
    {"family": "gsde", "id": -1, "b": 2, "seed": 11, "k": 2, "d": 2, "full_std": True, "use_expln": True, "squash": False, "epsilon": 1e-6,
     "log_std": [[0.0, 0.5], [-0.5, 2.0]], "latent": [[1.0, -2.0], [0.0, 0.0]], "mean": [[0.1, -0.2], [0.3, 0.4]], "actions": [[0.5, 0.5], [0.3, 0.4]]},
    {"family": "squashed", "id": -2, "b": 2, "seed": 12, "d": 2, "log_std": [-5.0, 2.0], "mean": [[0.0, 3.0], [-3.0, 0.5]], "actions": [[0.9999, -0.9999], [0.0, 0.999]], "epsilon": 1e-6},
    {"family": "bernoulli", "id": -3, "b": 1, "seed": 13, "n": 3, "logits": [[0.0, 30.0, -30.0]], "actions": [[1.0, 0.0, 1.0]]},
    {"family": "gauss", "id": -4, "b": 0, "seed": 14, "d": 3, "log_std": [-5.0, 0.0, 2.0], "mean": [0.5, -0.5, 1.0], "actions": [0.51, 0.0, -3.0]},
]
MODE_FINDING_CASE = {"family": "squashed-mode", "mean": [[1.0, 1.0]], "log_std": [0.0, 0.0], "other_pre_squash": [[2.0, 2.0]]}


def run_cases(cases):
    outs = []
    for c in cases:
        out = Out(c)
        try:
            if c["family"] == "squashed-mode":
                run_mode_finding(c, out)
            elif c["family"] == "history":
                run_history(c, out)
            else:
                RUNNERS[c["family"]](c, out)
        except Exception as e:  # the API refused a valid input or crashed
            out.problems.append((f"oracle-{c['family']}-exception", f"{type(e).__name__}: {e}"))
        outs.append(out)
    return outs


def main():
    chk = Check("C14", groups=["dist"])
    chk.build_props()
    from harness import covtrace

    _cov = covtrace.start({"stable_baselines3/common/distributions.py": None}) if covtrace.enabled() else None
    n_cases = 56 if chk.tier == "quick" else 420
    Out.ROW_CAP = 2 if chk.tier == "quick" else 4
    Out.HEAVY_CAP = 1 if chk.tier == "quick" else 2
    cases = [dict(c) for c in FIXED_CASES]
    corpus = os.path.join(common.VERIF, "corpus", "C14.jsonl")
    if os.path.exists(corpus):
        cases += [json.loads(l) for l in open(corpus) if l.strip()]
    n_corpus = len(cases)
    for i in range(n_cases):
        cases.append(gen_case(chk.rng, i))
    for i in range(28 if chk.tier == "quick" else 400):
        cases.append(gen_history(chk.rng, i))
    import time as _t
    t_py = _t.time()
    outs = run_cases(cases)
    glob = Out({"family": "global"})
    try:
        run_integrals(glob)
        run_api_audit(glob, chk.rng)
        run_near_boundary(glob, chk.rng)
        run_helper_reuse(glob, chk.rng)
        run_statistics(glob, chk.seed)
    except Exception as e:
        glob.problems.append(("oracle-global-exception", f"{type(e).__name__}: {e}"))
    outs.append(glob)
    cases.append({"family": "global", "id": "integrals+statistics"})
    # Interval-checked correspondence
    goals, owner = [], []
    for k, o in enumerate(outs):
        for g in o.goals:
            goals.append(g)
            owner.append(k)
    chk.notes["python_phase_s"] = round(_t.time() - t_py, 1)
    t_coq = _t.time()
    failed = coq_check_goals("C14", goals, shard=max(40, -(-len(goals) // 4)) if chk.tier == "quick" else 150, procs=4)
    chk.notes["interval_phase_s"] = round(_t.time() - t_coq, 1)
    hist = {}
    for c in cases:
        hist[c["family"]] = hist.get(c["family"], 0) + 1
    ghist = {}
    for g in goals:
        ghist[g[0]] = ghist.get(g[0], 0) + 1
    reported = 0
    for k, o in enumerate(outs):
        bad_goals = [i for i in failed if owner[i] == k]
        if not o.problems and not bad_goals:
            continue
        known_here = [p for p in o.problems if p[0] == KNOWN_MODE_SIG]
        oracle_bad = [p for p in o.problems if p[0] != KNOWN_MODE_SIG]
        if known_here:   # the known finding is reported by its own signature and never uses up the report budget
            chk.violation(KNOWN_MODE_SIG, known_here[0][1], {"case": cases[k], "problems": known_here}, found_input=True)
        if not oracle_bad and not bad_goals:
            continue
        if reported >= 3:
            continue
        if oracle_bad:
            sig = oracle_bad[0][0]
            chk.violation(sig[len("oracle-"):] if sig.startswith("oracle-") else sig, "; ".join(m for _, m in oracle_bad[:3]),
                          {"case": cases[k], "problems": oracle_bad[:10], "interval_goals_failed": [goals[i][:2] for i in bad_goals[:5]]}, found_input=True)
        else:
            i = bad_goals[0]
            chk.violation("model-correspondence-" + goals[i][0],
                          f"Interval could not prove {goals[i][1][:300]} (implementation value {goals[i][2].get('impl')!r}); the textbook oracle accepts the implementation's value",
                          {"case": cases[k], "goal": goals[i][1], "correspondence": "harness/c14.py goals vs Model/Distributions.v"}, found_input=False)
        reported += 1
    chk.coverage["evaluations"] = len(goals) + sum(o.checks for o in outs)
    chk.coverage["traces_validated_against_impl"] = len(cases)
    nontriv = sum(1 for c in cases if c.get("b", 0) >= 2 or c.get("d", 0) >= 2 or c.get("n", 0) >= 3 or len(c.get("dims", [])) >= 2)
    chk.coverage["distinct_nontrivial"] = nontriv
    chk.coverage["rule"] = ("random parameter tensors in float64 (means +-3, log-stds -5..2 incl. 0 / extremes, logits up to +-30, batch 1-8 and un-batched, dims 1-6, squashed actions up to |a| = 1-1e-13 in float64 and up to the last float32 below 1, exactly +-1, "
                            "gSDE full_std/expln/squash, epsilons); every returned log_prob / entropy / std / sample entry becomes an Interval-checked Coq goal (rel 1e-9); "
                            "non-trivial = batch >= 2 or >= 2 action dimensions / >= 3 categories; evaluations = Coq goals + Python oracle checks")
    chk.notes["input_distribution"] = hist
    chk.notes["interval_goals"] = {"total": len(goals), "failed": len(failed), "by_kind": ghist, "shard_compile_retries": getattr(coq_check_goals, "last_errors", [])[:4]}
    chk.notes["corpus_cases"] = n_corpus
    chk.add_samples([{k: v for k, v in cases[i].items() if k not in ("id",)} for i in (n_corpus, n_corpus + 1)])
    chk.assumptions += [
        "float64 rounding of torch kernels is not modelled: goals compare at rel 1e-9 (abs 1e-9 below 1)",
        "torch Normal/Categorical/Bernoulli base formulas are compared, not proved to integrate to one (numerical integration oracle on fixed 1-D configurations only)",
        "'samples follow the density' is decided by the reparametrisation identity of the recorded torch draw and 6-sigma moment/frequency tests (20000 samples, fixed configurations)",
        "float32 results are compared with the float64 model at abs 0.05 + rel 2e-3 only (near-boundary block); exact float32 rounding is not modelled",
    ]
    if _cov is not None:
        chk.notes["branch_coverage"] = _cov.stop()
    return chk.finish()


def replay(path):
    d = json.load(open(path))
    case = d["replay"]["case"]
    if case.get("family") == "global":
        o = Out(case)
        run_integrals(o)
        run_statistics(o, d.get("seed", 0))
        outs = [o]
    else:
        outs = run_cases([case])
    goals = [g for o in outs for g in o.goals]
    failed = coq_check_goals("C14replay", goals, procs=2) if goals else set()
    print(json.dumps({"problems": outs[0].problems, "interval_goals": len(goals), "interval_goals_failed": [goals[i][1] for i in sorted(failed)][:5]}, indent=1))
    return 1 if (outs[0].problems or failed) else 0
