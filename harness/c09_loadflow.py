"""C09, build round 5: correspondence streams for Model.LoadFlow (BaseAlgorithm.load as a state transformer),
Model.SetParams (set_parameters, full decision) and the load_replay_buffer decision function.

Every attribute value is an opaque tag in the model (JOpaque id): the stored attribute i of the archive has id i+1, the
custom objects 500+j, the kwargs values 700+j, the given env 900, everything `_setup_model` re-creates 999.  The model's
prediction (which tag each attribute of the loaded model carries, or which guard raises) is compared with the real loaded
model: a stored tag must be deep-equal to the ORIGINAL model's attribute, a custom / kwargs tag must be that very object."""
from __future__ import annotations

import copy
import io
import json
import os
import shutil
import tempfile
import warnings

from harness.common import coq_bool, coq_list, coq_string, coq_Z

HEADER_EXTRA = """From SB3V Require Import Model.LoadFlow Model.SetParams.
Definition c9_code (r : option attr) : Z :=
  match r with
  | None => (-2)%Z
  | Some (AData (JOpaque i)) => i
  | Some (AData JNull) => (-1)%Z
  | Some (AData (JInt k)) => (-100 - k)%Z
  | Some (AData (JBool b)) => if b then (-11)%Z else (-10)%Z
  | Some (AModule _) => (-3)%Z
  | _ => (-4)%Z
  end.
Definition c9_err (e : load_error) : Z := match e with EPolicyKwargs => 1 | ESpacesMissing => 2 | ESpacesMismatch => 3 | ESetParameters => 4 end%Z.
Definition c9_load (created : list string) (needing : list string) (a : archive) (args : load_args) (names : list string) :=
  match load_model (fun env => [("env"%string, AData (match env with Some e => e | None => JNull end))])
                   (fun o => map (fun n => (n, AData (JOpaque 999))) created ++ o) needing a args with
  | Loaded o nz => (0%Z, map (fun n => c9_code (lookup n o)) names, nz)
  | LoadRaises e => (c9_err e, [], false)
  end.
Definition c9_sperr (e : option sp_error) : Z := match e with None => 0 | Some (SPInvalidName _) => 1 | Some (SPStrict _) => 2 | Some SPNames => 3 end%Z.
Definition c9_setp (exact : bool) (needing : list string) (params : list (string * sdict)) (m : tmodel) :=
  let r := set_parameters_full exact needing params m in
  (map (fun n => match tlookup n (fst r) with Some (TModule sd) => map snd sd | Some (TOptim sd) => map snd sd | None => [] end) (map fst m), c9_sperr (snd r)).
Definition c9_rb (i : rb_in) := match load_replay_buffer i with RbRaises => (true, [false; false; false; false]) | RbOk a b c d => (false, [a; b; c; d]) end.
"""

# what _setup_model legitimately (re)creates, per algorithm, read off the six _setup_model methods: the learning-rate schedule
# (from learning_rate), the policy and its aliases, the buffers, PPO's clip schedules (from clip_range / clip_range_vf),
# the TrainFreq conversion, replay_buffer_class (filled in when None), DQN's exploration schedule, SAC's entropy-coefficient
# objects and target_entropy (float() of the stored value).  Every one of them must still be EQUAL BY VALUE to the original
# unless custom_objects / kwargs changed what it is computed from.
CREATED_COMMON = ["lr_schedule", "policy"]
CREATED = {
    "A2C": CREATED_COMMON + ["rollout_buffer", "rollout_buffer_class", "rollout_buffer_kwargs"],
    "PPO": CREATED_COMMON + ["rollout_buffer", "rollout_buffer_class", "rollout_buffer_kwargs", "clip_range", "clip_range_vf"],
    "DQN": CREATED_COMMON + ["replay_buffer", "replay_buffer_class", "train_freq", "exploration_schedule", "q_net", "q_net_target", "batch_norm_stats", "batch_norm_stats_target"],
    "SAC": CREATED_COMMON + ["replay_buffer", "replay_buffer_class", "train_freq", "actor", "critic", "critic_target", "batch_norm_stats", "batch_norm_stats_target",
                             "target_entropy", "log_ent_coef", "ent_coef_optimizer", "ent_coef_tensor"],
    "TD3": CREATED_COMMON + ["replay_buffer", "replay_buffer_class", "train_freq", "actor", "actor_target", "critic", "critic_target",
                             "actor_batch_norm_stats", "critic_batch_norm_stats", "actor_batch_norm_stats_target", "critic_batch_norm_stats_target"],
}
CREATED["DDPG"] = CREATED["TD3"]
# derived from an attribute: when custom_objects / kwargs replace the source, the derived one legitimately changes
DERIVED_FROM = {"lr_schedule": "learning_rate", "clip_range": "clip_range", "clip_range_vf": "clip_range_vf", "train_freq": "train_freq",
                "exploration_schedule": "exploration_initial_eps", "target_entropy": "target_entropy"}

ENV_SIG = "load-env-argument-overridden-by-stored-env"

ALGOS = ["A2C", "PPO", "DQN", "SAC", "TD3", "DDPG"]


def algo_kwargs(algo):
    off = dict(learning_starts=4, buffer_size=40, batch_size=4, train_freq=1, gradient_steps=1)
    return {"A2C": dict(n_steps=4), "PPO": dict(n_steps=8, batch_size=8, n_epochs=1), "DQN": dict(target_update_interval=4, **off),
            "SAC": dict(ent_coef="auto", **off), "TD3": dict(policy_delay=2, **off), "DDPG": dict(**off)}[algo]


def gen_loadflow_spec(rng):
    algo = rng.choice(ALGOS)
    use_sde = algo in ("A2C", "PPO", "SAC") and rng.random() < 0.3
    sp = {"algo": algo, "use_sde": use_sde, "n_envs": rng.choice([1, 1, 2]), "steps": rng.choice([0, 16]),
          "env": rng.choice(["none", "none", "same", "same", "other_n_envs", "other_n_envs", "wrong_space"]),
          "force_reset": rng.random() < 0.5, "include_env": rng.random() < 0.2,
          "custom": sorted(rng.sample(["gamma", "seed", "verbose", "_last_obs", "n_envs_hint", "not_stored_key"], rng.choice([0, 0, 1, 2, 3]))),
          "kwargs": sorted(rng.sample(["gamma", "seed", "brand_new_attr", "pk_same", "pk_other"], rng.choice([0, 0, 1, 2]))),
          "tamper": rng.choice(["none"] * 6 + ["drop_space", "drop_param"])}
    if "pk_same" in sp["kwargs"] and "pk_other" in sp["kwargs"]:
        sp["kwargs"].remove("pk_same")
    return sp


def _make_envs(kind, n):
    from harness.c09 import make_env
    from stable_baselines3.common.vec_env import DummyVecEnv

    return DummyVecEnv([(lambda: make_env(kind)) for _ in range(n)])


def _wrong_env():
    import gymnasium as gym
    import numpy as np
    from gymnasium import spaces
    from stable_baselines3.common.vec_env import DummyVecEnv

    class Wrong(gym.Env):
        observation_space = spaces.Box(-1.0, 1.0, (3,), dtype=np.float32)
        action_space = spaces.Discrete(2)

        def reset(self, *, seed=None, options=None):
            return np.zeros(3, dtype=np.float32), {}

        def step(self, action):
            return np.zeros(3, dtype=np.float32), 0.0, True, False, {}

    return DummyVecEnv([Wrong])


def _tamper(path, how):
    import zipfile

    with zipfile.ZipFile(path) as z:
        items = {n: z.read(n) for n in z.namelist()}
    if how == "drop_space":
        data = json.loads(items["data"].decode())
        del data["observation_space"]
        items["data"] = json.dumps(data).encode()
    elif how == "drop_param":
        victim = sorted(n for n in items if n.endswith(".pth") and n != "pytorch_variables.pth")[-1]
        del items[victim]
    with zipfile.ZipFile(path, "w") as z:
        for n, b in items.items():
            z.writestr(n, b)


def _ascii(k):
    return all(32 < ord(ch) < 127 and ch != '"' for ch in k)


def run_loadflow(case):
    import numpy as np
    import torch as th

    import stable_baselines3 as sb3
    from harness.c09 import attr_same

    th.set_num_threads(1)
    sp = case["spec"]
    algo = sp["algo"]
    cls = getattr(sb3, algo)
    env_kind = "discrete" if algo == "DQN" else "box"
    kw = dict(algo_kwargs(algo), policy_kwargs=dict(net_arch=[4]), seed=3, device="cpu")
    if sp["use_sde"]:
        kw.update(use_sde=True)
    d = tempfile.mkdtemp(prefix="c09l_")
    problems = []
    try:
        with warnings.catch_warnings():
            warnings.simplefilter("ignore")
            model = cls("MlpPolicy", _make_envs(env_kind, sp["n_envs"]), **kw)
            if sp["steps"]:
                model.learn(sp["steps"])
            path = os.path.join(d, "m.zip")
            model.save(path, include=["env"] if sp["include_env"] else None)
            if sp["tamper"] != "none":
                _tamper(path, sp["tamper"])
            # what is in the archive, by name (order of the JSON object)
            import zipfile

            with zipfile.ZipFile(path) as z:
                stored_names = [k for k in json.loads(z.read("data").decode()).keys() if not k.startswith("_stable_baselines3") and _ascii(k)]
                param_names = sorted(n[:-4] for n in z.namelist() if n.endswith(".pth") and n != "pytorch_variables.pth")
            sd_names, var_names = model._get_torch_save_params()
            # ---- arguments
            given_n = {"none": None, "same": sp["n_envs"], "other_n_envs": 3 - sp["n_envs"], "wrong_space": 1}[sp["env"]]
            given_env = None if sp["env"] == "none" else (_wrong_env() if sp["env"] == "wrong_space" else _make_envs(env_kind, given_n))
            custom_values = {"gamma": 0.5, "seed": 11, "verbose": 0, "_last_obs": np.full((given_n or sp["n_envs"], 2), 0.125, dtype=np.float32),
                             "n_envs_hint": 5, "not_stored_key": "x"}
            custom = {k: custom_values[k] for k in sp["custom"]}
            kwargs_values = {"gamma": 0.25, "seed": 5, "brand_new_attr": ("t", 7), "pk_same": copy.deepcopy(model.policy_kwargs),
                             "pk_other": dict(net_arch=[3, 3])}
            kwargs = {({"pk_same": "policy_kwargs", "pk_other": "policy_kwargs"}.get(k, k)): kwargs_values[k] for k in sp["kwargs"]}
            # ---- the implementation; reset_noise() calls are counted
            pol_cls = type(model.policy)
            counter = {"n": 0}
            orig_reset = getattr(pol_cls, "reset_noise", None)      # TD3Policy / DQNPolicy have none (and use_sde is never set for them)

            def counting(self, *a, **k):
                counter["n"] += 1
                return orig_reset(self, *a, **k)

            if orig_reset is not None:
                pol_cls.reset_noise = counting
            try:
                try:
                    loaded = cls.load(path, env=given_env, device="cpu", custom_objects=custom or None, force_reset=sp["force_reset"], **kwargs)
                    raised = None
                except Exception as e:  # noqa: BLE001
                    loaded, raised = None, e
            finally:
                if orig_reset is not None:
                    pol_cls.reset_noise = orig_reset
            # ---- the model's query
            created = [n for n in CREATED[algo]]
            sid = {n: i + 1 for i, n in enumerate(stored_names)}

            def jv(n):
                if n == "use_sde":
                    return f"JBool {coq_bool(bool(model.use_sde))}"
                return f"JOpaque {coq_Z(sid[n])}"

            data_term = coq_list([f"({coq_string(n)}, {jv(n)})" for n in stored_names])
            cid = {k: 500 + j for j, k in enumerate(sorted(custom))}
            kid = {k: 700 + j for j, k in enumerate(sorted(kwargs))}
            if "pk_same" in sp["kwargs"]:
                kid["policy_kwargs"] = sid.get("policy_kwargs", 0)      # an equal dictionary: same tag as the stored one
            env_term = "None" if given_env is None else f"(Some (mk_env 900 {coq_Z(given_n)} {coq_bool(sp['env'] != 'wrong_space')}))"
            args_term = (f"(mk_args {env_term} {coq_bool(sp['force_reset'])} {coq_list([f'({coq_string(k)}, JOpaque {coq_Z(v)})' for k, v in cid.items()])} "
                         f"{coq_list([f'({coq_string(k)}, AData (JOpaque {coq_Z(v)}))' for k, v in kid.items()])})")
            arch_term = f"(mk_arch (data_to_json {data_term}) {coq_list([f'({coq_string(n)}, 1%Z)' for n in param_names])} [])"
            names = list(dict.fromkeys(stored_names + sorted(kwargs) + sorted(custom) + ["env"]))
            names = [n for n in names if n not in {x.split(".")[0] for x in list(sd_names) + list(var_names)}]
            qs = lambda xs: coq_list([coq_string(x) for x in xs])  # noqa: E731
            expr = f"c9_load {qs(created)} {qs(sorted(sd_names))} {arch_term} {args_term} {qs(names)}"
            # ---- observation of the implementation
            obs = {"names": names, "sid": sid, "cid": cid, "kid": kid}
            if raised is not None:
                msg = f"{type(raised).__name__}: {raised}"
                code = (1 if "policy kwargs" in msg else 2 if "observation_space and action_space were not given" in msg
                        else 3 if "spaces do not match" in msg or "Observation spaces" in msg or "Action spaces" in msg else 4)
                obs.update(raised=msg[:300], code=code)
            else:
                obs.update(raised=None, code=0, noise_calls=counter["n"])
                checks = {}
                for n in names:
                    checks[n] = _classify(n, loaded, model, custom, kwargs, given_env, sid, cid, kid, created, attr_same)
                obs["values"] = checks
                # ---- statement-level oracle (docstring of load): the given env has priority, n_envs / _last_obs bookkeeping
                lo = loaded._last_obs
                if given_env is not None:
                    env_ok = loaded.get_env() is given_env or getattr(loaded.get_env(), "venv", None) is given_env
                    if not env_ok:
                        obs["env_overridden"] = True
                        cont = "?"
                        try:
                            loaded.learn(8)
                            cont = "learn(8) runs on the STORED env"
                        except Exception as e:  # noqa: BLE001
                            cont = f"learn(8) raises {type(e).__name__}: {e}"
                        obs["env_overridden_detail"] = (f"load(env=<{given_n} envs>) on an archive saved with include=['env'] ({sp['n_envs']} envs): model.env is the stored env "
                                                        f"(num_envs={loaded.get_env().num_envs}), n_envs={loaded.n_envs}; {cont}")
                    if loaded.n_envs != given_n:
                        problems.append(("oracle-load-env-n-envs", f"load(env with {given_n} envs) gives n_envs={loaded.n_envs}"))
                    if "_last_obs" not in kwargs:
                        if sp["force_reset"] and lo is not None:
                            problems.append(("oracle-load-force-reset", f"force_reset=True but _last_obs={lo!r}"))
                        if not sp["force_reset"] and "_last_obs" not in custom and (lo is None) != (model._last_obs is None):
                            problems.append(("oracle-load-force-reset", f"force_reset=False but _last_obs {model._last_obs!r} became {lo!r}"))
            return {"problems": problems, "expr": expr, "obs": obs}
    finally:
        shutil.rmtree(d, ignore_errors=True)


def _classify(n, loaded, model, custom, kwargs, given_env, sid, cid, kid, created, attr_same):
    """which of the model's tags the loaded attribute n is compatible with: a set of integer codes"""
    import numpy as np

    if n not in loaded.__dict__:
        return [-2]
    v = loaded.__dict__[n]
    ok = []
    if n in kwargs and v is kwargs[n]:
        ok.append(kid[n])
    if n in custom and v is custom[n]:
        ok.append(cid[n])
    if v is None:
        ok.append(-1)
    if isinstance(v, (int, np.integer)) and not isinstance(v, bool):
        ok.append(-100 - int(v))
    if isinstance(v, bool):
        ok.append(-11 if v else -10)
    if n == "env":
        if given_env is not None and (v is given_env or getattr(v, "venv", None) is given_env):
            ok.append(900)
        if v is not None and "env" in sid and not (given_env is not None and (v is given_env or getattr(v, "venv", None) is given_env)):
            ok.append(sid["env"])
        return ok
    if n in created:
        ok.append(999)
    if n in sid and n in model.__dict__:
        out = []
        attr_same(n, model.__dict__[n], v, out)
        if not out:
            ok.append(sid[n])
        else:
            ok.append(("differs", out[0][:200]))
    return ok


def compare_loadflow(case, impl, mv):
    probs = list(impl["problems"])
    obs = impl["obs"]
    sp = case["spec"]
    code, vals, nz = mv
    if obs.get("env_overridden"):
        probs.append((ENV_SIG, obs["env_overridden_detail"]))
    if code != obs["code"]:
        if code == 0:
            probs.append(("oracle-load-raises-unexpectedly" if sp["tamper"] == "none" and sp["env"] != "wrong_space" and "pk_other" not in sp["kwargs"] else "load-guard",
                          f"load raises {obs['raised']} where Model.LoadFlow.load_model returns a model"))
        elif obs["code"] == 0:
            probs.append(("oracle-load-guard-silent", f"load returned a model although the guard {['', 'policy_kwargs differ', 'a space is missing in the archive', 'the env has other spaces', 'the state-dict names differ'][code]} fails "
                                                      f"(env={sp['env']}, kwargs={sp['kwargs']}, tamper={sp['tamper']})"))
        else:
            probs.append(("load-guard-order", f"load raises {obs['raised']} (guard {obs['code']}), the model's first failing guard is {code}"))
        return probs
    if code != 0:
        return probs
    if bool(nz) != (obs["noise_calls"] > 0) or obs["noise_calls"] > 1:
        probs.append(("load-reset-noise", f"policy.reset_noise() called {obs['noise_calls']} times during load, use_sde={sp['use_sde']}"))
    created = set(CREATED[sp["algo"]])
    changed_sources = set(sp["custom"]) | set(obs["kid"])
    for n, want in zip(obs["names"], vals):
        got = obs["values"][n]
        diffs = [g for g in got if isinstance(g, (list, tuple))]
        if want == 999:
            # re-created by _setup_model: equal BY VALUE to the original unless its source was replaced by custom_objects / kwargs
            if diffs and DERIVED_FROM.get(n, n) not in changed_sources and n in obs["sid"]:
                probs.append(("oracle-load-recreated-attribute-differs", f"{n} (re-created by _setup_model) differs from the original: {diffs[0][1]}"))
            continue
        if want in got:
            continue
        what = ("the stored value" if want == obs["sid"].get(n) else "the custom object" if want == obs["cid"].get(n) else "the kwargs value" if want == obs["kid"].get(n)
                else "None" if want == -1 else f"the integer {-100 - want}" if want <= -100 else "absent" if want == -2 else f"tag {want}")
        sig = ("oracle-load-attribute-not-restored" if want == obs["sid"].get(n) else "oracle-load-custom-objects-not-used" if want == obs["cid"].get(n)
               else "oracle-load-kwargs-not-used" if want == obs["kid"].get(n) else "oracle-load-env-bookkeeping" if n in ("n_envs", "_last_obs", "env") else "load-attribute")
        probs.append((sig, f"after load(env={sp['env']}, force_reset={sp['force_reset']}, custom_objects={sp['custom']}, kwargs={sp['kwargs']}) attribute {n} should be {what}; "
                           f"compatible tags {[g for g in got if not isinstance(g, (list, tuple))]} {diffs[0][1] if diffs else ''}"))
    return probs


# ---------------------------------------------------------------- set_parameters, the full decision

def gen_setparams_spec(rng, algo=None):
    if rng.random() < 0.25:      # the complete dictionary, untouched (in a shuffled order)
        return {"algo": algo or rng.choice(ALGOS), "exact": rng.random() < 0.7, "drop": 0, "order": 0, "invalid_at": None, "missing_key": None, "unexpected_key": None,
                "pick": rng.randint(0, 1000)}
    return {"algo": algo or rng.choice(ALGOS), "exact": rng.random() < 0.6, "drop": rng.choice([0, 0, 0, 1, 2]), "order": rng.randint(0, 5),
            "invalid_at": rng.choice([None, None, None, 0, 1, 9]), "missing_key": rng.choice([None, None, 0, 1]), "unexpected_key": rng.choice([None, None, None, 0]),
            "pick": rng.randint(0, 1000)}


def run_setparams(case):
    import random

    import torch as th

    import stable_baselines3 as sb3
    from harness.c09 import deep_same

    th.set_num_threads(1)
    sp = case["spec"]
    algo = sp["algo"]
    cls = getattr(sb3, algo)
    env_kind = "discrete" if algo == "DQN" else "box"
    rr = random.Random(sp["pick"])
    with warnings.catch_warnings():
        warnings.simplefilter("ignore")
        kw = dict(algo_kwargs(algo), policy_kwargs=dict(net_arch=[4]), device="cpu")
        a = cls("MlpPolicy", _make_envs(env_kind, 1), seed=1, **kw)
        b = cls("MlpPolicy", _make_envs(env_kind, 1), seed=2, **kw)
        a.learn(16)
        b.learn(24)
        needing = list(a._get_torch_save_params()[0])
        a0 = copy.deepcopy(a.get_parameters())
        pb = copy.deepcopy(b.get_parameters())
        is_opt = {n: isinstance(_rget(a, n), th.optim.Optimizer) for n in needing}
        names = list(needing)
        rr.shuffle(names)
        names = names[: len(names) - min(sp["drop"], len(names) - 1)]
        params = {n: copy.copy(pb[n]) for n in names}
        modules = [n for n in names if not is_opt[n]]
        miss = unexp = None
        if sp["missing_key"] is not None and modules:
            mn = modules[sp["missing_key"] % len(modules)]
            keys = list(params[mn].keys())
            miss = (mn, keys[rr.randrange(len(keys))])
            del params[mn][miss[1]]
        if sp["unexpected_key"] is not None and modules:
            un = modules[sp["unexpected_key"] % len(modules)]
            unexp = (un, "zz_extra.weight")
            params[un][unexp[1]] = th.zeros(2)
        if sp["invalid_at"] is not None:
            items = list(params.items())
            items.insert(min(sp["invalid_at"], len(items)), ("no.such.object", {}))
            params = dict(items)
        try:
            a.set_parameters(params, exact_match=sp["exact"])
            err = 0
            msg = ""
        except Exception as e:  # noqa: BLE001
            msg = f"{type(e).__name__}: {e}"[:300]
            err = 1 if "invalid object name" in msg else 2 if "Error(s) in loading state_dict" in msg else 3 if "Names of parameters do not match" in msg else 9
        after = a.get_parameters()
    # ---- tags: per object per key 0 = a's own tensor, 1 = b's (None = the two coincide, either is fine)
    state = {}
    for n in needing:
        if is_opt[n]:
            sa, sb = not deep_same(a0[n], after[n], n), not deep_same(pb[n], after[n], n)
            state[n] = [None if (sa and sb) else 0 if sa else 1 if sb else -9]
        else:
            tags = []
            for k in a0[n]:
                ea, eb = th.equal(a0[n][k], after[n][k]), th.equal(pb[n][k], after[n][k])
                tags.append(None if (ea and eb) else 0 if ea else 1 if eb else -9)
            state[n] = tags
    # ---- the model's query
    def sd_term(keys_tags):
        return coq_list([f"({coq_Z(k)}, {coq_Z(t)})" for k, t in keys_tags])

    m_items, key_index = [], {}
    for n in needing:
        if is_opt[n]:
            m_items.append(f"({coq_string(n)}, TOptim {sd_term([(0, 0)])})")
        else:
            key_index[n] = {k: i for i, k in enumerate(a0[n].keys())}
            m_items.append(f"({coq_string(n)}, TModule {sd_term([(i, 0) for i in range(len(key_index[n]))])})")
    p_items = []
    for n, sd in params.items():
        if n == "no.such.object":
            p_items.append(f"({coq_string(n)}, [])")
        elif is_opt[n]:
            p_items.append(f"({coq_string(n)}, {sd_term([(0, 1)])})")
        else:
            p_items.append(f"({coq_string(n)}, {sd_term([(key_index[n].get(k, 1000 + j), 1) for j, k in enumerate(sd.keys())])})")
    expr = f"c9_setp {coq_bool(sp['exact'])} {coq_list([coq_string(n) for n in needing])} {coq_list(p_items)} {coq_list(m_items)}"
    return {"problems": [], "expr": expr, "state": [state[n] for n in needing], "err": err, "msg": msg, "needing": needing, "given": list(params), "missing": miss, "unexpected": unexp}


def _rget(o, name):
    for part in name.split("."):
        o = getattr(o, part)
    return o


def compare_setparams(case, impl, mv):
    sp = case["spec"]
    tags, err = mv
    probs = []
    desc = f"{sp['algo']}.set_parameters(objects {impl['given']}, exact_match={sp['exact']}, missing key {impl['missing']}, unexpected key {impl['unexpected']})"
    if err != impl["err"]:
        names = ["returns", "raises 'invalid object name'", "raises a strict state-dict error", "raises 'Names of parameters do not match'"]
        sig = "oracle-set-parameters-exact-match-silent" if impl["err"] == 0 and sp["exact"] else "set-parameters-decision"
        probs.append((sig, f"{desc}: the implementation {names[impl['err']] if impl['err'] < 4 else 'raises ' + impl['msg']}, Model.SetParams {names[err]}"))
        return probs
    for n, want, got in zip(impl["needing"], tags, impl["state"]):
        if len(want) != len(got) or any(g is not None and g != w for w, g in zip(want, got)):
            probs.append(("set-parameters-state", f"{desc} (outcome: {impl['msg'] or 'returned'}): object {n} holds tensors {got} (0 = its own, 1 = the given, None = equal), Model.SetParams {list(want)}"))
            break
    return probs


# ---------------------------------------------------------------- load_replay_buffer decision

def gen_rbload_spec(rng):
    return {"her": rng.random() < 0.6, "truncate": rng.random() < 0.5, "model_env": rng.random() < 0.8, "legacy": rng.random() < 0.3, "not_a_buffer": rng.random() < 0.1,
            "steps": rng.choice([6, 10, 14])}


def run_rbload(case):
    import pickle

    import numpy as np
    import torch as th

    from harness.c09 import make_env
    from stable_baselines3 import DQN
    from stable_baselines3.common.envs import BitFlippingEnv
    from stable_baselines3.common.vec_env import DummyVecEnv
    from stable_baselines3.her.her_replay_buffer import HerReplayBuffer

    th.set_num_threads(1)
    sp = case["spec"]

    def env_fn():
        return BitFlippingEnv(n_bits=3, continuous=False, max_steps=4) if sp["her"] else make_env("discrete")

    def build(seed):
        kw = dict(learning_starts=1000, buffer_size=24, batch_size=4, train_freq=1, policy_kwargs=dict(net_arch=[4]), seed=seed, device="cpu")
        if sp["her"]:
            kw.update(replay_buffer_class=HerReplayBuffer, replay_buffer_kwargs=dict(n_sampled_goal=2, goal_selection_strategy="future"))
        return DQN("MultiInputPolicy" if sp["her"] else "MlpPolicy", DummyVecEnv([env_fn]), **kw)

    with warnings.catch_warnings():
        warnings.simplefilter("ignore")
        src = build(0)
        src.learn(sp["steps"])
        rb = src.replay_buffer
        rb.device = "saved-device"
        if sp["legacy"]:
            del rb.__dict__["handle_timeout_termination"]
            del rb.__dict__["timeouts"]
        f = io.BytesIO()
        if sp["not_a_buffer"]:
            pickle.dump({"not": "a buffer"}, f)
        else:
            src.save_replay_buffer(f)
        f.seek(0)
        dst = build(1)
        if not sp["model_env"]:
            dst.env = None
        calls = {"truncate": 0, "set_env": 0}
        o_tr, o_se = HerReplayBuffer.truncate_last_trajectory, HerReplayBuffer.set_env

        def tr(self):
            calls["truncate"] += 1
            return o_tr(self)

        def se(self, env):
            calls["set_env"] += 1
            return o_se(self, env)

        HerReplayBuffer.truncate_last_trajectory, HerReplayBuffer.set_env = tr, se
        try:
            try:
                dst.load_replay_buffer(f, truncate_last_traj=sp["truncate"])
                raised = None
            except Exception as e:  # noqa: BLE001
                raised = f"{type(e).__name__}: {e}"[:200]
        finally:
            HerReplayBuffer.truncate_last_trajectory, HerReplayBuffer.set_env = o_tr, o_se
        if raised is None:
            nb = dst.replay_buffer
            legacy_added = bool(sp["legacy"] and getattr(nb, "handle_timeout_termination", None) is False and hasattr(nb, "timeouts") and not np.any(nb.timeouts))
            flags = [legacy_added, calls["set_env"] == 1 and getattr(nb, "env", None) is dst.env, calls["truncate"] == 1, nb.device == dst.device]
        else:
            flags = [False] * 4
    expr = (f"c9_rb (mk_rb {coq_bool(not sp['not_a_buffer'])} {coq_bool(sp['her'] and not sp['not_a_buffer'])} {coq_bool(not sp['legacy'])} "
            f"{coq_bool(sp['model_env'])} {coq_bool(sp['truncate'])})")
    return {"problems": [], "expr": expr, "rb_raised": raised, "flags": flags}


def compare_rbload(case, impl, mv):
    raises, flags = mv
    sp = case["spec"]
    if bool(raises) != (impl["rb_raised"] is not None):
        return [("oracle-load-replay-buffer-guard" if raises else "oracle-implementation-raised",
                 f"load_replay_buffer on {sp}: implementation {'raises ' + impl['rb_raised'] if impl['rb_raised'] else 'returns'}, Model.LoadFlow.load_replay_buffer {'raises' if raises else 'returns'}")]
    if not raises and [bool(x) for x in flags] != [bool(x) for x in impl["flags"]]:
        return [("oracle-load-replay-buffer-effects", f"load_replay_buffer on {sp}: (legacy timeouts added, set_env, truncated, device reset) = {impl['flags']}, model {list(flags)}")]
    return []
