"""C11 - predict() returns a valid action of the right shape for every supported space.

Proof side:  Props/C11.v (shape law of predict over `list Z` shapes for every space kind, single / batch of any n; images in
             both layouts; Dict; DQN's exploration branch; clip / unscale bounds over Q - float32 rounding NOT modelled -;
             one-hot by value; is_vectorized_* / maybe_transpose tests / predict's clip and unscale regenerated from the source).
Tie:         real PPO / A2C / SAC / TD3 / DDPG / DQN policies (MlpPolicy / CnnPolicy / MultiInputPolicy) on random space pairs,
             weights scaled up to drive the network far past the bounds, inputs: one observation, batch of 1, batch of n,
             channel-last and channel-first images, malformed shapes; returned shape (or exception) compared with
             Model.Shapes.check_predict.
Oracle:      from the property text: action_space.contains for every returned action, leading batch dimension iff the input had
             one, deterministic=True repeatable, observation and parameters bit-unchanged, one-hot features for Discrete
             observations, identical scaled image features in prediction (both layouts) and training paths.
"""
from __future__ import annotations

import json
import os

from harness import common
from harness.common import Check, coq_Z, coq_bool, coq_list, coq_nat

REGISTRY = dict(
    text=("Proof (unbounded, over shapes as lists of integers): for every supported observation space kind (Box any rank, image, Discrete, MultiDiscrete, MultiBinary incl. multi-dim) and any action shape, "
          "predict maps one observation to an action of the action space's shape and a batch of n observations (every n, n = 1 included) to n actions - a leading batch dimension exactly when the input had one; "
          "channel-last images are accepted by channel-first image spaces (single and batched); Dict observations: all keys single / all keys batched alike; DQN's exploration branch obeys the same law; "
          "the two readings of a shape are mutually exclusive; clipped and unsquashed values lie inside the bounds (over Q); one-hot is by value and injective. "
          "is_vectorized_box/discrete/multidiscrete/multibinary_observation, the tests of maybe_transpose / transpose_image and predict's clip / unscale / squeeze guard are regenerated from the source."),
    note=("Trusted: Coq 8.16.1 kernel (vm_compute, no native_compute), translate/py2coq.py (shape-tuple and option-bool cases added) + specs/shapes.py, harness/c11.py, Python/numpy/torch/gymnasium. "
          "PARTIAL: float32 rounding of unscale_action / clip is not modelled (bounds are theorems over Q; the harness checks action_space.contains on saturated networks); the networks, numpy reshape/squeeze and "
          "torch feature concatenation are tied by correspondence only; determinism, no-mutation, one-hot features and image scaling are checked by the oracle (not theorems, except one-hot by value). "
          "Known finding of C11: box-rank0-observation-rejected (F21: Box(shape=()) observations make predict() raise IndexError in the features extractor; the model rejects such "
          "spaces and the shape theorems carry `supported sp = true`). Correspondence-only sub-claims: discrete action kinds return valid integers, Dict observations with channel-last "
          "image keys, DQN's exploration branch on Dict observations. All C11 theorems are closed under the global context."),
    technique="machine-checked proof in Coq (case analysis / list arithmetic over shapes; lra over Q) + regenerated-fragment interface lemmas + differential correspondence on real policies",
)

COV_TARGETS = {
    "stable_baselines3/common/policies.py": ["BaseModel.obs_to_tensor", "BaseModel.is_vectorized_observation", "BasePolicy.predict", "BasePolicy.scale_action", "BasePolicy.unscale_action"],
    "stable_baselines3/common/preprocessing.py": ["is_image_space_channels_first", "is_image_space", "maybe_transpose", "preprocess_obs"],
    "stable_baselines3/common/utils.py": ["is_vectorized_box_observation", "is_vectorized_discrete_observation", "is_vectorized_multidiscrete_observation",
                                          "is_vectorized_multibinary_observation", "is_vectorized_dict_observation", "is_vectorized_observation"],
    "stable_baselines3/dqn/dqn.py": ["DQN.predict"],
    "stable_baselines3/common/torch_layers.py": ["create_mlp"],
}

HEADER = """From Coq Require Import List ZArith QArith Bool.
From SB3V Require Import Model.Shapes.
Import ListNotations.
Local Open Scope Z_scope.
"""

RANK0_SIG = "box-rank0-observation-rejected"
OBS_KINDS = ["uint8_nonimage", "image_mid", "box0", "box4", "box1", "box2", "box3", "image_hwc", "image_chw", "image_gray", "discrete", "multidiscrete", "multibinary", "multibinary2", "dict", "dict_img"]
ACT_KINDS = ["box", "box_asym", "box_md", "discrete", "multidiscrete", "multibinary"]


def gen_case(rng, i):
    algo = ["PPO", "A2C", "SAC", "DQN", "TD3", "PPO", "DDPG", "A2C"][i % 8]
    if algo in ("SAC", "TD3", "DDPG"):
        act = rng.choice(["box", "box_asym", "box_md"])
    elif algo == "DQN":
        act = "discrete"
    else:
        act = ACT_KINDS[(i // 8) % len(ACT_KINDS)]
    obs = OBS_KINDS[(i // 3) % len(OBS_KINDS)] if rng.random() < 0.8 else rng.choice(OBS_KINDS)
    off = algo in ("SAC", "TD3", "DDPG")
    pkc = {
        "net_arch": rng.choice(["default", "empty", "empty", "8", "8", "dict", "dict_empty"] if algo != "DQN" else ["default", "empty", "8"]),
        "act_fn": rng.choice(["default", "relu", "tanh", "elu"]),
        "share_fe": rng.choice([None, True, False]) if algo != "DQN" else None,
        "n_critics": rng.choice([None, 1, 3]) if off else None,
        "normalize_images": rng.random() > 0.2,
        "log_std_init": rng.choice([None, -2.0, 0.5]) if algo in ("PPO", "A2C", "SAC") else None,
        "ortho_init": rng.choice([None, False]) if algo in ("PPO", "A2C") else None,
        "custom_fe": rng.random() < 0.25,
        "sac_sde": algo == "SAC" and rng.random() < 0.3,
    }
    return {"id": i, "pk": pkc, "algo": algo, "obs": obs, "act": act, "scale": rng.choice([1.0, 30.0, 30.0, 1000.0]), "n": rng.choice([2, 3, 5]),
            "squash_sde": algo in ("PPO", "A2C") and act.startswith("box") and rng.random() < 0.3, "seed": rng.randint(0, 10**6),
            "dims": [rng.randint(1, 4) for _ in range(3)], "nd": rng.randint(2, 9)}


def make_spaces(case):
    import numpy as np
    from gymnasium import spaces

    d, nd = case["dims"], case["nd"]
    ob = {
        "box1": lambda: spaces.Box(-3, 3, (d[0],), dtype=np.float32),
        "box2": lambda: spaces.Box(-3, 3, (d[0], d[1]), dtype=np.float32),
        "box3": lambda: spaces.Box(-3, 3, (d[0], d[1], d[2]), dtype=np.float32),
        "box0": lambda: spaces.Box(-3, 3, (), dtype=np.float32),
        "uint8_nonimage": lambda: spaces.Box(0, 200, (4, 3, 3), dtype=np.uint8),       # rank 3, uint8, but bounds are not [0, 255]: not an image
        "image_mid": lambda: spaces.Box(0, 255, (40, 36, 44), dtype=np.uint8),           # smallest dimension in the middle: treated as channels-last (warning)
        "box4": lambda: spaces.Box(-3, 3, (d[0], 2, d[1], d[2]), dtype=np.float32),
        "image_hwc": lambda: spaces.Box(0, 255, (36, 36, 3), dtype=np.uint8),
        "image_chw": lambda: spaces.Box(0, 255, (3, 36, 36), dtype=np.uint8),
        "image_gray": lambda: spaces.Box(0, 255, (36, 40, 1), dtype=np.uint8),
        "discrete": lambda: spaces.Discrete(nd),
        "multidiscrete": lambda: spaces.MultiDiscrete([nd, 2, 3][: max(1, d[0] % 4)] or [nd]),
        "multibinary": lambda: spaces.MultiBinary(d[0] + 1),
        "multibinary2": lambda: spaces.MultiBinary([d[0], d[1] + 1]),
        "dict": lambda: spaces.Dict({"v": spaces.Box(-3, 3, (d[0],), dtype=np.float32), "k": spaces.Discrete(nd), "m": spaces.MultiBinary(d[1])}),
        "dict_img": lambda: spaces.Dict({"img": spaces.Box(0, 255, (36, 36, 1), dtype=np.uint8), "v": spaces.Box(-3, 3, (d[0], d[1]), dtype=np.float32)}),
    }[case["obs"]]()
    ac = {
        "box": lambda: spaces.Box(-1, 1, (2,), dtype=np.float32),
        "box_asym": lambda: spaces.Box(np.array([-2.0, 0.5, -7.0], dtype=np.float32), np.array([6.0, 1.0, -6.5], dtype=np.float32), dtype=np.float32),
        "box_md": lambda: spaces.Box(-0.3, 2.7, (2, 2), dtype=np.float32),
        "discrete": lambda: spaces.Discrete(4),
        "multidiscrete": lambda: spaces.MultiDiscrete([3, 2, 4]),
        "multibinary": lambda: spaces.MultiBinary(3),
    }[case["act"]]()
    return ob, ac


# ---------------------------------------------------------------- implementation run

def run_impl(case):
    import warnings

    warnings.simplefilter("ignore")
    import gymnasium as gym
    import numpy as np
    import torch as th
    from gymnasium import spaces

    th.set_num_threads(1)
    import stable_baselines3 as sb3
    from stable_baselines3.common.preprocessing import is_image_space
    from stable_baselines3.common.torch_layers import BaseFeaturesExtractor

    ob, ac = make_spaces(case)

    class E(gym.Env):
        observation_space, action_space = ob, ac

        def reset(self, *, seed=None, options=None):
            return ob.sample(), {}

        def step(self, a):
            return ob.sample(), 0.0, False, False, {}

    rs = np.random.RandomState(case["seed"])
    ob.seed(case["seed"])
    th.manual_seed(case["seed"])
    has_img = is_image_space(ob) or (isinstance(ob, spaces.Dict) and any(is_image_space(s) for s in ob.spaces.values()))
    policy = "MultiInputPolicy" if isinstance(ob, spaces.Dict) else ("CnnPolicy" if is_image_space(ob) else "MlpPolicy")
    algo = case["algo"]
    pkc = case.get("pk") or {}
    off = algo in ("SAC", "TD3", "DDPG")
    arch = pkc.get("net_arch", "8")
    pk = {}
    if arch == "empty":
        pk["net_arch"] = []
    elif arch == "8":
        pk["net_arch"] = [8]
    elif arch == "dict":
        pk["net_arch"] = dict(pi=[8], qf=[4]) if off else dict(pi=[8], vf=[4])
    elif arch == "dict_empty":
        pk["net_arch"] = dict(pi=[], qf=[4]) if off else dict(pi=[], vf=[])
    if pkc.get("act_fn", "default") != "default":
        pk["activation_fn"] = {"relu": th.nn.ReLU, "tanh": th.nn.Tanh, "elu": th.nn.ELU}[pkc["act_fn"]]
    for key, name in (("share_fe", "share_features_extractor"), ("n_critics", "n_critics"), ("log_std_init", "log_std_init"), ("ortho_init", "ortho_init")):
        if pkc.get(key) is not None:
            pk[name] = pkc[key]
    norm_img = pkc.get("normalize_images", True)
    if not norm_img:
        pk["normalize_images"] = False
    if has_img:
        pk["features_extractor_kwargs"] = dict(features_dim=8) if policy == "CnnPolicy" else dict(cnn_output_dim=8)
        if not norm_img:
            pk["features_extractor_kwargs"]["normalized_image"] = True
    elif pkc.get("custom_fe") and policy == "MlpPolicy":
        from stable_baselines3.common.preprocessing import get_flattened_obs_dim

        class TinyExtractor(BaseFeaturesExtractor):
            """a features extractor with parameters"""

            def __init__(self, observation_space, features_dim=6):
                super().__init__(observation_space, features_dim)
                self.net = th.nn.Sequential(th.nn.Flatten(), th.nn.Linear(get_flattened_obs_dim(observation_space), features_dim), th.nn.Tanh())

            def forward(self, observations):
                return self.net(observations)

        pk["features_extractor_class"] = TinyExtractor
    kw = {}
    if pkc.get("sac_sde") and algo == "SAC":
        kw["use_sde"] = True
    if case["squash_sde"]:
        kw["use_sde"] = True
        pk["squash_output"] = True
    if algo in ("SAC", "TD3", "DDPG", "DQN"):
        kw.update(buffer_size=10, learning_starts=0)
    if algo in ("PPO", "A2C"):
        kw.update(n_steps=2)
    if algo == "PPO":
        kw.update(batch_size=2)
    model = getattr(sb3, algo)(policy, E(), policy_kwargs=pk, device="cpu", seed=case["seed"], **kw)
    pol = model.policy
    pspace = pol.observation_space           # what the policy believes (images: channel-first)
    with th.no_grad():
        for pname, p in pol.named_parameters():
            if "log_std" in pname:
                continue              # a standard-deviation parameter, not a weight: exp(1000 * log_std_init) would be 0 or inf
            p.mul_(case["scale"])
    feats = []
    hooks = [m.register_forward_pre_hook(lambda mod, inp: feats.append(inp[0])) for m in pol.modules() if isinstance(m, BaseFeaturesExtractor)]

    def sample_one(layout="env"):
        o = ob.sample()
        return o

    def to_policy_layout(o, space, pspace_):
        """env-layout observation -> layout of the policy's space (HWC -> CHW for images the wrapper transposes)"""
        if isinstance(space, spaces.Dict):
            return {k: to_policy_layout(o[k], space[k], pspace_[k]) for k in space.spaces}
        if is_image_space(space) and tuple(space.shape) != tuple(pspace_.shape):
            return np.transpose(o, (2, 0, 1))
        return o

    def batch(os_):
        if isinstance(ob, spaces.Dict):
            return {k: np.stack([np.asarray(o[k]) for o in os_]) for k in ob.spaces}
        return np.stack([np.asarray(o) for o in os_])

    def shape_of(o):
        if isinstance(o, dict):
            return {k: list(np.asarray(v).shape) for k, v in o.items()}
        return list(np.asarray(o).shape)

    def params_bytes():
        return [p.detach().clone() for p in pol.parameters()]

    def same(a, b):
        if isinstance(a, dict):
            return all(same(a[k], b[k]) for k in a)
        a, b = np.asarray(a), np.asarray(b)
        return a.shape == b.shape and a.dtype == b.dtype and np.array_equal(a, b)

    import copy

    trials = []

    def trial(name, obs, det=True, eps=None, is_int=False):
        rec = {"name": name, "in_shape": shape_of(obs), "is_int": is_int, "eps": eps, "in_keys": list(obs.keys()) if isinstance(obs, dict) else None}
        before = copy.deepcopy(obs)
        p0 = params_bytes()
        del feats[:]
        if eps is not None:
            model.exploration_rate = eps
        try:
            a, _ = model.predict(obs, deterministic=det if eps is None else False)
            rec["out_shape"] = list(np.asarray(a).shape)
            rec["out_type_ok"] = isinstance(a, np.ndarray)
            vec = len(rec["out_shape"]) > len(ac.shape)
            items = list(a) if vec else [a]
            rec["contains"] = [bool(ac.contains(x)) for x in items]
            rec["bad_action"] = next((np.asarray(x).tolist() for x in items if not ac.contains(x)), None)
            if det and eps is None:
                a2, _ = model.predict(obs, deterministic=True)
                rec["repeatable"] = bool(np.array_equal(a, a2))
            rec["feat"] = feats[0].detach().cpu().numpy() if feats and not isinstance(feats[0], dict) else None
            rec["feat_dict"] = {k: v.detach().cpu().numpy() for k, v in feats[0].items()} if feats and isinstance(feats[0], dict) else None
        except Exception as ex:  # noqa: BLE001
            rec["exception"] = type(ex).__name__ + ": " + str(ex)[:160]
        rec["obs_unchanged"] = same(before, obs)
        rec["params_unchanged"] = all(th.equal(x, y) for x, y in zip(p0, params_bytes()))
        trials.append(rec)
        return rec

    n = case["n"]
    one = to_policy_layout(ob.sample(), ob, pspace)
    many = [to_policy_layout(ob.sample(), ob, pspace) for _ in range(n)]
    r_single = trial("single", one)
    trial("single_stochastic", one, det=False)
    trial("batch1", batch([one]))
    r_batch = trial("batchn", batch(many))
    if isinstance(ob, spaces.Discrete):
        trial("python_int", int(one), is_int=True)
    # the documented mistake "obs, info = env.reset()" passed on as a tuple must be refused with a ValueError
    try:
        model.predict((one, {}), deterministic=True)
        extra_tuple = "accepted"
    except ValueError as ex:
        extra_tuple = "ValueError"
    except Exception as ex:  # noqa: BLE001
        extra_tuple = type(ex).__name__
    if algo == "DQN":
        trial("eps_single", one, eps=1.0)
        trial("eps_batchn", batch(many), eps=1.0)
        model.exploration_rate = 0.0
    # images in the other (channel-last) layout
    if has_img:
        def other_layout(o, space, pspace_):
            if isinstance(space, spaces.Dict):
                return {k: other_layout(o[k], space[k], pspace_[k]) for k in space.spaces}
            if is_image_space(pspace_):
                return np.transpose(o, (1, 2, 0))    # CHW -> HWC
            return o

        alt_one = other_layout(one, ob, pspace)
        alt_many = batch([other_layout(o, ob, pspace) for o in many])
        trial("alt_layout_single", alt_one)
        trial("alt_layout_batchn", alt_many)
    extra_perm = None
    # malformed shapes
    if not isinstance(ob, spaces.Dict):
        arr = np.asarray(batch(many))
        trial("bad_extra_axis", arr[None])
        if arr.ndim >= 2 and arr.shape[-1] > 1:
            trial("bad_last_dim", arr[..., :-1])
        trial("bad_two_batch_axes", np.stack([arr, arr]))
    else:
        keys = list(ob.spaces)
        mixed = {k: (batch(many)[k] if j == 0 else np.asarray(one[k])) for j, k in enumerate(keys)}
        trial("dict_mixed_n", mixed)
        mixed1 = {k: (batch([one])[k] if j == 0 else np.asarray(one[k])) for j, k in enumerate(keys)}
        trial("dict_mixed_1", mixed1)
        # a malformed key AFTER a properly batched one is not validated any more (`vectorized_env or ...` short-circuits);
        # the same arrays with the malformed key FIRST are rejected: acceptance depends on the key order
        if len(keys) >= 2:
            bm_ = batch(many)
            late = {k: (np.asarray(bm_[k])[:, None] if j == len(keys) - 1 else bm_[k]) for j, k in enumerate(keys)}
            trial("dict_extra_axis_late", late)
            trial("dict_extra_axis_first", {k: late[k] for k in reversed(keys)})
            # seeding round 5 (C11_5): a Dict observation whose insertion order differs from the space's (sorted) key order is the
            # same observation (dicts compare equal, Dict.contains accepts it; environments build their dicts in any order)
            perm_one = {k: one[k] for k in reversed(keys)}
            perm_many = {k: bm_[k] for k in reversed(keys)}
            trial("perm_single", perm_one)
            trial("perm_batchn", perm_many)
            try:
                extra_perm = {"single": bool(np.array_equal(model.predict(one, deterministic=True)[0], model.predict(perm_one, deterministic=True)[0])),
                              "batchn": bool(np.array_equal(model.predict(bm_, deterministic=True)[0], model.predict(perm_many, deterministic=True)[0]))}
            except Exception as ex:  # noqa: BLE001
                extra_perm = {"exception": type(ex).__name__ + ": " + str(ex)[:160]}
    # float32 copies of images given to predict() for a uint8 image space must be scaled like the uint8 originals
    if has_img:
        def as_float(o, space_):
            if isinstance(space_, spaces.Dict):
                return {k: as_float(o[k], space_[k]) for k in space_.spaces}
            return np.asarray(o).astype(np.float32) if is_image_space(space_) else o

        trial("float_image_single", as_float(one, pspace))
        trial("float_image_batchn", as_float(batch(many), pspace))
    # training-path features for the same observations, THROUGH THE BUFFER the algorithm trains from:
    # RolloutBuffer / DictRolloutBuffer hold float32 copies, ReplayBuffer / DictReplayBuffer keep the space's dtype
    train_feat = None
    train_dtype = None
    try:
        if algo in ("PPO", "A2C"):
            buf = type(model.rollout_buffer)(n, pspace, ac, device="cpu", n_envs=1)
            for o in many:
                o1 = {k: np.asarray(v)[None] for k, v in o.items()} if isinstance(o, dict) else np.asarray(o)[None]
                buf.add(o1, np.asarray(ac.sample())[None], np.zeros(1, dtype=np.float32), np.zeros(1, dtype=np.float32), th.zeros(1), th.zeros(1))
            buf.compute_returns_and_advantage(th.zeros(1), np.zeros(1, dtype=bool))
            next(iter(buf.get(None)))                      # flattens the arrays, as train() does
            samples = buf._get_samples(np.arange(n))
        else:
            buf = type(model.replay_buffer)(n + 1, pspace, ac, device="cpu", n_envs=1)
            for o in many:
                o1 = {k: np.asarray(v)[None] for k, v in o.items()} if isinstance(o, dict) else np.asarray(o)[None]
                buf.add(o1, o1, np.asarray(ac.sample())[None], np.zeros(1, dtype=np.float32), np.zeros(1, dtype=bool), [{}])
            samples = buf._get_samples(np.arange(n))
        obs_t = samples.observations
        first = next(iter(obs_t.values())) if isinstance(obs_t, dict) else obs_t
        train_dtype = str(first.dtype)
        del feats[:]
        with th.no_grad():
            if algo in ("PPO", "A2C"):
                acts = samples.actions.long().flatten() if isinstance(ac, spaces.Discrete) else samples.actions
                pol.evaluate_actions(obs_t, acts)
            elif algo == "DQN":
                pol.q_net(obs_t)
            else:
                pol.actor(obs_t)
        if feats:
            f = feats[0]
            train_feat = {k: v.detach().cpu().numpy() for k, v in f.items()} if isinstance(f, dict) else f.detach().cpu().numpy()
    except Exception as ex:  # noqa: BLE001
        train_feat = "exception " + repr(ex)[:200]
    for h in hooks:
        h.remove()

    # ---- oracle on features (done here: arrays are not JSON) ----
    feat_probs = []

    def expected_features(space, arr_batch):
        """what preprocess_obs must hand to the extractor, from the property text: one-hot by value, images / 255, else float"""
        a = np.asarray(arr_batch)
        if isinstance(space, spaces.Discrete):
            return np.eye(int(space.n), dtype=np.float32)[a.reshape(-1).astype(int)]
        if isinstance(space, spaces.MultiDiscrete):
            return np.concatenate([np.eye(int(k), dtype=np.float32)[a[:, j].astype(int)] for j, k in enumerate(space.nvec)], axis=1)
        if is_image_space(space):
            return a.astype(np.float32) / 255.0 if norm_img else a.astype(np.float32)     # normalize_images=False: the user scales
        return a.astype(np.float32)

    def canon(space_, f, exp):
        """buffers keep Discrete observations as (n, 1): the one-hot features are then (n, 1, k), flattened by the extractor"""
        f = np.asarray(f)
        if isinstance(space_, (spaces.Discrete, spaces.MultiDiscrete)) and f.ndim == exp.ndim + 1 and f.shape[1] == 1:
            f = f.reshape(f.shape[0], -1)
        if isinstance(space_, spaces.Box) and space_.shape == () and f.size == exp.size:
            f = f.reshape(exp.shape)          # buffers keep rank-0 observations as (n, 1)
        return f

    def check_feat(tag, got, obs_batch):
        if got is None:
            return
        if isinstance(pspace, spaces.Dict):
            for k in pspace.spaces:
                exp = expected_features(pspace[k], obs_batch[k])
                if got.get(k) is not None:
                    got[k] = canon(pspace[k], got[k], exp)
                if got.get(k) is None or got[k].shape != exp.shape or not np.array_equal(got[k], exp):
                    feat_probs.append(("oracle-image-scaling-training-vs-prediction" if tag.startswith("training path") and is_image_space(pspace[k]) else "oracle-features", f"{tag}: features of key {k} are not the {'one-hot' if isinstance(pspace[k], spaces.Discrete) else 'scaled'} encoding of the observation"))
        else:
            exp = expected_features(pspace, obs_batch)
            got = canon(pspace, got, exp)
            if got.shape != exp.shape or not np.array_equal(got, exp):
                kind = "oracle-image-scaling-training-vs-prediction" if tag.startswith("training path") and is_image_space(pspace) else "oracle-one-hot" if isinstance(pspace, (spaces.Discrete, spaces.MultiDiscrete)) else ("oracle-image-scaling" if is_image_space(pspace) else "oracle-features")
                feat_probs.append((kind, f"{tag}: network input {str(got.reshape(-1)[:8].tolist())} is not the expected encoding {str(exp.reshape(-1)[:8].tolist())} of the observation"))

    bm = batch(many)
    extra = {"gym_tuple": extra_tuple, "perm": extra_perm}
    # (a) state / episode_start are passed through untouched by non-recurrent policies
    try:
        st_in = (np.zeros((1, 2), dtype=np.float32),)
        a0, _ = model.predict(one, deterministic=True)
        a1, st_out = model.predict(one, state=st_in, episode_start=np.array([True]), deterministic=True)
        extra["state"] = {"same_object": st_out is st_in, "same_action": bool(np.array_equal(a0, a1)), "none_when_none": model.predict(one, deterministic=True)[1] is None}
    except Exception as ex:  # noqa: BLE001
        extra["state"] = {"exception": repr(ex)[:200]}
    # (b) Box actions: what predict() returns vs the policy's low-level output (actor / _predict)
    if isinstance(ac, spaces.Box):
        try:
            with th.no_grad():
                obs_t, _ = pol.obs_to_tensor(bm)
                raw = pol._predict(obs_t, deterministic=True).cpu().numpy()
                act_raw = None
                if algo == "SAC":
                    act_raw = pol.actor(obs_t, deterministic=True).cpu().numpy()
                elif algo in ("TD3", "DDPG"):
                    act_raw = pol.actor(obs_t).cpu().numpy()
            pred = model.predict(bm, deterministic=True)[0]
            extra["lowlevel"] = {"raw_shape": list(raw.shape), "raw": raw.reshape(n, -1)[0].astype(np.float64).tolist(), "pred": np.asarray(pred).reshape(n, -1)[0].astype(np.float64).tolist(),
                                 "lo": np.asarray(ac.low, dtype=np.float64).reshape(-1).tolist(), "hi": np.asarray(ac.high, dtype=np.float64).reshape(-1).tolist(),
                                 "squash": bool(pol.squash_output), "raw_min": float(raw.min()), "raw_max": float(raw.max()),
                                 "actor_same": None if act_raw is None else bool(np.array_equal(act_raw, raw))}
        except Exception as ex:  # noqa: BLE001
            extra["lowlevel"] = {"exception": repr(ex)[:200]}
    # (c) MultiDiscrete observations: the feature row of the single observation
    md_row = None
    for rec in trials:
        if rec["name"] == "single" and isinstance(pspace, spaces.MultiDiscrete) and rec.get("feat") is not None:
            md_row = {"nvec": [int(x) for x in pspace.nvec], "vals": [int(x) for x in np.asarray(one).reshape(-1)], "feat": np.asarray(rec["feat"]).reshape(-1).astype(int).tolist()}
    extra["md_row"] = md_row
    for rec in trials:
        if rec["name"] == "single" and isinstance(pspace, spaces.Discrete) and rec.get("feat") is not None:
            extra["oh_row"] = {"n": int(pspace.n), "v": int(one), "feat": np.asarray(rec["feat"]).reshape(-1).astype(int).tolist()}
    for rec in trials:
        got = rec.pop("feat", None)
        gotd = rec.pop("feat_dict", None)
        g = gotd if isinstance(pspace, spaces.Dict) else got
        if rec["name"] in ("batchn", "alt_layout_batchn", "float_image_batchn", "perm_batchn") and "exception" not in rec:
            check_feat("predict(" + rec["name"] + ")", g, bm)
        if rec["name"] in ("single", "alt_layout_single", "float_image_single", "perm_single") and "exception" not in rec:
            check_feat("predict(" + rec["name"] + ")", g, batch([one]))
    if isinstance(train_feat, str):
        feat_probs.append(("oracle-training-features", train_feat))
    elif train_feat is not None:
        check_feat(f"training path (samples of {type(buf).__name__}, observations stored as {train_dtype})", train_feat, bm)

    def space_desc(sp):
        if isinstance(sp, spaces.Dict):
            return {"kind": "dict", "keys": {k: space_desc(s) for k, s in sp.spaces.items()}}
        if isinstance(sp, spaces.Box):
            return {"kind": "box", "shape": list(sp.shape), "image": bool(is_image_space(sp))}
        if isinstance(sp, spaces.Discrete):
            return {"kind": "discrete", "n": int(sp.n)}
        if isinstance(sp, spaces.MultiDiscrete):
            return {"kind": "multidiscrete", "k": len(sp.nvec)}
        return {"kind": "multibinary", "shape": list(sp.shape)}

    return {"trials": trials, "pspace": space_desc(pspace), "ashape": list(ac.shape), "feat_probs": feat_probs, "squash": bool(getattr(pol, "squash_output", False)), "extra": extra}


def _worker(case):
    from harness import cov_collect as branchcov

    try:
        if branchcov.enabled():
            branchcov.start(list(COV_TARGETS))
            try:
                res = run_impl(case)
            finally:
                cov = branchcov.stop()
            res["cov"] = cov
            return res
        return run_impl(case)
    except Exception:  # noqa: BLE001
        import traceback

        return {"error": traceback.format_exc()[-2500:]}


# ---------------------------------------------------------------- model

def coq_space(d):
    k = d["kind"]
    if k == "box":
        return f"(SBox {coq_list(d['shape'], coq_Z)} {coq_bool(d['image'])})"
    if k == "discrete":
        return "SDiscrete"
    if k == "multidiscrete":
        return f"(SMultiDiscrete {coq_Z(d['k'])})"
    return f"(SMultiBinary {coq_list(d['shape'], coq_Z)})"


def model_exprs(case, impl):
    ex = []
    ps, ash = impl["pspace"], coq_list(impl["ashape"], coq_Z)
    for t in impl["trials"]:
        if ps["kind"] == "dict":
            keys = t.get("in_keys") or list(ps["keys"])      # iteration order of the observation dict that was passed
            ex.append(f"check_predict_dict {coq_list([coq_space(ps['keys'][k]) for k in keys])} {ash} {coq_list([coq_list(t['in_shape'][k], coq_Z) for k in keys])}")
        else:
            ex.append(f"check_predict {coq_space(ps)} {ash} {coq_list(t['in_shape'], coq_Z)}")
    xt = impl.get("extra", {})
    if ps["kind"] == "discrete":
        oh = xt.get("oh_row") or {"n": ps["n"], "v": ps["n"] // 2}
        ex.append(f"onehot {coq_nat(oh['n'])} {coq_nat(oh['v'])}")
    if xt.get("md_row"):
        ex.append(f"onehot_concat {coq_list(xt['md_row']['nvec'], coq_nat)} {coq_list(xt['md_row']['vals'], coq_nat)}")
    ll = xt.get("lowlevel")
    if ll and "exception" not in ll:
        from fractions import Fraction

        q = lambda x: common.coq_Q(Fraction(float(x)))  # noqa: E731
        items = [f"({q(lo)}, {q(hi)}, {q(x)}, {q(p)})" for lo, hi, x, p in zip(ll["lo"], ll["hi"], ll["raw"], ll["pred"])]
        ex.append(f"check_values {coq_bool(ll['squash'])} {coq_list(items)}")
    return ex


def judge(case, impl, vals):
    probs = []
    ps = impl["pspace"]
    ash = impl["ashape"]
    for t, v in zip(impl["trials"], vals):
        name = t["name"]
        if ps["kind"] == "dict":
            greedy = v
        else:
            greedy, eps = v
            if t["eps"] is not None:
                greedy = eps
        if t["is_int"]:
            greedy = [1] + ash          # a Python int is never vectorised (vec_discrete true _ = Some false)
        model_ok = greedy[0] == 1
        where = f"{name} (input shape {t['in_shape']})"
        if "exception" in t:
            if model_ok:
                probs.append(("model-correspondence-unexpected-exception", f"{where}: predict raised {t['exception']}, model returns shape {greedy[1:]}"))
            continue
        if not model_ok:
            # malformed input accepted: the statement is about well-formed inputs only; report the disagreement with the model
            probs.append(("model-correspondence-malformed-accepted", f"{where}: predict returned shape {t['out_shape']}, model rejects the input"))
            continue
        if t["out_shape"] != greedy[1:]:
            probs.append(("model-correspondence-shape", f"{where}: predict returned shape {t['out_shape']}, model {greedy[1:]}"))
        # ---- oracle from the property text ----
        wellformed = name in ("single", "single_stochastic", "batch1", "batchn", "python_int", "eps_single", "eps_batchn", "alt_layout_single", "alt_layout_batchn", "float_image_single", "float_image_batchn", "perm_single", "perm_batchn")
        if wellformed:
            batched = name in ("batch1", "batchn", "eps_batchn", "alt_layout_batchn", "float_image_batchn", "perm_batchn")
            nb = 1 if name == "batch1" else case["n"]
            want = ([nb] if batched else []) + ash
            if t["out_shape"] != want:
                probs.append(("oracle-shape", f"{where}: returned shape {t['out_shape']}, expected {want} (leading batch dimension exactly when the input had one)"))
            if not all(t["contains"]):
                probs.append(("oracle-action-not-in-space", f"{where}: returned action {t['bad_action']} is not contained in the action space (weights x{case['scale']})"))
            if t.get("repeatable") is False:
                probs.append(("oracle-not-deterministic", f"{where}: two deterministic=True calls disagree"))
        if not t["obs_unchanged"]:
            probs.append(("oracle-observation-mutated", f"{where}: the caller's observation changed during predict"))
        if not t["params_unchanged"]:
            probs.append(("oracle-parameters-mutated", f"{where}: policy parameters changed during predict"))
    for t in impl["trials"]:
        if "exception" in t and t["name"] in ("single", "single_stochastic", "batch1", "batchn", "python_int", "eps_single", "eps_batchn", "alt_layout_single", "alt_layout_batchn", "float_image_single", "float_image_batchn", "perm_single", "perm_batchn"):
            probs.append(("oracle-wellformed-input-rejected", f"{t['name']} (input shape {t['in_shape']}): {t['exception']}"))
    probs += [tuple(p) for p in impl["feat_probs"]]
    xt = impl.get("extra", {})
    k = len(impl["trials"]) + (1 if ps["kind"] == "discrete" else 0)
    if xt.get("md_row"):
        if vals[k] != xt["md_row"]["feat"]:
            probs.append(("model-correspondence-onehot-concat", f"MultiDiscrete observation {xt['md_row']['vals']} of nvec {xt['md_row']['nvec']}: network input {xt['md_row']['feat']}, model {vals[k]}"))
        want, off = [0] * sum(xt["md_row"]["nvec"]), 0
        for nv, v in zip(xt["md_row"]["nvec"], xt["md_row"]["vals"]):
            want[off + v] = 1
            off += nv
        if want != xt["md_row"]["feat"]:
            probs.append(("oracle-one-hot-concat-order", f"MultiDiscrete observation {xt['md_row']['vals']} of nvec {xt['md_row']['nvec']}: network input {xt['md_row']['feat']}, expected {want}"))
        k += 1
    if xt.get("gym_tuple") not in (None, "ValueError") and not (ps["kind"] == "box" and ps["shape"] == []):
        probs.append(("oracle-gym-api-tuple-not-refused", f"predict((obs, info)) gave {xt['gym_tuple']} instead of the documented ValueError"))
    pm = xt.get("perm")
    if pm:
        if "exception" in pm:
            probs.append(("oracle-dict-key-order-rejected", f"the same Dict observation with its keys in another order: {pm['exception']}"))
        elif not (pm["single"] and pm["batchn"]):
            probs.append(("oracle-dict-key-order-changes-action", f"deterministic predict() returns a different action for the same Dict observation given with its keys in another order: {pm}"))
    st = xt.get("state")
    if st:
        if "exception" in st:
            probs.append(("oracle-state-argument-rejected", f"predict(obs, state=..., episode_start=...) raised {st['exception']}"))
        elif not (st["same_object"] and st["same_action"] and st["none_when_none"]):
            probs.append(("oracle-state-not-passed-through", f"non-recurrent policy: predict with state/episode_start gave {st}"))
    ll = xt.get("lowlevel")
    if ll:
        if "exception" in ll:
            probs.append(("oracle-lowlevel-call-failed", ll["exception"]))
        else:
            n_ = case["n"]
            import numpy as _np

            if ll["raw_shape"][0] != n_ or int(_np.prod(ll["raw_shape"][1:])) != len(ll["lo"]):
                probs.append(("oracle-lowlevel-shape", f"policy._predict on a batch of {n_} returned shape {ll['raw_shape']} for an action space of {len(ll['lo'])} coordinates"))
            if ll["squash"] and (ll["raw_min"] < -1 - 1e-6 or ll["raw_max"] > 1 + 1e-6):
                probs.append(("oracle-squashed-output-outside-unit", f"squash_output policy: low-level output in [{ll['raw_min']}, {ll['raw_max']}]"))
            if ll["actor_same"] is False:
                probs.append(("oracle-actor-forward-differs", "policy.actor(obs, deterministic=True) differs from policy._predict(obs, deterministic=True)"))
            exp = [(lo + 0.5 * (x + 1.0) * (hi - lo)) if ll["squash"] else min(max(x, lo), hi) for lo, hi, x in zip(ll["lo"], ll["hi"], ll["raw"])]
            if any(abs(a - b) > 1e-5 * (1 + abs(a)) for a, b in zip(exp, ll["pred"])):
                probs.append(("oracle-predict-not-rescaled-lowlevel", f"predict returned {ll['pred']}, low-level output {ll['raw']} -> expected {exp} (squash_output={ll['squash']}, bounds {ll['lo']}..{ll['hi']})"))
            if not all(vals[k]):
                probs.append(("model-correspondence-predict-value", f"predict {ll['pred']} vs model of low-level {ll['raw']} (squash={ll['squash']}): {vals[k]}"))
            k += 1
    if ps["kind"] == "discrete":
        oh = vals[len(impl["trials"])]
        row = impl.get("extra", {}).get("oh_row")
        if row and oh != row["feat"]:
            probs.append(("model-correspondence-onehot", f"Discrete({row['n']}) observation {row['v']}: the network input is {row['feat']}, Model.Shapes.onehot gives {oh}"))
    if ps["kind"] == "box" and ps["shape"] == []:
        # finding: Box observation spaces of rank 0 are rejected by the network (Flatten(start_dim=1)); classified precisely: only the
        # rejection of well-formed inputs of such a space
        probs = [((RANK0_SIG, "Box(shape=()) observation space: " + m) if sg in ("oracle-wellformed-input-rejected", "oracle-state-argument-rejected", "oracle-lowlevel-call-failed", "oracle-training-features")
                 and "IndexError" in m else (sg, m)) for sg, m in probs]
    return probs


# ---------------------------------------------------------------- create_mlp structure stream

def mlp_grid():
    out = []
    for arch in ([], [8], [8, 4], [3, 3, 2]):
        for output_dim in (-1, 0, 3):
            for squash in (False, True):
                for bias in (True, False):
                    for npre in (0, 1):
                        for npost in (0, 1, 2):
                            out.append({"arch": arch, "out": output_dim, "squash": squash, "bias": bias, "npre": npre, "npost": npost})
    return out


def _mlp_worker(grid):
    """the real create_mlp on the grid: every module as (kind, a, b, bias)"""
    import torch as th
    from stable_baselines3.common.torch_layers import create_mlp

    from harness import cov_collect

    if cov_collect.enabled():
        cov_collect.start(list(COV_TARGETS))
    res = []
    for g in grid:
        try:
            mods = create_mlp(5, g["out"], g["arch"], activation_fn=th.nn.ReLU, squash_output=g["squash"], with_bias=g["bias"],
                              pre_linear_modules=[th.nn.BatchNorm1d] * g["npre"], post_linear_modules=[th.nn.LayerNorm] * g["npost"])
            row = []
            for m in mods:
                if isinstance(m, th.nn.Linear):
                    row.append([2, m.in_features, m.out_features, m.bias is not None])
                elif isinstance(m, th.nn.BatchNorm1d):
                    row.append([1, m.num_features, 0, False])
                elif isinstance(m, th.nn.LayerNorm):
                    row.append([3, int(m.normalized_shape[0]), 0, False])
                elif isinstance(m, th.nn.ReLU):
                    row.append([4, 0, 0, False])
                elif isinstance(m, th.nn.Tanh):
                    row.append([5, 0, 0, False])
                else:
                    row.append([9, 0, 0, False])
            res.append(row)
        except Exception as ex:  # noqa: BLE001
            res.append("exception " + repr(ex)[:200])
    if cov_collect.enabled():
        res.append({"cov": cov_collect.stop()})
    return res


MLP_COV = []


def mlp_stream(chk):
    import multiprocessing as mp

    grid = mlp_grid()
    with mp.get_context("fork").Pool(1) as pool:
        impl = pool.apply(_mlp_worker, (grid,))
    MLP_COV[:] = impl.pop()["cov"] if impl and isinstance(impl[-1], dict) else []
    exprs = [f"show_mlp 5 {coq_Z(g['out'])} {coq_list(g['arch'], coq_Z)} {coq_bool(g['squash'])} {coq_bool(g['bias'])} {coq_nat(g['npre'])} {coq_nat(g['npost'])}" for g in grid]
    vals = common.coq_eval_many(chk.pid + "_mlp", HEADER, exprs, shard=150, procs=2)
    probs = []
    for g, im, mv in zip(grid, impl, vals):
        if isinstance(im, str):
            probs.append(("oracle-create-mlp-exception", f"create_mlp{g}: {im}"))
            continue
        got = [tuple(x) for x in im]
        if (len(got) > 0 and got[-1][0] == 5) != g["squash"] or any(x[0] == 5 for x in got[:-1]):
            probs.append(("oracle-mlp-tanh-iff-squash", f"create_mlp(net_arch={g['arch']}, output_dim={g['out']}, squash_output={g['squash']}) returns layer kinds {[x[0] for x in got]} "
                                                        f"(5 = Tanh): the network must end with Tanh exactly when squash_output is set"))
        if sum(1 for x in got if x[0] == 2) != len(g["arch"]) + (1 if g["out"] > 0 else 0):
            probs.append(("oracle-mlp-linear-count", f"create_mlp(net_arch={g['arch']}, output_dim={g['out']}): {sum(1 for x in got if x[0] == 2)} Linear layers"))
        if got != [tuple(x) for x in mv]:
            probs.append(("model-correspondence-create-mlp", f"create_mlp{g}: impl layers {got}, model {mv}"))
    return len(grid), probs


def run_cases(chk, cases, procs=4):
    import multiprocessing as mp

    ctx = mp.get_context("fork")
    with ctx.Pool(min(procs, max(1, len(cases)))) as pool:
        impls = pool.map(_worker, cases, chunksize=1)
    results = [None] * len(cases)
    exprs, spans = [], {}
    for i, (c, im) in enumerate(zip(cases, impls)):
        if im.get("error"):
            results[i] = [("impl-exception", im["error"][-800:])]
            continue
        ex = model_exprs(c, im)
        spans[i] = (len(exprs), len(exprs) + len(ex))
        exprs += ex
    vals = common.coq_eval_many(chk.pid, HEADER, exprs, shard=200, procs=4) if exprs else []
    for i, (a, b) in spans.items():
        results[i] = judge(cases[i], impls[i], vals[a:b])
    return impls, results


def oracle_first(cases, impls, results):
    """reporting order: cases whose statement-level oracle fails (concrete input) before cases where only model and implementation
    disagree, so that the cap on reported violations never hides a concrete input behind a model-correspondence line"""
    def rank(i):
        pr = results[i] or []
        if any(not sg.startswith("model-correspondence-") and sg != "impl-exception" for sg, _ in pr):
            return 0
        return 1 if pr else 2
    order = sorted(range(len(cases)), key=rank)
    return [(cases[i], impls[i], results[i]) for i in order]


def main():
    chk = Check("C11", groups=["shapes"])
    chk.build_props()
    n_cases = 144 if chk.tier == "quick" else 2000
    cases = []
    corpus = os.path.join(common.VERIF, "corpus", "C11.jsonl")
    if os.path.exists(corpus):
        cases += [json.loads(l) for l in open(corpus) if l.strip()]
    n_corpus = len(cases)
    for i in range(n_cases):
        cases.append(gen_case(chk.rng, i))
    impls, results = run_cases(chk, cases)
    n_mlp, mlp_probs = mlp_stream(chk)
    if mlp_probs:
        oracle_bad = [sg for sg, _ in mlp_probs if sg.startswith("oracle-")]
        sig = oracle_bad[0] if oracle_bad else mlp_probs[0][0]
        chk.violation(sig, "; ".join(m for sg, m in mlp_probs if sg == sig)[:700], {"stream": "create_mlp", "problems": mlp_probs[:10],
                      "correspondence": "torch_layers.create_mlp vs Model.Shapes.mlp_layers"}, found_input=bool(oracle_bad))
    hist = {"mlp_structures": n_mlp, "pk_net_arch": {}, "algo": {}, "obs": {}, "act": {}, "scale": {}, "trials": 0, "trial_kinds": {}, "rejected_inputs": 0, "squash": 0}
    distinct = set()
    for c, im, probs in oracle_first(cases, impls, results):
        for k in ("algo", "obs", "act", "scale"):
            hist[k][str(c[k])] = hist[k].get(str(c[k]), 0) + 1
        na = (c.get("pk") or {}).get("net_arch", "8")
        hist["pk_net_arch"][na] = hist["pk_net_arch"].get(na, 0) + 1
        if not im.get("error"):
            hist["trials"] += len(im["trials"])
            hist["squash"] += int(im["squash"])
            for t in im["trials"]:
                hist["trial_kinds"][t["name"]] = hist["trial_kinds"].get(t["name"], 0) + 1
                hist["rejected_inputs"] += int("exception" in t)
                distinct.add(json.dumps([im["pspace"], im["ashape"], t["in_shape"], t["eps"] is not None], sort_keys=True))
        if any(sg == RANK0_SIG for sg, _ in probs) and not any(v["signature"] == RANK0_SIG for v in chk.violations):
            chk.violation(RANK0_SIG, "; ".join(m for sg, m in probs if sg == RANK0_SIG)[:700], {"case": c, "problems": [q for q in probs if q[0] == RANK0_SIG][:6]}, found_input=True)
        probs = [q for q in probs if q[0] != RANK0_SIG]
        if probs and len([v for v in chk.violations if v["signature"] != RANK0_SIG]) < 3:
            oracle_bad = [s for s, _ in probs if s.startswith("oracle-")]
            sig = oracle_bad[0] if oracle_bad else probs[0][0]
            chk.violation(sig, "; ".join(m for s, m in probs if s == sig)[:700],
                          {"case": c, "problems": probs[:10], "correspondence": "harness/c11.py vs Model.Shapes.check_predict"},
                          found_input=bool(oracle_bad) or sig == "impl-exception")
    chk.coverage["evaluations"] = hist["trials"]
    chk.coverage["traces_validated_against_impl"] = hist["trials"]
    chk.coverage["distinct_nontrivial"] = len(distinct)
    chk.coverage["rule"] = ("policies of PPO/A2C/SAC/TD3/DDPG/DQN (Mlp/Cnn/MultiInput) on random space pairs, weights scaled by 1/30/1000; per policy: one observation, stochastic, batch of 1, batch of n, Python int, "
                            "DQN exploration branch, images in the other layout, malformed shapes, mixed Dict batches; evaluations = predict trials; distinct = distinct (policy space, action shape, input shape, branch)")
    chk.notes["input_distribution"] = hist
    chk.notes["corpus_cases"] = n_corpus
    chk.notes["policies"] = len(cases)
    chk.add_samples([{k: cases[i][k] for k in ("algo", "obs", "act", "scale", "n")} for i in (n_corpus, n_corpus + 1) if i < len(cases)])
    chk.assumptions += [
        "float32 rounding of unscale_action / np.clip is not modelled (bounds proved over Q); the harness checks action_space.contains on networks whose weights were scaled up to saturate the outputs",
        "Discrete / MultiDiscrete observation spaces start at 0 (non-zero starts are documented as unsupported)",
        "numpy reshape / squeeze and torch concatenation of per-key features are tied to the model by this correspondence only",
    ]
    from harness import cov_collect as branchcov

    if branchcov.enabled():
        executed = {tuple(x) for im in impls for x in (im.get("cov") or [])} | {tuple(x) for x in MLP_COV}
        chk.notes["branchcov"] = {"targets": {k: v for k, v in COV_TARGETS.items()}, "never_executed": branchcov.report(COV_TARGETS, executed)}
    return chk.finish()


def replay(path):
    d = json.load(open(path))
    case = d["replay"]["case"]
    chk = Check("C11", groups=["shapes"])
    impls, results = run_cases(chk, [case], procs=1)
    print(json.dumps({"problems": results[0]}, indent=1)[:4000])
    return 1 if results[0] else 0
