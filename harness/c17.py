"""C17 - VecEnv wrappers keep the contract and transform terminal observations alike.

Proof side:  Props/C17.v (Model/Wrappers.v on Model/VecEnv.v): window = zero-padded suffix of the current
             episode for every history and n_stack; terminal stack; pass-through and terminal-transform
             laws by structural induction over arbitrary wrapper stacks; shape laws; regenerated
             compute_stacking / update arithmetic (fragment group "stacking").
Tie:         correspondence, cell by cell: random type-correct stacks (depth <= 4) of the real VecFrameStack,
             VecTransposeImage, VecExtractDictObs, VecMonitor, VecCheckNan over a DummyVecEnv of scripted
             environments (Box rank 1-3, images HWC/CHW, Dict with per-key channel orders) vs
             Model.Wrappers.run_wrapped_scripted on the same scripts/ops (tensors run-length encoded).
Oracle:      plain numpy reference written from the property text (episode frame lists per layer).
"""
from __future__ import annotations

import json
import os

from harness import common
from harness.common import Check

def _rm_cases(name):
    """case files are named per process (concurrent runs of one check must not share them) and removed after evaluation"""
    import glob

    for q in glob.glob(os.path.join(common.GEN, f"Cases_{name}_*.v")):
        try:
            os.remove(q)
        except OSError:
            pass


REGISTRY = dict(
    text=("Proof (unbounded): for every history and every n_stack >= 1 the frame-stack window is the last n observations of the current episode zero-padded on the old side "
          "(polymorphic in the frame type), the stacked terminal observation is the same suffix of the episode that just ended; for every stack of wrappers "
          "(structural induction) rewards, dones and truncation flags pass through unchanged and the terminal observation equals what the same stack would return "
          "had it arrived as an ordinary observation; stacked/transposed shapes; compute_stacking axis/shape arithmetic regenerated from the source. "
          "Tie: cell-by-cell correspondence of random wrapper stacks over Box/image/Dict scripted environments, membership in the declared space checked on every output. "
          "Round 5: windows and stacked terminal observations lie within the declared (np.repeat) bounds when the bounds contain 0 and do not vary along the stacking axis, within tiled bounds always; "
          "VecCheckNan is the identity on finite data for every history and reports exactly the non-finite cells (nan; inf under check_inf)."),
    note=("Trusted: Coq 8.16.1 kernel (vm_compute, no native_compute), translate/py2coq.py + specs/stacking.py, harness/c17.py + scripted_envs.py, Python/numpy/gymnasium. "
          "The Box instance of the executable wrapper model is proved to run the abstract frame-stack (C17_box_window_is_episode_suffix); the Dict (per-key) instance, "
          "the numpy slicing/roll/concatenate/transposition code and 'observation belongs to the declared space' (observation_space.contains on every output) are tied by "
          "correspondence only. Aliasing of returned arrays is decided under C19, episode statistics of VecMonitor under C18. Findings (round 5): the stacked space is declared with np.repeat of the base bounds, so (A) zero-padded slots whose element bounds exclude 0 and (B) bounds that vary along the stacking axis put returned observations outside the declared space "
          "(Refuted/C17_zero_padding.v, Refuted/C17_repeat_bounds.v, reproduced from corpus inputs; every non-member is classified cell by cell, anything else is a violation); the positive bounds theorem needs both hypotheses. "
          "VecCheckNan is modelled (Model/CheckNan.v) and tied by regenerated guards + correspondence with injected nan/inf. F1 (VecFrameStack returning its internal window) was repaired in /repo and is recorded under C19. All C17 theorems are closed under the global context."),
    technique="machine-checked proof in Coq (induction over histories and over wrapper stacks) + regenerated-fragment interface lemmas + differential correspondence + numpy oracle",
)

HEADER = """From Coq Require Import List ZArith Bool.
From SB3V Require Import Model.Script Model.VecEnv Model.Wrappers.
Import ListNotations.
"""

F32, U8, U8B = "f32", "u8", "u8b"     # u8b: uint8 with bounds [0, 250] - NOT an image space (images need bounds exactly [0, 255])
# base spaces: Box -> {"0": (shape, dtype)}; Dict -> {key: (shape, dtype)}
BASES = {
    "box1": ("box", {"0": ((3,), F32)}),
    "box2": ("box", {"0": ((2, 3), F32)}),
    "box3": ("box", {"0": ((2, 1, 2), F32)}),
    "box4": ("box", {"0": ((2, 1, 2, 2), F32)}),      # rank 4 (and, stacked, still rank 4): "Box of any rank"
    # rank-3 spaces that are NOT images although they look like one: float with the smallest axis first / last, uint8 with other bounds.
    # channels_order=None must stack them on the LAST axis and VecTransposeImage must refuse them
    "f3_first": ("box", {"0": ((2, 5, 6), F32)}),
    "f3_last": ("box", {"0": ((5, 6, 2), F32)}),
    "u8b_first": ("box", {"0": ((2, 4, 5), U8B)}),
    "dict_f3": ("dict", {"cam": ((2, 4, 5), F32), "pix": ((3, 4, 4), U8), "odd": ((1, 4, 5), U8B)}),
    "img_hwc1": ("box", {"0": ((4, 5, 1), U8)}),
    "img_hwc3": ("box", {"0": ((4, 4, 3), U8)}),
    "img_chw": ("box", {"0": ((3, 4, 4), U8)}),
    "dict": ("dict", {"img": ((4, 5, 1), U8), "m": ((2, 2), F32), "vec": ((2,), F32)}),
    "dict_chw": ("dict", {"cam": ((1, 4, 5), U8), "vec": ((3,), F32)}),
    "dict2img": ("dict", {"a": ((4, 4, 3), U8), "b": ((3, 5, 1), U8)}),
}


# ---------------------------------------------------------------- independent space rules (from the docs)

def is_image(shape, dtype):
    return dtype == U8 and len(shape) == 3          # all our uint8 spaces have bounds [0, 255]


def channels_first_of(shape):
    return min(range(len(shape)), key=lambda i: (shape[i], i)) == 0


def resolve_cf(order, shape, dtype):
    if order is None:
        return channels_first_of(shape) if is_image(shape, dtype) else False
    return order == "first"


def key_id(kind, keys, k):
    return 0 if kind == "box" else sorted(keys).index(k) + 1


# ---------------------------------------------------------------- generators

def gen_stack(rng, kind, leaves, allow_norm=False):
    """random type-correct wrapper stack, innermost first; returns (wrappers, final kind, final leaves)"""
    ws = []
    depth = rng.randint(1, 4)
    for _ in range(depth):
        opts = ["monitor", "checknan"]
        opts += ["framestack"] * 4
        imgs = [k for k, (s, d) in leaves.items() if is_image(s, d)]
        if (kind == "dict" or imgs) and all(not channels_first_of(leaves[k][0]) for k in imgs):
            opts += ["transpose"] * 2
        if kind == "dict":
            opts += ["extract"] * 2
        if allow_norm and kind == "box" and all(d == F32 for _, d in leaves.values()) and not any(x["w"] == "normalize" for x in ws):
            opts += ["normalize"] * 3
        w = rng.choice(opts)
        if w == "normalize":
            ws.append({"w": "normalize", "norm_obs": rng.random() < 0.8, "norm_reward": rng.random() < 0.6, "clip_obs": rng.choice([1.0, 5.0, 10.0])})
            continue
        if w == "framestack":
            n = rng.choice([1, 2, 2, 3, 3, 4, 5])
            if kind == "dict" and rng.random() < 0.6:
                order = {k: rng.choice([None, "first", "last"]) for k in leaves}
            else:
                order = rng.choice([None, None, "first", "last"])
            cf = {k: resolve_cf(order[k] if isinstance(order, dict) else order, *leaves[k]) for k in leaves}
            ws.append({"w": "framestack", "n": n, "order": order, "cf": cf})
            new = {}
            for k, (s, d) in leaves.items():
                s = list(s)
                s[0 if cf[k] else -1] *= n
                new[k] = (tuple(s), d)
            leaves = new
        elif w == "transpose":
            skip = rng.random() < 0.15
            ws.append({"w": "transpose", "skip": skip, "keys": [] if skip else sorted(imgs)})
            if not skip:
                leaves = {k: (((s[2], s[0], s[1]), d) if k in imgs else (s, d)) for k, (s, d) in leaves.items()}
        elif w == "extract":
            k = rng.choice(sorted(leaves))
            ws.append({"w": "extract", "key": k})
            kind, leaves = "box", {"0": leaves[k]}
        elif w == "monitor":
            # constructor parameters: results file and extra info keywords (the scripted info dicts always carry "tag" here)
            ws.append({"w": w, "file": rng.random() < 0.3, "info_keywords": rng.random() < 0.3})
        else:
            ws.append({"w": w, "raise_exception": rng.random() < 0.7, "warn_once": rng.random() < 0.5, "check_inf": rng.random() < 0.5})
        if max(max(s) for s, _ in leaves.values()) > 40:
            break
    return ws, kind, leaves


def gen_case(rng, idx, with_norm=False):
    from harness import scripted_envs as se

    base = ["box1", "box2", "box3"][idx % 3] if with_norm else list(BASES)[idx % len(BASES)]
    kind, leaves = BASES[base]
    ws, fkind, fleaves = gen_stack(rng, kind, dict(leaves), allow_norm=with_norm)
    if with_norm and not any(w["w"] == "normalize" for w in ws):
        ws.insert(rng.randint(0, len(ws)), {"w": "normalize", "norm_obs": True, "norm_reward": rng.random() < 0.6, "clip_obs": rng.choice([1.0, 5.0, 10.0])})
    n = rng.randint(1, 3)
    scripts = [se.gen_script(rng, n_episodes=rng.randint(1, 4), max_len=rng.choice([2, 4, 6]), tag_base=i * 70, tag_cap=255) for i in range(n)]
    ops = [["reset"]]
    aid = 0
    for _ in range(rng.randint(8, 22)):
        if rng.random() < 0.1:
            ops.append(["reset"])
        else:
            ops.append(["step", list(range(aid, aid + n))])
            aid += n
    return {"base": base, "wrappers": ws, "n": n, "scripts": scripts, "ops": ops, "seed_through_stack": rng.choice([None, None, rng.randint(0, 99)]), "final": [fkind, {k: [list(s), d] for k, (s, d) in fleaves.items()}], "id": idx}


# ---------------------------------------------------------------- implementation

def make_space(base):
    import numpy as np
    from gymnasium import spaces

    kind, leaves = BASES[base]

    def leaf(s, d):
        if d == U8B:
            return spaces.Box(0, 250, s, dtype=np.uint8)
        return spaces.Box(0, 255, s, dtype=np.uint8) if d == U8 else spaces.Box(-1e5, 1e5, s, dtype=np.float32)

    if kind == "box":
        return leaf(*leaves["0"])
    return spaces.Dict({k: leaf(*leaves[k]) for k in sorted(leaves)})


def build(case):
    from harness import scripted_envs as se
    from stable_baselines3.common.vec_env import DummyVecEnv, VecCheckNan, VecExtractDictObs, VecFrameStack, VecMonitor, VecNormalize, VecTransposeImage

    fns = [se.make_env_fn(sc, obs_space=make_space(case["base"]), act_kind="discrete", env_id=i) for i, sc in enumerate(case["scripts"])]
    venv = DummyVecEnv(fns)
    for w in case["wrappers"]:
        if w["w"] == "framestack":
            venv = VecFrameStack(venv, w["n"], channels_order=w["order"])
        elif w["w"] == "transpose":
            venv = VecTransposeImage(venv, skip=w["skip"])
        elif w["w"] == "extract":
            venv = VecExtractDictObs(venv, w["key"])
        elif w["w"] == "monitor":
            fname = None
            if w.get("file"):
                import tempfile

                fname = os.path.join(tempfile.mkdtemp(prefix="c17_vecmonitor_"), "run")
                case.setdefault("_tmpdirs", []).append(os.path.dirname(fname))
            venv = VecMonitor(venv, filename=fname, info_keywords=("tag",) if w.get("info_keywords") else ())
        elif w["w"] == "normalize":
            venv = VecNormalize(venv, norm_obs=w["norm_obs"], norm_reward=w["norm_reward"], clip_obs=w["clip_obs"], clip_reward=2.0, gamma=0.9)
        elif w["w"] == "checknan":
            venv = VecCheckNan(venv, raise_exception=w.get("raise_exception", True), warn_once=w.get("warn_once", True), check_inf=w.get("check_inf", True))
    return venv


def _one(obs, i):
    # copied at the time of return: C17 decides values only (aliasing is C19)
    import numpy as np

    return {k: np.array(v[i]) for k, v in obs.items()} if isinstance(obs, dict) else np.array(obs[i])


def run_impl(case, ops=None):
    """returns per env a list of raw outputs: ("reset", obs) | ("step", obs, rew, done, tl, term), obs = array or dict of arrays;
    plus `inspace`: list of problems found with observation_space.contains / declared shape"""
    import warnings

    import numpy as np

    ops = case["ops"] if ops is None else ops
    n = case["n"]
    with warnings.catch_warnings():
        warnings.simplefilter("ignore")
        venv = build(case)
        space = venv.observation_space
        per_env = [[] for _ in range(n)]
        bad = []
        snaps = []
        vn = venv
        while vn is not None and type(vn).__name__ != "VecNormalize":
            vn = getattr(vn, "venv", None)

        def snap():
            # the normaliser's statistics AFTER this operation (what normalize_obs / normalize_reward used)
            if vn is not None:
                snaps.append({"mean": np.array(vn.obs_rms.mean) if vn.norm_obs else None, "var": np.array(vn.obs_rms.var) if vn.norm_obs else None, "rvar": float(vn.ret_rms.var),
                              "eps": float(vn.epsilon), "clip_reward": float(vn.clip_reward)})
            else:
                snaps.append(None)

        def check(o, where):
            try:
                ok = space.contains(o)
            except Exception as e:  # noqa: BLE001
                ok = False
                where += f" ({type(e).__name__})"
            if not ok:
                bad.append(where)

        base_venv = venv
        while getattr(base_venv, "venv", None) is not None:
            base_venv = base_venv.venv

        def check_reset_infos(where):
            # F26 (repaired in /repo 4eef34e): the outermost wrapper must report the reset infos the sub-environments returned
            # (C01's contract "reset_infos[i] holds the info of that reset", kept by every wrapper)
            want = [lg for lg in base_venv.reset_infos]
            try:
                got = [lg for lg in venv.reset_infos]
            except Exception as e:  # noqa: BLE001
                got = f"{type(e).__name__}: {e}"
            if got != want:
                bad.append(f"reset_infos through the wrapper stack: {where}: the outermost wrapper reports {got}, the vectorized environment it wraps holds {want}")

        try:
            sd = case.get("seed_through_stack")
            if sd is not None:
                venv.seed(sd)                      # VecEnvWrapper.seed / set_options forward to the wrapped VecEnv
                venv.set_options({"k": sd})
            for k, op in enumerate(ops):
                if op[0] == "reset":
                    obs = venv.reset()
                    if sd is not None and k == 0:
                        first = [lg[0] for lg in venv.env_method("get_log")]
                        if first != [("reset", sd + i, {"k": sd}) for i in range(n)]:
                            bad.append(f"seed/options set through the wrapper stack did not reach the sub-environments: {first}")
                    snap()
                    check_reset_infos(f"after op {k} (reset)")
                    for i in range(n):
                        o = _one(obs, i)
                        check(o, f"op {k} reset env {i}")
                        per_env[i].append(("reset", o))
                else:
                    obs, rews, dones, infos = venv.step(np.array([a % 4 for a in op[1]]))
                    snap()
                    if any(dones):
                        check_reset_infos(f"after op {k} (step with an automatic reset)")
                    for i in range(n):
                        o = _one(obs, i)
                        check(o, f"op {k} step env {i}")
                        term = infos[i].get("terminal_observation")
                        if term is not None:
                            term = {k: np.array(v) for k, v in term.items()} if isinstance(term, dict) else np.array(term)
                            check(term, f"op {k} terminal_observation env {i}")
                        per_env[i].append(("step", o, float(rews[i]) * 4, bool(dones[i]), infos[i].get("TimeLimit.truncated"), term))
        finally:
            venv.close()
            import shutil

            for d in case.pop("_tmpdirs", []):
                shutil.rmtree(d, ignore_errors=True)
    return {"per_env": per_env, "inspace": bad, "declared": space, "snaps": snaps}


def rle(arr):
    import numpy as np

    flat = np.asarray(arr).reshape(-1).tolist()
    out = []
    for v in flat:
        v = int(v) if float(v) == int(v) else float(v)
        if out and out[-1][0] == v:
            out[-1][1] += 1
        else:
            out.append([v, 1])
    return [tuple(x) for x in out]


def canon_obs(o):
    """array | dict of arrays -> {key id: (shape, rle)}"""
    import numpy as np

    if isinstance(o, dict):
        ks = sorted(o)
        return {ks.index(k) + 1: (list(np.asarray(o[k]).shape), rle(o[k])) for k in ks}
    return {0: (list(np.asarray(o).shape), rle(o))}


def canon_trace(per_env):
    out = []
    for evs in per_env:
        row = []
        for e in evs:
            if e[0] == "reset":
                row.append(("reset", canon_obs(e[1])))
            else:
                r = e[2]
                row.append(("step", canon_obs(e[1]), int(r) if r == int(r) else r, e[3], e[4], None if e[5] is None else canon_obs(e[5])))
        out.append(row)
    return out


# ---------------------------------------------------------------- oracle: numpy reference from the property text

def oracle(case, impl, ops=None):
    import numpy as np

    ops = case["ops"] if ops is None else ops
    kind, leaves = BASES[case["base"]]
    probs = []

    def base_obs(tag):
        if kind == "box":
            s, d = leaves["0"]
            return np.full(s, tag, dtype=np.float32 if d == F32 else np.uint8)
        return {k: np.full(s, tag, dtype=np.float32 if d == F32 else np.uint8) for k, (s, d) in leaves.items()}

    def stacked(frames, n, cf):
        fr = frames[-n:]
        fr = [np.zeros_like(fr[0])] * (n - len(fr)) + fr
        return np.concatenate(fr, axis=0 if cf else -1)

    has_norm = any(w["w"] == "normalize" for w in case["wrappers"])

    def same(a, b):
        if isinstance(a, dict) or isinstance(b, dict):
            return isinstance(a, dict) and isinstance(b, dict) and sorted(a) == sorted(b) and all(same(a[k], b[k]) for k in a)
        a, b = np.asarray(a), np.asarray(b)
        if has_norm:  # float arithmetic of the normaliser: toleranced
            return a.shape == b.shape and a.dtype == b.dtype and np.allclose(a, b, rtol=1e-5, atol=1e-6)
        return a.shape == b.shape and a.dtype == b.dtype and np.array_equal(a, b)

    for i in range(case["n"]):
        eps = case["scripts"][i]["episodes"]
        ep_idx, pos = -1, 0
        # per frame-stack layer: the observations this layer has received during the current episode
        frames = [dict() for _ in case["wrappers"]]

        def through(obs, mode, snap=None):
            """push one observation through the layers. mode: 'reset' (episode starts here), 'step' (ordinary),
            'terminal' (last observation of the episode that ends: shown, but the new episode's list is kept)"""
            for li, w in enumerate(case["wrappers"]):
                if w["w"] == "framestack":
                    parts = obs if isinstance(obs, dict) else {"0": obs}
                    out = {}
                    for k, x in parts.items():
                        cf = w["cf"][k]
                        if mode == "terminal":
                            out[k] = stacked(frames[li].get(k, []) + [x], w["n"], cf)
                        else:
                            frames[li][k] = ([x] if mode == "reset" else frames[li].get(k, []) + [x])
                            out[k] = stacked(frames[li][k], w["n"], cf)
                    obs = out if isinstance(obs, dict) else out["0"]
                elif w["w"] == "transpose":
                    if isinstance(obs, dict):
                        obs = {k: (np.transpose(x, (2, 0, 1)) if k in w["keys"] else x) for k, x in obs.items()}
                    elif w["keys"]:
                        obs = np.transpose(obs, (2, 0, 1))
                elif w["w"] == "extract":
                    obs = obs[w["key"]]
                elif w["w"] == "normalize" and w["norm_obs"]:
                    # one function for observations and terminal observations, statistics after this step's update
                    obs = np.clip((obs - snap["mean"]) / np.sqrt(snap["var"] + snap["eps"]), -w["clip_obs"], w["clip_obs"]).astype(np.float32)
            return obs

        evs = impl["per_env"][i]
        for k, (op, ev) in enumerate(zip(ops, evs)):
            where = f"op {k} ({op[0]}) env {i}"
            snap = impl["snaps"][k] if impl.get("snaps") else None
            if op[0] == "reset":
                ep_idx += 1
                pos = 0
                want = through(base_obs(eps[ep_idx % len(eps)]["reset_tag"]), "reset", snap)
                if not same(ev[1], want):
                    probs.append(("oracle-reset-observation", f"{where}: reset observation is not zeros + first frame"))
            else:
                ep = eps[ep_idx % len(eps)]
                st = ep["steps"][pos]
                ends = pos == len(ep["steps"]) - 1
                _, obs, r4, done, tl, term = ev
                want_r4 = float(st["r4"])
                for w in case["wrappers"]:
                    if w["w"] == "normalize" and w["norm_reward"]:   # rewards are transformed by the normaliser only
                        want_r4 = 4.0 * float(np.clip((want_r4 / 4.0) / np.sqrt(snap["rvar"] + snap["eps"]), -snap["clip_reward"], snap["clip_reward"]))
                if abs(r4 - want_r4) > (1e-4 if has_norm else 0):
                    probs.append(("oracle-reward-normaliser-only" if has_norm else "oracle-reward-passthrough", f"{where}: reward*4 {r4} != expected {want_r4}"))
                if done != ends:
                    probs.append(("oracle-done-passthrough", f"{where}: done {done} != base {ends}"))
                if tl != bool(st["trunc"] and not st["term"]):
                    probs.append(("oracle-truncation-passthrough", f"{where}: TimeLimit.truncated {tl} != base"))
                if ends:
                    want_term = through(base_obs(st["tag"]), "terminal", snap)
                    ep_idx += 1
                    pos = 0
                    want = through(base_obs(eps[ep_idx % len(eps)]["reset_tag"]), "reset", snap)
                    if term is None or not same(term, want_term):
                        short = any(w["w"] == "framestack" and w["n"] > len(ep["steps"]) + 1 for w in case["wrappers"])
                        probs.append(("oracle-terminal-observation" + ("-short-episode" if short else ""), f"{where}: terminal_observation is not the stack/transform of the finished episode's last frames"))
                    if not same(obs, want):
                        probs.append(("oracle-observation-after-episode-end", f"{where}: observation after an episode end is not zeros + first frame of the new episode"))
                else:
                    pos += 1
                    want = through(base_obs(st["tag"]), "step", snap)
                    if not same(obs, want):
                        probs.append(("oracle-stacked-observation", f"{where}: observation is not the zero-padded last frames of the current episode"))
    for wbad in impl["inspace"][:3]:
        probs.append(("oracle-seed-options-through-wrapper-stack" if wbad.startswith("seed/options") else "oracle-reset-infos-through-wrapper-stack" if wbad.startswith("reset_infos through") else "oracle-observation-not-in-declared-space", wbad))
    # declared space shape = what the wrappers were promised to produce (computed from the rules above)
    fkind, fleaves = case["final"]
    sp = impl["declared"]
    decl = {k: list(v.shape) for k, v in sp.spaces.items()} if hasattr(sp, "spaces") else {"0": list(sp.shape)}
    if decl != {k: v[0] for k, v in fleaves.items()}:
        probs.append(("oracle-declared-space-shape", f"declared {decl} expected {fleaves}"))
    return probs


# ---------------------------------------------------------------- model

def coq_case(case, ops=None):
    from harness import scripted_envs as se
    from harness.common import coq_bool, coq_list, coq_nat, coq_Z

    ops = case["ops"] if ops is None else ops
    kind, leaves = BASES[case["base"]]
    if kind == "box":
        sp = f"(SBox {coq_list(leaves['0'][0], coq_nat)})"
        keys = ["0"]
    else:
        keys = sorted(leaves)
        sp = "(SDict " + coq_list([f"({coq_Z(keys.index(k) + 1)}, {coq_list(leaves[k][0], coq_nat)})" for k in keys]) + ")"
    ws = []
    cur_kind, cur_keys = kind, keys
    for w in case["wrappers"]:
        kid = lambda k: 0 if cur_kind == "box" else cur_keys.index(k) + 1  # noqa: E731
        if w["w"] == "framestack":
            ws.append(f"WFrameStack {coq_nat(w['n'])} " + coq_list([f"({coq_Z(kid(k))}, {coq_bool(w['cf'][k])})" for k in sorted(w["cf"])]))
        elif w["w"] == "transpose":
            ws.append("WTranspose " + coq_list([coq_Z(kid(k)) for k in w["keys"]]))
        elif w["w"] == "extract":
            ws.append(f"WExtract {coq_Z(kid(w['key']))}")
            cur_kind, cur_keys = "box", ["0"]
        elif w["w"] == "monitor":
            ws.append("WMonitor")
        else:
            ws.append("WCheckNan")
    cops = coq_list([("VReset" if op[0] == "reset" else f"VStep {coq_list(op[1], coq_Z)}") for op in ops])
    return f"run_wrapped_scripted {sp} {coq_list(ws)} [{'; '.join(se.coq_script(s) for s in case['scripts'])}] {cops}"


def model_trace(val):
    def pobs(p):
        return {k: (list(shape), [tuple(x) for x in runs]) for (k, shape, runs) in p}

    out = []
    for env in val:
        row = []
        for e in env:
            if e[0] == "PWReset":
                row.append(("reset", pobs(e[1])))
            else:
                term = e[5]
                row.append(("step", pobs(e[1]), e[2], e[3], e[4], pobs(term[1]) if isinstance(term, tuple) and term[0] == "Some" else None))
        out.append(row)
    return out


def diff_model(impl_trace, model):
    for i, (a, b) in enumerate(zip(impl_trace, model)):
        if len(a) != len(b):
            return [("trace-length", f"env {i}: impl {len(a)} events, model {len(b)}")]
        for k, (x, y) in enumerate(zip(a, b)):
            if x != y:
                what = "terminal" if x[0] == "step" and x[:5] == y[:5] else ("flags" if x[0] == "step" and x[1] == y[1] else "observation")
                return [(what, f"env {i} event {k}: impl {str(x)[:300]} model {str(y)[:300]}")]
    if len(impl_trace) != len(model):
        return [("n-envs", f"impl {len(impl_trace)} model {len(model)}")]
    return []



# ---------------------------------------------------------------- vec_env/__init__.py: unwrap_vec_wrapper, is_vecenv_wrapped, sync_envs_normalization

SYNC_HEADER = """From Coq Require Import List ZArith Bool.
From SB3V Require Import Model.EnvUtil.
Import ListNotations.
"""
VEC_CLASSES = ["VecNormalize", "VecMonitor", "VecCheckNan", "VecFrameStack"]


def run_sync_stream(chk, n_cases):
    import warnings

    import numpy as np

    from harness import scripted_envs as se
    from harness.common import coq_bool, coq_list, coq_nat, coq_option, coq_Z
    from stable_baselines3.common import vec_env as V

    rng = chk.rng
    script = {"episodes": [{"reset_tag": 1, "reset_info": 0, "steps": [{"tag": 2, "r4": 0, "term": True, "trunc": False, "info": 0}]}]}

    def gen_chain():
        return [{"cls": rng.choice(VEC_CLASSES), "norm_obs": rng.random() < 0.6} for _ in range(rng.randint(0, 4))]

    def build(chain, tag0):
        """chain is outermost first; returns (venv, wrapper objects outermost first); VecNormalize statistics carry distinct tags"""
        venv = V.DummyVecEnv([se.make_env_fn(script, obs_kind="box1", act_kind="discrete")])
        objs = []
        for j, l in reversed(list(enumerate(chain))):
            if l["cls"] == "VecNormalize":
                venv = V.VecNormalize(venv, norm_obs=l["norm_obs"])
                if l["norm_obs"]:
                    venv.obs_rms.mean = np.full_like(venv.obs_rms.mean, tag0 + 10 * j)
                venv.ret_rms.mean = float(tag0 + 10 * j + 1)
            elif l["cls"] == "VecMonitor":
                venv = V.VecMonitor(venv)
            elif l["cls"] == "VecCheckNan":
                venv = V.VecCheckNan(venv)
            else:
                venv = V.VecFrameStack(venv, 2)
            objs.insert(0, venv)
        return venv, objs

    def tags(objs):
        out = []
        for o in objs:
            if isinstance(o, V.VecNormalize):
                # the level's OWN attribute (hasattr would be forwarded to inner wrappers by VecEnvWrapper.__getattr__)
                ob = int(np.asarray(o.__dict__["obs_rms"].mean).reshape(-1)[0]) if "obs_rms" in o.__dict__ else None
                out.append(["N", ob, int(o.ret_rms.mean)])
            else:
                out.append(["O", type(o).__name__])
        return out

    def coq_chain(chain, tag0, effective=False):
        """effective: what `hasattr(level, "obs_rms")` / `level.obs_rms` see on the TRAINING side: a VecNormalize without its own
        obs_rms (norm_obs=False) forwards the lookup to the inner wrappers (VecEnvWrapper.__getattr__, C01 model VecAttr):
        exactly one inner holder -> its statistics, none or several (ambiguous -> AttributeError) -> no attribute"""
        items = []
        for j, l in enumerate(chain):
            if l["cls"] == "VecNormalize":
                own = tag0 + 10 * j if l["norm_obs"] else None
                if own is None and effective:
                    holders = [tag0 + 10 * i for i, x in enumerate(chain) if i > j and x["cls"] == "VecNormalize" and x["norm_obs"]]
                    own = holders[0] if len(holders) == 1 else None
                items.append(f"LNorm ({coq_option(own, coq_Z)}, {coq_Z(tag0 + 10 * j + 1)})")
            else:
                items.append(f"LOther {coq_Z(VEC_CLASSES.index(l['cls']))}")
        return coq_list(items)

    exprs, expected = [], []
    stats = {"sync": 0, "sync_assertion": 0, "unwrap": 0}
    with warnings.catch_warnings():
        warnings.simplefilter("ignore")
        for _ in range(n_cases):
            train = gen_chain()
            if rng.random() < 0.6:
                ev = [dict(l, norm_obs=(l["norm_obs"] if rng.random() < 0.7 else not l["norm_obs"])) for l in train] + (gen_chain()[:1] if rng.random() < 0.2 else [])
            else:
                ev = gen_chain()
            tv, tobjs = build(train, 100)
            evv, eobjs = build(ev, 500)
            try:
                try:
                    V.sync_envs_normalization(tv, evv)
                    got = tags(eobjs)
                except AssertionError:
                    got = None
                    stats["sync_assertion"] += 1
                # unwrap_vec_wrapper / is_vecenv_wrapped on the training chain
                q = rng.choice(VEC_CLASSES)
                u = V.unwrap_vec_wrapper(tv, getattr(V, q))
                pos = None if u is None else next(j for j, o in enumerate(tobjs) if o is u)
                got_u = [pos, bool(V.is_vecenv_wrapped(tv, getattr(V, q)))]
            finally:
                tv.close()
                evv.close()
            exprs.append(f"sync_chain copy_tags {coq_chain(train, 100, effective=True)} {coq_chain(ev, 500)}")
            expected.append(("sync", {"train": train, "eval": ev}, got))
            inst = [l["cls"] == q for l in train]
            exprs.append(f"(unwrap (fun p => nth p {coq_list(inst, coq_bool)} false) (seq 0 {coq_nat(len(train))}), is_wrapped (fun p => nth p {coq_list(inst, coq_bool)} false) (seq 0 {coq_nat(len(train))}))")
            expected.append(("unwrap", {"chain": [l["cls"] for l in train], "query": q}, got_u))
            stats["sync"] += 1
            stats["unwrap"] += 1
    vals = common.coq_eval_many(f"C17s_{os.getpid()}", SYNC_HEADER, exprs, shard=200, procs=4)
    _rm_cases(f"C17s_{os.getpid()}")

    def opt(x):
        return x[1] if isinstance(x, tuple) and x and x[0] == "Some" else None

    for (kind, case, got), v in zip(expected, vals):
        if kind == "sync":
            r = opt(v)
            model = None if r is None else [(["N", opt(l[1][0]), l[1][1]] if l[0] == "LNorm" else ["O", VEC_CLASSES[l[1]]]) for l in r]
            if got != model:
                what = "assertion" if (got is None) != (model is None) else "statistics-not-copied-at-every-level"
                chk.violation(f"oracle-sync-envs-normalization-{what}", f"train {[l['cls'] for l in case['train']]} eval {[l['cls'] for l in case['eval']]}: eval levels after sync {got} expected {model}",
                              {"sync_case": case, "real": got, "model": model}, found_input=True)
                return stats
        else:
            model = [opt(v[0]), bool(v[1])]
            if got != model:
                chk.violation("oracle-unwrap-vec-wrapper-outermost", f"unwrap_vec_wrapper on {case['chain']} for {case['query']}: real {got} expected {model}",
                              {"unwrap_case": case, "real": got, "model": model}, found_input=True)
                return stats
    return stats



def run_rejection_checks(chk):
    """the documented preconditions of the wrappers: ill-typed stacks are refused at construction"""
    import warnings

    import numpy as np
    from gymnasium import spaces

    from harness import scripted_envs as se
    from stable_baselines3.common.vec_env import DummyVecEnv, VecExtractDictObs, VecFrameStack, VecTransposeImage

    script = {"episodes": [{"reset_tag": 1, "reset_info": 0, "steps": [{"tag": 2, "r4": 0, "term": True, "trunc": False, "info": 0}]}]}

    def mk(space):
        return DummyVecEnv([se.make_env_fn(script, obs_space=space, act_kind="discrete")])

    checks = [
        ("framestack-on-discrete", lambda: VecFrameStack(mk(spaces.Discrete(5)), 2), AssertionError),
        ("framestack-on-dict-with-discrete-key", lambda: VecFrameStack(mk(spaces.Dict({"a": spaces.Discrete(3), "b": make_space("box1")})), 2), TypeError),
        ("framestack-box-with-per-key-order", lambda: VecFrameStack(mk(make_space("box1")), 2, channels_order={"a": "first"}), TypeError),
        ("framestack-invalid-order", lambda: VecFrameStack(mk(make_space("box1")), 2, channels_order="middle"), AssertionError),
        ("transpose-on-channels-first-image", lambda: VecTransposeImage(mk(make_space("img_chw"))), AssertionError),
        ("transpose-on-non-image", lambda: VecTransposeImage(mk(make_space("box1"))), AssertionError),
        ("extract-on-box", lambda: VecExtractDictObs(mk(make_space("box1")), "a"), AssertionError),
    ]
    done = 0
    with warnings.catch_warnings():
        warnings.simplefilter("ignore")
        for name, f, exc in checks:
            try:
                v = f()
                v.close()
                chk.violation(f"oracle-ill-typed-stack-accepted-{name}", f"{name}: the wrapper accepted a space its documentation excludes", {"check": name}, found_input=True)
                return done
            except exc:
                done += 1
    return done


# ---------------------------------------------------------------- driver

def shrink(case, sig):
    def fails(ops):
        if not ops or ops[0][0] != "reset":
            return False
        try:
            return any(s == sig for s, _ in oracle(case, run_impl(case, ops), ops))
        except Exception:  # noqa: BLE001
            return False

    return common.shrink_list(case["ops"], fails, max_rounds=40)


def nontrivial(case, impl):
    """a frame stack deeper than 1 in the stack AND an episode end AND an episode shorter than that depth or a second wrapper"""
    fs = [w["n"] for w in case["wrappers"] if w["w"] == "framestack" and w["n"] > 1]
    ended = any(e[0] == "step" and e[3] for evs in impl["per_env"] for e in evs)
    return bool(fs) and ended and (len(case["wrappers"]) > 1 or any(len(e["steps"]) + 1 < max(fs) for s in case["scripts"] for e in s["episodes"]))


def load_corpus():
    p = os.path.join(common.VERIF, "corpus", "C17.jsonl")
    return [json.loads(l) for l in open(p) if l.strip()] if os.path.exists(p) else []


def main():
    chk = Check("C17", groups=["stacking", "checknan"])
    chk.build_props()
    from harness.c01_branchcov import BranchCov, summarize

    cov = BranchCov(['stable_baselines3/common/vec_env/stacked_observations.py', 'stable_baselines3/common/vec_env/vec_frame_stack.py', 'stable_baselines3/common/vec_env/vec_transpose.py', 'stable_baselines3/common/vec_env/vec_extract_dict_obs.py', 'stable_baselines3/common/vec_env/vec_monitor.py', 'stable_baselines3/common/vec_env/vec_check_nan.py', 'stable_baselines3/common/vec_env/base_vec_env.py', 'stable_baselines3/common/vec_env/__init__.py']) if BranchCov.enabled() else None
    if cov:
        cov.start()
    corpus_all = load_corpus()
    cases = [c for c in corpus_all if "stream" not in c]      # the round-5 streams (bounds, checknan) have their own corpus lines
    n_corpus = len(cases)
    n_gen = 350 if chk.tier == "quick" else 4000
    for k in range(n_gen):
        cases.append(gen_case(chk.rng, k))
    n_norm = 80 if chk.tier == "quick" else 800
    for k in range(n_norm):   # stacks that contain VecNormalize: numpy oracle only (statistics are C15's)
        cases.append(gen_case(chk.rng, k, with_norm=True))
    impls = []
    for c in cases:
        try:
            impls.append(run_impl(c))
        except Exception as e:  # noqa: BLE001
            impls.append({"crash": f"{type(e).__name__}: {e}"})
    has_norm = [any(w["w"] == "normalize" for w in c["wrappers"]) for c in cases]
    mv = common.coq_eval_many(f"C17_{os.getpid()}", HEADER, [coq_case(c) for c, hn in zip(cases, has_norm) if not hn], shard=80, procs=4)
    _rm_cases(f"C17_{os.getpid()}")
    it = iter(mv)
    vals = [None if hn else next(it) for hn in has_norm]
    hist = {"base": {}, "wrappers": {}, "depth": {}, "n_stack": {}, "n_envs": {}, "episode_ends": 0, "events": 0, "terminal_checked": 0}
    distinct = set()
    for c, im, v in zip(cases, impls, vals):
        hist["base"][c["base"]] = hist["base"].get(c["base"], 0) + 1
        hist["depth"][len(c["wrappers"])] = hist["depth"].get(len(c["wrappers"]), 0) + 1
        hist["n_envs"][c["n"]] = hist["n_envs"].get(c["n"], 0) + 1
        for w in c["wrappers"]:
            hist["wrappers"][w["w"]] = hist["wrappers"].get(w["w"], 0) + 1
            if w["w"] == "framestack":
                hist["n_stack"][w["n"]] = hist["n_stack"].get(w["n"], 0) + 1
        if "crash" in im:
            chk.violation("oracle-crash-type-correct-stack", f"wrapper stack raised {im['crash']}", {"case": c}, found_input=True)
            break
        hist["events"] += sum(len(e) for e in im["per_env"])
        hist["episode_ends"] += sum(1 for evs in im["per_env"] for e in evs if e[0] == "step" and e[3])
        hist["terminal_checked"] += sum(1 for evs in im["per_env"] for e in evs if e[0] == "step" and e[5] is not None)
        if nontrivial(c, im):
            distinct.add(json.dumps([c["base"], c["wrappers"], c["scripts"], c["ops"]], sort_keys=True, default=str))
        op = oracle(c, im)
        dm = diff_model(canon_trace(im["per_env"]), model_trace(v)) if v is not None else []
        if op:
            sig = op[0][0]
            small = shrink(c, sig)
            c2 = dict(c, ops=small)
            p2 = oracle(c2, run_impl(c2))
            chk.violation(sig, "; ".join(m for _, m in p2[:3]) or op[0][1],
                          {"case": c2, "problems": [list(p) for p in (p2 or op)[:10]]}, found_input=True)
            break
        if dm:
            chk.violation(f"model-correspondence-{dm[0][0]}", dm[0][1],
                          {"case": c, "problems": [list(p) for p in dm], "correspondence": "harness/c17.py vs Model.Wrappers.run_wrapped_scripted"}, found_input=False)
            break
    sync_stats = run_sync_stream(chk, 100 if chk.tier == "quick" else 1000) if not chk.violations else {}
    chk.notes["sync_and_unwrap_stream"] = sync_stats
    chk.notes["ill_typed_stacks_rejected"] = run_rejection_checks(chk) if not chk.violations else 0
    # build round 5: declared bounds of the stacked space (two known findings, classified cell by cell) and VecCheckNan with injected nan / inf
    from harness import c17_round5 as r5

    bounds_stats = r5.run_bounds_stream(chk, [c for c in corpus_all if c.get("stream") == "bounds"], 150 if chk.tier == "quick" else 1500) if not chk.violations else {}
    chk.notes["bounds_stream"] = bounds_stats
    only_known = all(v["signature"] in (r5.SIG_PAD, r5.SIG_REP) for v in chk.violations)
    nan_stats = r5.run_checknan_stream(chk, [c for c in corpus_all if c.get("stream") == "checknan"], 150 if chk.tier == "quick" else 1500) if only_known else {}
    chk.notes["checknan_stream"] = nan_stats
    extra = bounds_stats.get("cases", 0) + nan_stats.get("cases", 0)
    chk.coverage["evaluations"] = len(cases) + sync_stats.get("sync", 0) + sync_stats.get("unwrap", 0) + extra
    chk.coverage["traces_validated_against_impl"] = len(cases) + sync_stats.get("sync", 0) + sync_stats.get("unwrap", 0) + extra
    chk.coverage["distinct_nontrivial"] = len(distinct)
    chk.coverage["rule"] = ("random type-correct wrapper stacks (depth 1-4; VecFrameStack n_stack 1-5 with channels_order None/first/last or per key, VecTransposeImage incl. skip, "
                            "VecExtractDictObs, VecMonitor, VecCheckNan) over DummyVecEnv (n_envs 1-3) of scripted envs cycling through 14 base spaces (Box rank 1-4, rank-3 float / non-[0,255] uint8 boxes that are not images, HWC/CHW images, 3 Dict "
                            "mixes), 9-23 ops with random extra resets; every cell of every observation and terminal observation compared; non-trivial = a frame stack deeper than 1 "
                            "AND an episode end AND (a second wrapper OR an episode shorter than the stack depth); distinct = distinct (base, stack, scripts, ops)")
    chk.notes["input_distribution"] = hist
    chk.notes["corpus_cases"] = n_corpus
    chk.add_samples([{k: cases[i][k] for k in ("base", "wrappers", "n", "ops")} for i in (n_corpus, len(cases) - 1) if i < len(cases)])
    chk.assumptions += [
        "channels_order=None is resolved by the documented rule (image: channel axis = smallest dimension, first index wins; else last) in the harness, not read from the wrapper",
        "frames are constant-filled with a non-zero tag (zero = padding); the per-kind numpy code is tied to the model cell by cell on these inputs only",
        "aliasing of the returned arrays (C19) and VecMonitor episode statistics (C18) are not decided here",
        "round 5 bounds stream: integer-valued bounds and frames (exact in every dtype used); a returned observation outside the declared space is attributed to a known finding only when EVERY offending cell "
        "is (A) a zero-padded slot holding 0 whose element bounds exclude 0 or (B) inside its own element's bounds while the declared bounds are the repeated (not tiled) base bounds",
        "round 5 VecCheckNan stream: the first reset is finite (the step_async report reads self._observations, set only once a reset()/step_wait() has returned through the wrapper); dones are never non-finite",
        "stacks containing VecNormalize are checked against the numpy oracle only (flags unchanged, rewards transformed by the normaliser only, observations and terminal "
        "observations through one function with the statistics after the step, rel 1e-5); the statistics themselves are C15's",
    ]
    if cov:
        cov.stop()
        chk.notes["branch_coverage_unexecuted"] = summarize(cov.report(), common.REPO)
    return chk.finish()


def replay(path):
    d = json.load(open(path))
    case = d["replay"]["case"]
    if "stream" in case:
        from harness import c17_round5 as r5

        return r5.replay_case(case)
    im = run_impl(case)
    probs = oracle(case, im)
    if any(w["w"] == "normalize" for w in case["wrappers"]):
        dm = []
    else:
        v = common.coq_eval_many("C17r", HEADER, [coq_case(case)])[0]
        dm = diff_model(canon_trace(im["per_env"]), model_trace(v))
    print(json.dumps({"oracle_problems": probs, "model_diff": dm}, indent=1, default=str))
    return 1 if (probs or dm) else 0
