"""Line-coverage tracing of selected functions of /repo for the configuration-space audit (round 4).
Enabled by VERIF_BRANCHCOV=1; normal runs do not install the tracer.  Stdlib only (sys.settrace).

    cov = covtrace.start({"stable_baselines3/common/noise.py": None, "…/ppo.py": ["PPO.train"]})   # None = whole file
    ...
    notes = cov.stop()    # {"file::function": [never-executed line numbers], ...} + totals
"""
from __future__ import annotations

import ast
import os
import sys
import threading

from harness import common


def enabled() -> bool:
    return os.environ.get("VERIF_BRANCHCOV") == "1"


class _Cov:
    def __init__(self, targets):
        self.targets = {os.path.realpath(os.path.join(common.REPO, rel)): (rel, fns) for rel, fns in targets.items()}
        self.hit = {p: set() for p in self.targets}

    def _global(self, frame, event, arg):
        p = frame.f_code.co_filename
        if p in self.hit or os.path.realpath(p) in self.hit:
            return self._local
        return None

    def _local(self, frame, event, arg):
        if event == "line":
            p = frame.f_code.co_filename
            s = self.hit.get(p)
            if s is None:
                s = self.hit.get(os.path.realpath(p))
            if s is not None:
                s.add(frame.f_lineno)
        return self._local

    def start(self):
        sys.settrace(self._global)
        threading.settrace(self._global)
        return self

    def stop(self):
        sys.settrace(None)
        threading.settrace(None)
        out, total, missed = {}, 0, 0
        for path, (rel, fns) in self.targets.items():
            src = open(path).read()
            tree = ast.parse(src)
            code = compile(src, path, "exec")
            exe = set()

            def walk(co):
                for _, _, ln in co.co_lines():
                    if ln:
                        exe.add(ln)
                for c in co.co_consts:
                    if hasattr(c, "co_lines"):
                        walk(c)

            walk(code)
            funcs = []  # (qualname, first, last, def_line, docstring lines)

            def visit(node, prefix):
                for ch in ast.iter_child_nodes(node):
                    if isinstance(ch, (ast.FunctionDef, ast.AsyncFunctionDef)):
                        q = prefix + ch.name
                        doc = set()
                        if ch.body and isinstance(ch.body[0], ast.Expr) and isinstance(getattr(ch.body[0], "value", None), ast.Constant) and isinstance(ch.body[0].value.value, str):
                            doc = set(range(ch.body[0].lineno, ch.body[0].end_lineno + 1))
                        first_body = ch.body[0].lineno
                        funcs.append((q, first_body, ch.end_lineno, doc))
                        visit(ch, q + ".")
                    elif isinstance(ch, ast.ClassDef):
                        visit(ch, prefix + ch.name + ".")

            visit(tree, "")
            for q, a, b, doc in funcs:
                if fns is not None and q not in fns:
                    continue
                inner = [(qa, aa, bb) for qa, aa, bb, _ in funcs if qa.startswith(q + ".")]
                lines = sorted(l for l in exe if a <= l <= b and l not in doc and not any(aa <= l <= bb for _, aa, bb in inner))
                miss = [l for l in lines if l not in self.hit[path]]
                total += len(lines)
                missed += len(miss)
                if miss:
                    out[f"{rel}::{q}"] = miss
        return {"never_executed": out, "lines_in_scope": total, "lines_never_executed": missed}


def start(targets):
    return _Cov(targets).start()
