"""Line coverage of the anchored source files for the checks C04 C06 C11 C13 (configuration-space audit, VERIF_BRANCHCOV=1).

start(rel_files) installs a sys.settrace hook that records executed (file, line) pairs of the given files of the repo under test only;
stop() returns them.  report(targets, executed) lists, per function, the statement lines that were never executed.
(Separate from harness/branchcov.py, which another builder owns.)"""
from __future__ import annotations

import ast
import os
import sys

from harness import common

_seen = set()
_files = {}


def enabled() -> bool:
    return os.environ.get("VERIF_BRANCHCOV", "") == "1"


def start(rel_files):
    _seen.clear()
    _files.clear()
    for rel in rel_files:
        _files[os.path.join(common.REPO, rel)] = rel

    def local(frame, event, arg):
        if event == "line":
            _seen.add((_files[frame.f_code.co_filename], frame.f_lineno))
        return local

    def tracer(frame, event, arg):
        if event == "call" and frame.f_code.co_filename in _files:
            _seen.add((_files[frame.f_code.co_filename], frame.f_lineno))
            return local
        return None

    sys.settrace(tracer)


def stop():
    sys.settrace(None)
    return sorted(_seen)


def _stmt_lines(fn_node):
    out = set()
    for node in ast.walk(fn_node):
        if isinstance(node, ast.stmt) and node is not fn_node:
            if isinstance(node, ast.Expr) and isinstance(node.value, ast.Constant) and isinstance(node.value.value, str):
                continue
            out.add(node.lineno)
    return out


def report(targets: dict, executed) -> dict:
    """targets: {rel_file: [qualified names of functions / classes]}; returns {rel_file: {function: ["line: source", ...]}}"""
    ex = {}
    for f, ln in executed:
        ex.setdefault(f, set()).add(ln)
    out = {}
    for rel, quals in targets.items():
        src = open(os.path.join(common.REPO, rel)).read()
        tree = ast.parse(src)
        lines = src.split("\n")
        found = {}

        def visit(node, prefix):
            for ch in getattr(node, "body", []):
                if isinstance(ch, ast.ClassDef):
                    visit(ch, prefix + ch.name + ".")
                elif isinstance(ch, (ast.FunctionDef, ast.AsyncFunctionDef)):
                    found[prefix + ch.name] = ch

        visit(tree, "")
        res = {}
        for q, node in found.items():
            if quals is not None and not any(q == x or q.startswith(x + ".") for x in quals):
                continue
            miss = sorted(_stmt_lines(node) - ex.get(rel, set()))
            if miss:
                res[q] = [f"{ln}: {lines[ln - 1].strip()[:90]}" for ln in miss]
        out[rel] = res
    return out
