"""Line coverage of the anchored source functions during one check run (round 4 audit).

Enabled by VERIF_BRANCHCOV=1 only (sys.settrace slows the run).  A harness calls
    cov = branchcov.maybe_start({"stable_baselines3/common/monitor.py": None, "…/evaluation.py": ["evaluate_policy"]})
    ... run the cases ...
    chk.notes["branch_coverage"] = cov.report()        (if cov is not None)
`None` = every function of the file; a list = only the functions / classes whose qualified name starts with an entry.
The report lists, per function, the executable lines that were never executed (with their source text).
"""
from __future__ import annotations

import ast
import os
import sys
import threading

from harness import common


def _functions(path):
    """qualified name -> (first line, last line) of every def in the file"""
    tree = ast.parse(open(path).read())
    out = {}

    def walk(node, prefix):
        for ch in ast.iter_child_nodes(node):
            if isinstance(ch, (ast.FunctionDef, ast.AsyncFunctionDef)):
                q = prefix + ch.name
                out[q] = (ch.lineno, ch.end_lineno)
                walk(ch, q + ".")
            elif isinstance(ch, ast.ClassDef):
                walk(ch, prefix + ch.name + ".")
            else:
                walk(ch, prefix)

    walk(tree, "")
    return out


def _executable_lines(path):
    code = compile(open(path).read(), path, "exec")
    lines = set()

    def rec(co):
        for _, _, ln in co.co_lines():
            if ln is not None:
                lines.add(ln)
        for c in co.co_consts:
            if hasattr(c, "co_lines"):
                rec(c)

    rec(code)
    return lines


class BranchCov:
    def __init__(self, targets):
        self.targets = {os.path.join(common.REPO, rel): sel for rel, sel in targets.items()}
        self.hit = {p: set() for p in self.targets}

    def _trace(self, frame, event, arg):
        fn = frame.f_code.co_filename
        if fn not in self.hit:
            return None
        hit = self.hit[fn]

        def local(frame, event, arg):
            if event == "line":
                hit.add(frame.f_lineno)
            return local

        hit.add(frame.f_lineno)
        return local

    def start(self):
        sys.settrace(self._trace)
        threading.settrace(self._trace)
        return self

    def stop(self):
        sys.settrace(None)
        threading.settrace(None)

    def report(self):
        self.stop()
        out = {}
        for path, sel in self.targets.items():
            src = open(path).read().split("\n")
            funcs = _functions(path)
            execl = _executable_lines(path)
            rel = os.path.relpath(path, common.REPO)
            missed, total, n_hit = {}, 0, 0
            for q, (a, b) in sorted(funcs.items(), key=lambda kv: kv[1]):
                if sel is not None and not any(q == s or q.startswith(s + ".") or q.startswith(s) and s.endswith(".") for s in sel):
                    continue
                # lines of nested defs are reported under the nested def
                inner = [(x, y) for qq, (x, y) in funcs.items() if qq != q and qq.startswith(q + ".")]
                body = [ln for ln in execl if a < ln <= b and not any(x <= ln <= y for x, y in inner)]
                body = [ln for ln in body if not src[ln - 1].strip().startswith(('"""', "'''"))]
                total += len(body)
                miss = sorted(ln for ln in body if ln not in self.hit[path])
                n_hit += len(body) - len(miss)
                if miss:
                    missed[q] = [f"{ln}: {src[ln - 1].strip()[:110]}" for ln in miss]
            out[rel] = {"lines": total, "executed": n_hit, "never_executed": missed}
        return out


def maybe_start(targets):
    if os.environ.get("VERIF_BRANCHCOV") != "1":
        return None
    return BranchCov(targets).start()
