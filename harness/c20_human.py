"""C20 (build round 5) - byte-exact correspondence of HumanOutputFormat.write with Model.HumanFormat.

One case = one dump through the real Logger.record / Logger.dump into a HumanOutputFormat(file, max_length=m).
The model gets the pending (key, formatted value, exclusion tuple) list; value formatting is an input
(float -> f"{v:<8.3g}", anything else -> str(v)), exactly as the CSV model takes rendered numbers.
"""
from __future__ import annotations

import os
import shutil
import tempfile
import warnings

HEADER_EXTRA = "From SB3V Require Import Model.HumanFormat.\n"

KEY_CHARS = "abxyAZ09-._ "
MAXLENS = [36, 36, 10, 8, 7, 6, 5, 4, 12, 3]
EXCL = [None, None, None, None, None, "stdout", "log", "csv", ["json", "log"], "tensorboard"]


def _word(rng, n, chars=KEY_CHARS):
    return "".join(rng.choice(chars) for _ in range(n))


def gen_hfmt_case(rng, i):
    m = rng.choice(MAXLENS)
    stem = _word(rng, m + 6, "abcdefgh")
    tags = ["a/", "ab/", "-a/", ".b/", "a/b/", "a/b/c/", stem[: max(1, m - 2)] + "/", stem[: m + 1] + "/", "Z/"]
    pool = []
    for _ in range(rng.randint(0, 9)):
        u = rng.random()
        if u < 0.25:    # long keys: display length (3 + rest under a tag) around max_length - 1 .. max_length + 4
            n = m + rng.randint(-1, 4)
            tag = rng.choice(["", "", "a/", "ab/", "a/b/"])
            rest = max(0, n - (3 if tag else 0))
            pool.append(tag + stem[:rest])
        elif u < 0.45:  # keys equal up to the cut (same tag): collide when longer than max_length
            tag = rng.choice(["", "a/", "a/b/"])
            cut = max(0, m - 3 - (3 if tag else 0))
            pool.append(tag + stem[:cut] + _word(rng, rng.randint(0, 5), "pqr"))
            pool.append(tag + stem[:cut] + _word(rng, rng.randint(1, 5), "pqr"))
        elif u < 0.6:   # empty tag, trailing slash, a slash-led key that CONTAINS an earlier tag, bare slash
            pool.append(rng.choice(["/x", "/", "a/", "ab/", "/-a/c", "/.b/yy", "//", "/a/b", "-a/", "x/", " /q", "a//b", "/" + stem[: m]]))
        elif u < 0.85:  # tagged keys
            pool.append(rng.choice(tags) + _word(rng, rng.randint(0, 4)))
        else:           # plain keys, also ones a long tag is cut to (header clash)
            pool.append(rng.choice([_word(rng, rng.randint(1, 5)), stem[: m + 2], stem[: m + 1] + "0", "k0", "z"]))
    keys = list(dict.fromkeys(pool))
    rng.shuffle(keys)
    ops = []
    for k in keys:
        u = rng.random()
        if u < 0.35:
            v = {"t": "int", "v": rng.choice([0, 1, -7, 42, 123456, 10 ** rng.randint(5, 12)])}
        elif u < 0.6:
            v = {"t": rng.choice(["float", "float", "np64", "np32"]), "v": rng.choice([0.0, 1.5, -2.25, 1234.5, 1e-5, 123456789.0, 0.1, 2.0 ** -20])}
        else:
            v = {"t": "str", "v": _word(rng, rng.choice([0, 1, 3, m - 1, m, m + 1, m + 5]), KEY_CHARS + "|/,")}
        ops.append(["record", k, v, rng.choice(EXCL)])
    ops.append(["dump"])
    return {"kind": "hfmt", "formats": ["log"], "max_length": m, "ops": ops, "id": i}


def _value(spec):
    import numpy as np

    t, v = spec["t"], spec["v"]
    return {"int": int, "float": float, "np64": np.float64, "np32": np.float32, "str": str}[t](v)


def _shown(value):
    """the formatted value: an INPUT of the model (HumanOutputFormat.write: float -> '<8.3g', otherwise str())"""
    return f"{value:<8.3g}" if isinstance(value, float) else str(value)


def run_hfmt(case):
    from stable_baselines3.common import logger as L

    d = tempfile.mkdtemp(prefix="c20f_")
    path = os.path.join(d, "log.txt")
    try:
        with warnings.catch_warnings(record=True) as wlist:
            warnings.simplefilter("always")
            fmt = L.HumanOutputFormat(path, max_length=case["max_length"])
            lg = L.Logger(folder=None, output_formats=[fmt])
            entries, raised, left = [], False, None
            for op in case["ops"]:
                if op[0] == "record":
                    val = _value(op[2])
                    lg.record(op[1], val, exclude=tuple(op[3]) if isinstance(op[3], list) else op[3])
                else:
                    entries = [(k, _shown(v), list(lg.name_to_excluded[k])) for k, v in lg.name_to_value.items()]
                    try:
                        lg.dump()
                    except ValueError:
                        raised = True
                    left = len(lg.name_to_value)
            lg.close()
            warned = any("empty key-value" in str(w.message) for w in wlist)
        return {"hfmt": True, "entries": entries, "refused": raised, "left": left, "warned": warned, "text": open(path).read()}
    finally:
        shutil.rmtree(d, ignore_errors=True)


def exprs_hfmt(case, impl, coq_text, coq_list):
    es = [f"(mk_e {coq_text(k)} {coq_text(v)} (mem_text t_stdout {coq_list([coq_text(x) for x in ex])} || mem_text t_log {coq_list([coq_text(x) for x in ex])}))"
          for k, v, ex in impl["entries"]]
    return [f"(hf_check {case['max_length']} {coq_list(es)} {'true' if impl["refused"] else 'false'} {coq_text_nl(impl['text'], coq_text)})"]


def coq_text_nl(s, coq_text):
    return coq_text(s)


def compare_hfmt(case, impl, mv):
    """mv = (model raises, raise agrees, first differing byte, the model's reader returns the model's cells)"""
    probs = []
    m = case["max_length"]
    model_raises, agree, diff, parse_ok = mv[0]
    visible = [(k, v) for k, v, ex in impl["entries"] if "stdout" not in ex and "log" not in ex]
    text = impl["text"]
    lines = text.split("\n")[:-1] if text else []
    if not agree:
        probs.append(("human-write-raise-model", f"max_length {m}: implementation raised={impl['refused']}, model raises={model_raises}"))
    elif not model_raises and diff is not None:
        probs.append(("human-write-bytes-model", f"max_length {m}: printed table differs from the model at byte {diff[1] if isinstance(diff, tuple) else diff}: {text[:300]!r}"))
    if not parse_ok:
        probs.append(("human-write-reader-model", "the model's reader does not return the model's cells on the model's own table"))
    # ---- statement-level oracle (plain Python, from the property text)
    if impl["refused"]:
        if text:
            probs.append(("oracle-human-refused-dump-writes", "a dump refused with ValueError still wrote to the file"))
        if impl["left"] != len(impl["entries"]):
            probs.append(("oracle-human-refused-dump-clears", "a dump refused with ValueError cleared pending values"))
        return probs
    if not visible:
        if text:
            probs.append(("oracle-human-empty-table", f"nothing is visible but something was written: {text[:80]!r}"))
        return probs
    if len({len(l) for l in lines}) != 1:
        probs.append(("oracle-human-line-width", f"lines of different width: {sorted({len(l) for l in lines})}"))
    if lines and len(lines[0]) > 2 * max(m, 3) + 7:
        probs.append(("oracle-human-line-width", f"line of {len(lines[0])} characters with max_length {m}"))
    rows = lines[1:-1]
    tags = {k[: k.find("/") + 1] for k, _ in visible if k.find("/") > 0}
    if len(rows) != len(visible) + len(tags):
        probs.append(("oracle-human-key-dropped", f"{len(rows)} rows for {len(visible)} visible keys and {len(tags)} tags: a value was dropped or overwritten silently"))
    cut = lambda s: s if len(s) <= m else s[: m - 3] + "..."   # noqa: E731
    for k, v in visible:
        shown_v = cut(v)
        if not any(r.endswith(" |") and r[:-2].rstrip(" ").endswith("| " + shown_v.rstrip(" ")) or (" | " + shown_v) in r for r in rows):
            probs.append(("oracle-human-value-missing", f"value {shown_v!r} of key {k!r} is in no row"))
            break
        # a key not longer than max_length with no tag business is printed verbatim
        if "/" not in k and len(k) <= m and not any(r.startswith("| " + k) for r in rows):
            probs.append(("oracle-human-key-not-verbatim", f"key {k!r} (<= max_length, no tag) is in no row"))
            break
    # ---- known finding (Refuted/C20_human_slash_key.v), precise predicate: a visible key that fits, starts with "/" (so it sets no tag itself) and
    #      CONTAINS the tag left by the last earlier key (sorted order) with a "/" after its first character: it is printed without its first len(tag) characters
    tag = ""
    for k, _ in sorted(visible):
        if k.find("/") > 0:
            tag = k[: k.find("/") + 1]
        elif k.startswith("/") and tag and tag in k and len(k) + 3 <= m and not any(r.startswith("| " + k) or r.startswith("|    " + k) for r in rows):
            probs.append((SLASH_KEY, f"key {k!r} (fits max_length {m}) is shown as {('   ' + k[len(tag):])!r} under tag {tag!r}: it cannot be read back from the table"))
            break
    return probs


SLASH_KEY = "human-slash-led-key-containing-a-tag-misprinted"


def nontrivial_hfmt(case, impl):
    return impl["refused"] or sum(1 for k, _, _ in impl["entries"] if len(k) > case["max_length"] - 3) >= 1 and len(impl["entries"]) >= 3
