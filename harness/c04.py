"""C04 - off-policy collection stores each real transition once, in order, with the true successor.

Proof side:  Props/C04.v (transition log law for every script / oracle / number of steps; the loops only choose how many steps;
             scale/unscale algebra and bounds over Q; fragments of policies.py / off_policy_algorithm.py / utils.py).
Tie:         real SAC / TD3 / DDPG / DQN .learn() on scripted envs; every replay_buffer.add() is recorded (and the buffer arrays are
             read after learn()), unscaled actions and noise samples are recorded (oracle inputs of the model), env-side logs give
             the received actions; every env column is compared with Model.OffPolicyCollect.check_off, which also predicts the
             number of steps of every learn() call from total_timesteps / train_freq / the script.
Oracle:      from the property text and the envs' own logs: exactly once, in order, observation acted on, true successor (terminal
             observation, never the reset observation), raw reward, done / timeout flags, buffer action in [-1,1] whose rescaling
             is the in-bounds action the env received; under VecNormalize raw observations / rewards.
"""
from __future__ import annotations

import json
import os
from fractions import Fraction

from harness import common
from harness.common import Check, coq_Q, coq_Z, coq_bool, coq_list

REGISTRY = dict(
    text=("Proof (unbounded): for every episode script, action kind, oracle of unscaled actions / noise and number of steps the sequence of replay-buffer adds of an env column equals the "
          "ground-truth transition log: observation acted on, the step's own observation as successor (the terminal observation when the episode ended, never the auto-reset observation), raw reward, "
          "done = terminated or truncated, timeout = truncated and not terminated; the collect/learn loops only choose a prefix of the oracle; unscale(scale a) = a when high != low, "
          "-1 <= x <= 1 and low <= high imply low <= unscale x <= high, the clipped noisy action lies in [-1,1], scale maps [low,high] into [-1,1]. scale_action / unscale_action / the noise clip / "
          "should_collect_more_steps / the terminal-observation guard / loop counters are regenerated from the source. Tie: correspondence on real SAC/TD3/DDPG/DQN runs."),
    note=("Trusted: Coq 8.16.1 kernel (vm_compute, no native_compute), translate/py2coq.py (np.clip case added) + specs/offpolicy.py, harness/c04.py, Python/numpy/torch/gymnasium. "
          "Modelled, not verified: the policy network / predict / action_space.sample / noise objects (oracle inputs recorded from the run), float32 rounding (actions compared at 1e-5), numpy vectorisation over "
          "envs (the model is per env column). VecNormalize runs are judged by the oracle only (raw observation / reward stored), the model is not evaluated on them. A learn() stopped by a callback "
          "IS exercised (known finding callback-stop-loses-transition-then-stale-last-obs, Refuted/C04_callback_stop.v). Known findings of C04: vecnormalize-terminal-obs-clipped (F11), "
          "callback-stop-loses-transition-then-stale-last-obs (F20). Model/OnPolicyCollect.vstep1 restates the auto-reset step of Model/VecEnv.v (proved equal to its per-env projection in Proofs/VecEnvTieProofs.v). All C04 theorems are closed under the global context."),
    technique="machine-checked proof in Coq (induction over the oracle list / loop fuel; field/lra over Q) + regenerated-fragment interface lemmas + differential correspondence on real off-policy runs",
)

COV_TARGETS = {
    "stable_baselines3/common/off_policy_algorithm.py": ["OffPolicyAlgorithm._sample_action", "OffPolicyAlgorithm._store_transition", "OffPolicyAlgorithm.collect_rollouts",
                                                         "OffPolicyAlgorithm.learn", "OffPolicyAlgorithm._setup_learn", "OffPolicyAlgorithm._convert_train_freq"],
    "stable_baselines3/common/policies.py": ["BasePolicy.scale_action", "BasePolicy.unscale_action"],
    "stable_baselines3/common/base_class.py": ["BaseAlgorithm._setup_learn"],
    "stable_baselines3/common/vec_env/vec_normalize.py": ["VecNormalize.step_wait", "VecNormalize.get_original_obs", "VecNormalize.get_original_reward", "VecNormalize.unnormalize_obs"],
    "stable_baselines3/common/noise.py": ["VectorizedActionNoise"],
}

HEADER = """From Coq Require Import List ZArith QArith Bool.
From SB3V Require Import Model.Script Model.OnPolicyCollect Model.OffPolicyCollect Model.Pipeline.
Import ListNotations.
"""

STOP_SIG = "callback-stop-loses-transition-then-stale-last-obs"
NOISE_LOG = []  # global on purpose: VectorizedActionNoise deep-copies its base noise


def gen_case(rng, i):
    from harness import scripted_envs as se

    algo = ["SAC", "TD3", "DQN", "DDPG", "SAC", "DQN"][i % 6]
    n_envs = rng.choice([1, 1, 2, 3])
    tf = ["episode", rng.randint(1, 2)] if n_envs == 1 and rng.random() < 0.35 else ["step", rng.randint(1, 4)]
    obs = rng.choice(["box1", "box2", "dictc", "disc", "box1"])
    if i % 17 == 5:
        obs = "image"
    calls = [{"total": rng.randint(1, 22), "reset": rng.random() < 0.5} for _ in range(rng.choice([1, 2, 2]))]
    her = i % 11 == 7
    if her:
        obs = "goal"
    if i % 13 == 9:
        # a callback asks to stop at some step of the first learn(); training is then continued without counter reset
        calls = [{"total": rng.randint(6, 20), "reset": True}, {"total": rng.randint(3, 12), "reset": False}]
        return {"id": i, "stop": {"call": 0, "step": rng.randint(1, 5)}, "buffer_size": 120, "her": False, "sde_freq": -1, "algo": algo, "n_envs": n_envs,
                "tf": ["step", rng.randint(1, 4)], "obs": rng.choice(["box1", "box2", "disc"]), "act": "discrete" if algo == "DQN" else "box_asym", "noise": None, "sde": False,
                "sde_warmup": False, "learning_starts": rng.choice([0, 1000]), "vecnorm": False, "calls": calls, "seed": rng.randint(0, 10**6),
                "scripts": [se.gen_script(rng, max_len=5, tag_base=1000 * e, p_both=0.2, p_trunc=0.4) for e in range(n_envs)]}
    if i % 7 == 3 and obs in ("box1", "box2", "dictc"):
        # VecNormalize with several learn() calls that reset the env: the raw observation kept for the buffer must be refreshed at every reset
        calls = [{"total": rng.randint(2, 12), "reset": True}, {"total": rng.randint(2, 12), "reset": True}] + ([{"total": rng.randint(2, 8), "reset": rng.random() < 0.5}] if rng.random() < 0.5 else [])
        force_vn = True
    else:
        force_vn = False
    return {"id": i, "force_vn": force_vn, "buffer_size": 120 if her else rng.choice([120, 120, rng.randint(2, 30)]), "her": her, "sde_freq": rng.choice([-1, 1, 2, 3]), "algo": algo, "n_envs": n_envs, "tf": tf, "obs": obs,
            "act": "discrete" if algo == "DQN" else rng.choice(["box", "box_asym", "box_asym"]),
            "noise": None if algo == "DQN" else rng.choice([None, "normal", "normal", "vec"]),
            "sde": algo == "SAC" and rng.random() < 0.3, "sde_warmup": rng.random() < 0.5,
            "learning_starts": 1000 if her else rng.choice([0, 4, 9, 1000]), "vecnorm": (force_vn or rng.random() < 0.2) and obs in ("box1", "box2", "dictc") and not her, "tf_int": rng.random() < 0.3,
            "calls": calls, "seed": rng.randint(0, 10**6),
            "scripts": [se.gen_script(rng, max_len=5, tag_base=1000 * e, tag_cap=250 if obs == "image" else se.MAXTAG - 1, p_both=0.2, p_trunc=0.4) for e in range(n_envs)]}


# ---------------------------------------------------------------- implementation run

def run_impl(case):
    import warnings

    warnings.simplefilter("ignore")
    import numpy as np
    import torch as th
    from gymnasium import spaces

    th.set_num_threads(1)
    import stable_baselines3 as sb3
    from stable_baselines3.common.noise import ActionNoise, VectorizedActionNoise
    from stable_baselines3.common.vec_env import DummyVecEnv, VecNormalize

    from harness import scripted_envs as se

    ne = case["n_envs"]
    M = float(se.MAXTAG)
    img = (36, 36, 3)
    obs_space = {"box1": None, "box2": None, "image": spaces.Box(0, 255, img, dtype=np.uint8),
                 "dictc": spaces.Dict({"a": spaces.Box(-M, M, (2,), dtype=np.float32), "b": spaces.Box(-M, M, (1, 3), dtype=np.float32)}),
                 "goal": None, "disc": spaces.Discrete(4096)}[case["obs"]]

    def collapse(t):
        """goal observations decode to {observation, achieved_goal, desired_goal}: one tag when all three agree"""
        if isinstance(t, dict):
            vals = set(t.values())
            return vals.pop() if len(vals) == 1 else "mixed-goal:" + json.dumps(t, sort_keys=True)
        return t


    class LoggedEnv(se.ScriptedEnv):
        def __init__(self, *a, **k):
            super().__init__(*a, **k)
            self.gt = []

        def reset(self, **k):
            o, i = super().reset(**k)
            self.gt.append(["reset", collapse(se.decode(self.observation_space, o))])
            return o, i

        def step(self, action):
            o, r, te, tr, i = super().step(action)
            self.gt.append(["step", collapse(se.decode(self.observation_space, o)), float(r), bool(te), bool(tr), np.asarray(action, dtype=np.float64).reshape(-1).tolist(), int(i["tag"])])
            return o, r, te, tr, i

    def mk(e):
        return lambda: LoggedEnv(case["scripts"][e], obs_kind=case["obs"] if obs_space is None else "box1", act_kind=case["act"], obs_space=obs_space, env_id=e)

    base = DummyVecEnv([mk(e) for e in range(ne)])
    vkw = dict(norm_obs_keys=["a"]) if case["obs"] == "dictc" else {}      # Dict observations: only the listed keys are normalised
    venv = VecNormalize(base, norm_obs=True, norm_reward=True, clip_obs=case.get("vn_clip") or 1e9, clip_reward=1e9, gamma=0.9, **vkw) if case["vecnorm"] else base
    ospace = base.observation_space
    aspace = base.action_space
    adim = int(np.prod(aspace.shape)) if isinstance(aspace, spaces.Box) else 1
    del NOISE_LOG[:]

    class RecNoise(ActionNoise):
        def __init__(self, seed):
            super().__init__()
            self.rs = np.random.RandomState(seed)

        def __call__(self):
            v = self.rs.choice([0.3, 0.3, 1.5, 4.0]) * self.rs.randn(adim)
            NOISE_LOG.append(("call", v.astype(np.float64).tolist(), id(self)))
            return v

        def reset(self):
            NOISE_LOG.append(("reset", None, id(self)))

    noise = None
    if case["noise"] == "normal":
        noise = RecNoise(case["seed"])
    elif case["noise"] == "vec":
        noise = VectorizedActionNoise(RecNoise(case["seed"]), ne)
    policy = {"dictc": "MultiInputPolicy", "goal": "MultiInputPolicy", "image": "CnnPolicy"}.get(case["obs"], "MlpPolicy")
    pk = dict(net_arch=[8])
    if case["obs"] == "image":
        pk["features_extractor_kwargs"] = dict(features_dim=8)
    tf_arg = case["tf"][1] if case.get("tf_int") and case["tf"][0] == "step" else (case["tf"][1], case["tf"][0])   # an int means steps
    kw = dict(train_freq=tf_arg, learning_starts=case["learning_starts"], batch_size=4, buffer_size=case.get("buffer_size", 120), gradient_steps=1,
              policy_kwargs=pk, device="cpu", seed=case["seed"])
    if case["algo"] != "DQN":
        kw["action_noise"] = noise
    if case["algo"] == "SAC" and case["sde"]:
        kw.update(use_sde=True, use_sde_at_warmup=case["sde_warmup"], sde_sample_freq=case.get("sde_freq", 2))
    if case.get("her"):
        from stable_baselines3 import HerReplayBuffer

        kw.update(replay_buffer_class=HerReplayBuffer, replay_buffer_kwargs=dict(copy_info_dict=True, n_sampled_goal=2))
    model = getattr(sb3, case["algo"])(policy, venv, **kw)
    dspace = model.get_env().observation_space   # images arrive channel-first (VecTransposeImage)
    steps = []   # per _sample_action call: {"u":..., "noise": [...], "action":..., "buffer_action":...}
    adds = []
    rb = model.replay_buffer
    o_add, o_sample, o_scale = rb.add, model._sample_action, model.policy.scale_action
    cur = {}

    def scale_action(a):
        cur["u"] = np.array(a, dtype=np.float64).reshape(ne, -1).tolist()
        return o_scale(a)

    def sample_action(learning_starts, action_noise=None, n_envs=1):
        cur.clear()
        n0 = len(NOISE_LOG)
        a, ba = o_sample(learning_starts, action_noise, n_envs)
        nz = [x[1] for x in NOISE_LOG[n0:] if x[0] == "call"]
        rec = {"u": cur.get("u"), "noise": nz if action_noise is not None and isinstance(aspace, spaces.Box) else None,
               "action": np.array(a, dtype=np.float64).reshape(ne, -1).tolist(), "buffer_action": np.array(ba, dtype=np.float64).reshape(ne, -1).tolist(),
               "nt": int(model.num_timesteps)}
        if rec["u"] is None:
            rec["u"] = rec["buffer_action"]
        steps.append(rec)
        return a, ba

    def tags(batch):
        try:
            if isinstance(ospace, spaces.Discrete):
                batch = np.asarray(batch).reshape(ne)
            if case["vecnorm"]:
                batch = {k: np.rint(np.asarray(v, dtype=np.float64)) for k, v in batch.items()} if isinstance(batch, dict) else np.rint(np.asarray(batch, dtype=np.float64))
            return [collapse(t) for t in se.decode_batch(dspace, batch, ne)]
        except se.MixedObservation as ex:
            return [f"mixed:{ex}"] * ne

    def raw_err(batch):
        if isinstance(batch, dict):
            return max(raw_err(v) for v in batch.values())
        b = np.asarray(batch, dtype=np.float64)
        return float(np.max(np.abs(b - np.rint(b)))) if b.size else 0.0

    def vn_info(next_obs, done):
        """under VecNormalize: distance of the stored next observation of a done transition to the raw terminal observation,
        and to unnormalize(normalize(raw)) with the statistics in force (normalize clips)"""
        out = {}
        for e in range(ne):
            if not bool(np.asarray(done).reshape(-1)[e]):
                continue
            tag = [r for r in base.envs[e].gt if r[0] == "step"][-1][1]
            raw = se.encode(ospace, tag)
            if isinstance(raw, dict):
                rt = venv.unnormalize_obs(venv.normalize_obs({k: np.asarray(v, dtype=np.float32) for k, v in raw.items()}))
                d_raw = max(float(np.max(np.abs(np.asarray(next_obs[k][e], dtype=np.float64) - np.asarray(raw[k], dtype=np.float64)))) for k in raw)
                d_rt = max(float(np.max(np.abs(np.asarray(next_obs[k][e], dtype=np.float64) - np.asarray(rt[k], dtype=np.float64)))) for k in raw)
                first = float(np.asarray(next_obs[next(iter(raw))][e]).reshape(-1)[0])
                out[e] = {"raw": tag, "raw_diff": d_raw, "rt_diff": d_rt, "stored": first}
                continue
            raw = np.asarray(raw, dtype=np.float64)
            rt = np.asarray(venv.unnormalize_obs(venv.normalize_obs(raw.astype(np.float32))), dtype=np.float64)
            got = np.asarray(next_obs[e], dtype=np.float64)
            out[e] = {"raw": tag, "raw_diff": float(np.max(np.abs(got - raw))), "rt_diff": float(np.max(np.abs(got - rt))), "stored": float(got.reshape(-1)[0])}
        return out

    def add(obs, next_obs, action, reward, done, infos):
        adds.append({"vn": vn_info(next_obs, done) if case["vecnorm"] else {}, "info_tags": [int(i.get("tag", -1)) for i in infos],"obs": tags(obs), "next": tags(next_obs), "action": np.array(action, dtype=np.float64).reshape(ne, -1).tolist(),
                     "reward": np.array(reward, dtype=np.float64).reshape(-1).tolist(), "done": [bool(d) for d in np.asarray(done).reshape(-1)],
                     "timeout": [bool(i.get("TimeLimit.truncated", False)) for i in infos],
                     "raw_err": max(raw_err(obs), raw_err(next_obs)) if case["vecnorm"] else 0.0, "call": len(call_info)})
        return o_add(obs, next_obs, action, reward, done, infos)

    rb.add = add
    model._sample_action = sample_action
    model.policy.scale_action = scale_action
    from stable_baselines3.common.callbacks import BaseCallback

    rollout_starts, sde_resets, in_train = [], [], [False]

    stops = []

    class Marks(BaseCallback):
        def __init__(self, stop_at=None):
            super().__init__()
            self.stop_at, self.k = stop_at, 0

        def _on_step(self):
            self.k += 1
            if self.stop_at is not None and self.k == self.stop_at:
                stops.append(len(steps) - 1)      # index of the env step whose callback returns False
                return False
            return True

        def _on_rollout_start(self):
            rollout_starts.append(len(steps))

    if getattr(model, "use_sde", False):
        o_rn, o_train = model.actor.reset_noise, model.train

        def reset_noise(*a, **k):
            if not in_train[0]:
                sde_resets.append(len(steps))
            return o_rn(*a, **k)

        def train(*a, **k):
            in_train[0] = True
            try:
                return o_train(*a, **k)
            finally:
                in_train[0] = False

        model.actor.reset_noise = reset_noise
        model.train = train
    call_info = []
    for c in case["calls"]:
        call_info.append({"steps_before": len(steps), "noise_log_before": len(NOISE_LOG)})
        st_cfg = case.get("stop") or {}
        model.learn(total_timesteps=c["total"], reset_num_timesteps=c["reset"],
                    callback=Marks(st_cfg.get("step") if st_cfg.get("call") == len(call_info) - 1 else None))
        call_info[-1].update(steps_after=len(steps), nt_end=int(model.num_timesteps))
    # everything sample() can return after learn(): every valid slot x every env column (the env index drawn inside _get_samples is forced)
    samples = None
    if not case.get("her"):
        size = rb.buffer_size if rb.full else rb.pos
        o_ri = np.random.randint
        samples = []

        def one_tag(o):
            try:
                if case["vecnorm"]:
                    o = {k: np.rint(np.asarray(v, dtype=np.float64)) for k, v in o.items()} if isinstance(o, dict) else np.rint(np.asarray(o, dtype=np.float64))
                return collapse(se.decode(dspace, o))
            except se.MixedObservation as ex:
                return f"mixed:{ex}"

        for e in range(ne):
            np.random.randint = lambda low, high=None, size=None, e=e, **k: np.full(size, e)
            try:
                smp = rb._get_samples(np.arange(size), env=None) if size > 0 else None
            finally:
                np.random.randint = o_ri
            col_s = []
            for i in range(size):
                if isinstance(smp.observations, dict):
                    ob = {k: v[i].numpy() for k, v in smp.observations.items()}
                    nx = {k: v[i].numpy() for k, v in smp.next_observations.items()}
                else:
                    ob, nx = smp.observations[i].numpy(), smp.next_observations[i].numpy()
                col_s.append({"obs": one_tag(ob), "next": one_tag(nx), "action": smp.actions[i].numpy().astype(np.float64).reshape(-1).tolist(),
                              "reward": float(smp.rewards[i].item()), "done": float(smp.dones[i].item())})
            samples.append(col_s)
    # buffer arrays after learn()
    n = len(adds)
    buf = None
    if n <= rb.buffer_size and not rb.full:
        def col(arr):
            return [tags(arr[i]) for i in range(n)]
        if isinstance(rb.observations, dict):
            obs_rows = [tags({k: v[i] for k, v in rb.observations.items()}) for i in range(n)]
            nxt_rows = [tags({k: v[i] for k, v in rb.next_observations.items()}) for i in range(n)]
        else:
            obs_rows, nxt_rows = col(rb.observations), col(rb.next_observations)
        buf = {"pos": int(rb.pos), "obs": obs_rows, "next": nxt_rows, "action": rb.actions[:n].astype(np.float64).reshape(n, ne, -1).tolist(),
               "reward": rb.rewards[:n].astype(np.float64).tolist(), "done": (rb.dones[:n] > 0.5).tolist(), "timeout": (rb.timeouts[:n] > 0.5).tolist()}
    sp = {"low": np.asarray(aspace.low, dtype=np.float64).reshape(-1).tolist(), "high": np.asarray(aspace.high, dtype=np.float64).reshape(-1).tolist()} if isinstance(aspace, spaces.Box) else {}
    # per-env noise events in order: "c" = sample drawn, "r" = reset
    an = getattr(model, "action_noise", None)
    subs = list(an.noises) if isinstance(an, VectorizedActionNoise) else ([an] if an is not None else [])
    idmap = {id(x): j for j, x in enumerate(subs)}
    noise_events = [[] for _ in subs]
    marks = [c["noise_log_before"] for c in call_info]
    for pos, x in enumerate(NOISE_LOG):
        if x[2] in idmap:
            noise_events[idmap[x[2]]].append("c" if x[0] == "call" else "r")
    her_infos = None
    if case.get("her"):
        her_infos = [[int(rb.infos[i][e].get("tag", -1)) for e in range(ne)] for i in range(min(n, rb.buffer_size))]
    return {"steps": steps, "adds": adds, "calls": call_info, "gt": [base.envs[e].gt for e in range(ne)], "space": sp, "buffer": buf,
            "noise_events": ["".join(ev) for ev in noise_events], "rollout_starts": rollout_starts, "sde_resets": sde_resets,
            "use_sde": bool(getattr(model, "use_sde", False)), "her_infos": her_infos, "samples": samples, "capacity": int(rb.buffer_size),
            "dict_buffer": isinstance(rb.observations, dict), "stops": stops}


def _worker(case):
    from harness import cov_collect as branchcov

    try:
        if branchcov.enabled():
            branchcov.start(list(COV_TARGETS))
            try:
                res = run_impl(case)
            finally:
                cov = branchcov.stop()
            res["cov"] = cov
            return res
        return run_impl(case)
    except Exception:  # noqa: BLE001
        import traceback

        return {"error": traceback.format_exc()[-2500:]}


# ---------------------------------------------------------------- oracle

def oracle(case, impl):
    import numpy as np

    from harness.c06 import ground_truth

    probs = []
    ne = case["n_envs"]
    gt = ground_truth(case, impl)
    adds, steps = impl["adds"], impl["steps"]
    lo, hi = impl["space"].get("low"), impl["space"].get("high")
    nsteps = [len(col) for col in gt]
    if len(set(nsteps)) != 1 or nsteps[0] != len(adds):
        probs.append(("oracle-add-count", f"envs made {nsteps} steps, replay_buffer.add was called {len(adds)} times"))
    if len(steps) != len(adds):
        probs.append(("oracle-add-count", f"{len(steps)} actions were sampled, {len(adds)} adds"))
    for g, ad in enumerate(adds):
        for e in range(ne):
            if g >= len(gt[e]):
                continue
            s = gt[e][g]
            where = f"add {g} env {e}"
            if ad["obs"][e] != s["saw"]:
                probs.append(("oracle-observation", f"{where}: stored observation {ad['obs'][e]}, the agent acted on {s['saw']}"))
            vn = ad.get("vn", {}).get(e, ad.get("vn", {}).get(str(e)))
            if vn is not None:
                tol = 1e-3 * max(1.0, abs(vn["raw"]))
                if vn["raw_diff"] > tol:
                    clipped = vn["rt_diff"] <= tol and case.get("vn_clip")
                    probs.append(("vecnormalize-terminal-obs-clipped" if clipped else "oracle-next-observation",
                                  f"{where}: under VecNormalize(clip_obs={case.get('vn_clip')}) the stored next observation of the episode-ending transition is {vn['stored']}, "
                                  f"the raw terminal observation is {vn['raw']}" + (" (= unnormalize(clip(normalize(raw))))" if clipped else "")))
            elif ad["next"][e] != s["tag"]:
                kind = "oracle-next-obs-is-reset-obs" if s["done"] and ad["next"][e] == s["returned"] else "oracle-next-observation"
                probs.append((kind, f"{where}: stored next observation {ad['next'][e]}, true successor {s['tag']} (done={s['done']}, auto-reset obs {s['returned']})"))
            if ad["raw_err"] > 1e-2 and vn is None:
                probs.append(("oracle-raw-observation-under-normalisation", f"{where}: stored observation is not the raw one (distance to an integer tag {ad['raw_err']})"))
            if abs(ad["reward"][e] - s["r"]) > 1e-6:
                probs.append(("oracle-reward", f"{where}: stored reward {ad['reward'][e]}, raw env reward {s['r']}"))
            if ad["done"][e] != s["done"]:
                probs.append(("oracle-done", f"{where}: done {ad['done'][e]}, env terminated={s['term']} truncated={s['trunc']}"))
            if ad["timeout"][e] != (s["trunc"] and not s["term"]):
                probs.append(("oracle-timeout", f"{where}: timeout {ad['timeout'][e]}, env terminated={s['term']} truncated={s['trunc']}"))
            if g < len(steps):
                st = steps[g]
                ba = np.asarray(ad["action"][e])
                if ad["action"][e] != st["buffer_action"][e]:
                    probs.append(("oracle-action", f"{where}: stored action {ad['action'][e]} != buffer action {st['buffer_action'][e]}"))
                if lo is not None:
                    if np.any(ba < -1 - 1e-6) or np.any(ba > 1 + 1e-6):
                        probs.append(("oracle-action-not-normalised", f"{where}: stored action {ba.tolist()} outside [-1,1]"))
                    resc = np.asarray(lo) + 0.5 * (ba + 1.0) * (np.asarray(hi) - np.asarray(lo))
                    if not np.allclose(resc, np.asarray(s["action"]), rtol=1e-5, atol=1e-5):
                        probs.append(("oracle-env-action", f"{where}: rescaled stored action {resc.tolist()} != action the env received {s['action']}"))
                    if st["noise"] is None and not np.allclose(np.asarray(st["u"][e]), np.asarray(s["action"]), rtol=1e-5, atol=1e-5):
                        probs.append(("oracle-env-action-not-policy-action", f"{where}: no action noise, the policy chose {st['u'][e]} but the env received {s['action']}"))
                    if np.any(np.asarray(s["action"]) < np.asarray(lo) - 1e-5) or np.any(np.asarray(s["action"]) > np.asarray(hi) + 1e-5):
                        probs.append(("oracle-env-action-out-of-bounds", f"{where}: env received {s['action']} outside [{lo},{hi}]"))
                elif [float(x) for x in ad["action"][e]] != [float(x) for x in s["action"]]:
                    probs.append(("oracle-env-action", f"{where}: stored discrete action {ad['action'][e]} != received {s['action']}"))
    # action noise: drawn once per step and env, reset for every env when learn() starts and for env e right after its episode ends
    if impl.get("noise_events") and lo is not None and case.get("noise"):
        for e, got in enumerate(impl["noise_events"]):
            want = ""
            for info in impl["calls"]:
                want += "r"
                for g in range(info["steps_before"], info["steps_after"]):
                    envs_done = [gt[x][g]["done"] for x in range(ne) if g < len(gt[x])]
                    mine = gt[e][g]["done"] if len(impl["noise_events"]) == ne and g < len(gt[e]) else any(envs_done)
                    want += "c" + ("r" if mine else "")
            import re as _re

            got, want = _re.sub("r+", "r", got), _re.sub("r+", "r", want)   # a reset right after a reset changes nothing
            if got != want:
                k = next((q for q in range(min(len(got), len(want))) if got[q] != want[q]), min(len(got), len(want)))
                probs.append(("oracle-noise-reset", f"action noise of env {e}: draw/reset sequence differs from 'reset at learn() start, one draw per step, reset after the env's "
                                                    f"episode end' at event {k}: got ...{got[max(0, k - 6):k + 6]} expected ...{want[max(0, k - 6):k + 6]}"))
    # gSDE: reset_noise before the loop of every collect_rollouts and at the step indices that are multiples of sde_sample_freq
    if impl.get("use_sde"):
        starts = impl["rollout_starts"] + [len(steps)]
        f = case.get("sde_freq", 2)
        for r in range(len(starts) - 1):
            k = starts[r + 1] - starts[r]
            got = [p - starts[r] for p in impl["sde_resets"] if starts[r] <= p < starts[r + 1] or (p == starts[r + 1] and False)]
            # the call before the loop of rollout r+1 is logged at position starts[r+1]: it belongs to the next rollout
            want = [0] + [j for j in range(k) if f > 0 and j % f == 0]
            if r == len(starts) - 2:
                got = [p - starts[r] for p in impl["sde_resets"] if starts[r] <= p]
            if got != want:
                probs.append(("oracle-sde-resample-cadence", f"rollout {r} ({k} steps, sde_sample_freq {f}): reset_noise at step indices {got}, expected {want}"))
                break
    if impl.get("her_infos") is not None:
        for g, row in enumerate(impl["her_infos"]):
            for e in range(ne):
                if g < len(gt[e]) and row[e] != gt[e][g]["info"]:
                    probs.append(("oracle-her-info", f"HerReplayBuffer.infos[{g}][{e}] carries info tag {row[e]}, the env's step {g} had {gt[e][g]['info']}"))
                    break
    # end to end: whatever the buffer can return is a real transition of that env among the last `capacity` ones
    if impl.get("samples") is not None and adds:
        N, cap = len(adds), impl["capacity"]
        size = min(N, cap)
        for e in range(ne):
            if len(impl["samples"][e]) != size:
                probs.append(("oracle-pipeline-sample-count", f"env {e}: {len(impl['samples'][e])} drawable slots after {N} adds with capacity {cap}"))
                continue
            for idx, sm in enumerate(impl["samples"][e]):
                k = idx if N <= cap else next(q for q in range(N - cap, N) if q % cap == idx)
                if k >= len(gt[e]):
                    continue
                s = gt[e][k]
                vn = adds[k].get("vn", {}).get(e) if case.get("vecnorm") else None
                want_done = 1.0 if (s["done"] and not (s["trunc"] and not s["term"])) else 0.0
                bad = []
                if sm["obs"] != s["saw"]:
                    bad.append(f"observation {sm['obs']} != observation acted on {s['saw']}")
                if sm["next"] != s["tag"] and vn is None:
                    bad.append(f"next observation {sm['next']} != true successor {s['tag']}" + (" (it is the auto-reset observation)" if sm["next"] == s["returned"] and s["done"] else ""))
                if abs(sm["reward"] - s["r"]) > 1e-6:
                    bad.append(f"reward {sm['reward']} != raw env reward {s['r']}")
                if sm["done"] != want_done:
                    bad.append(f"done {sm['done']} != {want_done} (terminated={s['term']}, truncated={s['trunc']}; time-limit endings are masked)")
                if not np.allclose(sm["action"], adds[k]["action"][e], atol=1e-6):
                    bad.append(f"action {sm['action']} != stored action of that step {adds[k]['action'][e]}")
                if bad:
                    probs.append(("oracle-pipeline-sample", f"slot {idx} env {e} (= transition {k} of {N}, capacity {cap}): " + "; ".join(bad)))
                    break
    b = impl["buffer"]
    if b is not None:
        if b["pos"] != len(adds):
            probs.append(("oracle-buffer-pos", f"buffer pos {b['pos']} after {len(adds)} adds"))
        for g, ad in enumerate(adds):
            if (b["obs"][g], b["next"][g], b["done"][g], b["timeout"][g]) != (ad["obs"], ad["next"], ad["done"], ad["timeout"]) or \
               not np.allclose(b["action"][g], ad["action"], atol=1e-6) or not np.allclose(b["reward"][g], ad["reward"], atol=1e-6):
                probs.append(("oracle-buffer-row", f"buffer row {g} differs from the {g}-th add: {str((b['obs'][g], b['next'][g], b['done'][g], b['timeout'][g]))[:200]} vs {str((ad['obs'], ad['next'], ad['done'], ad['timeout']))[:200]}"))
                break
    return probs


def oracle_stop(case, impl):
    """runs in which a callback returned False: the env-side log is still the oracle"""
    from harness.c06 import ground_truth

    probs = []
    ne = case["n_envs"]
    gt = ground_truth(case, impl)
    adds, stops = impl["adds"], set(impl["stops"])
    nsteps = len(impl["steps"])
    amap = [g for g in range(nsteps) if g not in stops]
    resumed = {g + 1 for g in stops}                    # env steps taken right after a stopped one (in the continued learn())
    if any(len(col) != nsteps for col in gt):
        probs.append(("oracle-add-count", f"envs made {[len(c) for c in gt]} steps, {nsteps} actions were sampled"))
    for g in sorted(stops):
        probs.append((STOP_SIG, f"env step {g} (callback.on_step() returned False there) was taken by the envs "
                                f"({[(gt[e][g]['saw'], gt[e][g]['tag']) for e in range(ne) if g < len(gt[e])]}) but never stored in the replay buffer"))
    if len(adds) != len(amap):
        probs.append(("oracle-add-count", f"{len(adds)} adds for {nsteps} env steps of which {len(stops)} were stopped"))
    for j, ad in enumerate(adds[:len(amap)]):
        g = amap[j]
        for e in range(ne):
            if g >= len(gt[e]):
                continue
            s = gt[e][g]
            bad = []
            if ad["obs"][e] != s["saw"]:
                bad.append(f"stored observation {ad['obs'][e]}, the env showed {s['saw']} before that step")
            if ad["next"][e] != s["tag"]:
                bad.append(f"stored next observation {ad['next'][e]}, true successor {s['tag']}")
            if abs(ad["reward"][e] - s["r"]) > 1e-6 or ad["done"][e] != s["done"] or ad["timeout"][e] != (s["trunc"] and not s["term"]):
                bad.append("reward / done / timeout differ from the env's")
            if bad:
                sig = STOP_SIG if g in resumed and not case["calls"][-1]["reset"] else "oracle-stop-run-transition"
                probs.append((sig, f"add {j} env {e} (env step {g}, the first one after the stop request; learn() continued with reset_num_timesteps=False): " + "; ".join(bad)
                              if sig == STOP_SIG else f"add {j} env {e} (env step {g}): " + "; ".join(bad)))
    return probs


def stop_exprs(case, impl):
    from harness import scripted_envs as se

    lo = impl["space"].get("low")
    ak = f"(ABox {coq_list(lo, fq)} {coq_list(impl['space']['high'], fq)})" if lo is not None else "ADisc"
    stops = set(impl["stops"])
    ex = []
    for e in range(case["n_envs"]):
        orcs = [f"(mkO {coq_list(st['u'][e], fq)} None, {coq_bool(g in stops)})" for g, st in enumerate(impl["steps"])]
        ex.append(f"show_collect_s {ak} {se.coq_script(case['scripts'][e])} true {coq_list(orcs)}")
    return ex


def compare_stop(case, impl, vals):
    probs = []
    for e in range(case["n_envs"]):
        got = [(ad["obs"][e], ad["next"][e], int(round(ad["reward"][e] * 4)), ad["done"][e], ad["timeout"][e]) for ad in impl["adds"]]
        if got != [tuple(x) for x in vals[e]]:
            j = next((q for q in range(min(len(got), len(vals[e]))) if got[q] != tuple(vals[e][q])), min(len(got), len(vals[e])))
            probs.append(("stop-log", f"env {e}: adds differ from Model.OffPolicyCollect.off_collect_s at add {j}: impl {got[j:j + 2]} model {vals[e][j:j + 2]}"))
    return probs


# ---------------------------------------------------------------- model

def fq(x):
    return coq_Q(Fraction(float(x)))


def model_exprs(case, impl):
    from harness import scripted_envs as se
    from harness.c06 import ground_truth

    ne = case["n_envs"]
    lo, hi = impl["space"].get("low"), impl["space"].get("high")
    ak = f"(ABox {coq_list(lo, fq)} {coq_list(hi, fq)})" if lo is not None else "ADisc"
    tf = ("TfStep " if case["tf"][0] == "step" else "TfEpis ") + coq_Z(case["tf"][1])
    gt = ground_truth(case, impl)
    exprs = []
    ORCS, ALL_ORCS = {}, []
    for e in range(ne):
        calls, impls = [], []
        for ci, (c, info) in enumerate(zip(case["calls"], impl["calls"])):
            orcs, im = [], []
            for g in range(info["steps_before"], info["steps_after"]):
                st = impl["steps"][g]
                nz = "None"
                if st["noise"] is not None:
                    vec = st["noise"][e] if len(st["noise"]) == ne else (st["noise"][0] if st["noise"] else [])
                    nz = f"(Some {coq_list(vec, fq)})"
                orcs.append(f"mkO {coq_list(st['u'][e], fq)} {nz}")
                envact = gt[e][g]["action"] if g < len(gt[e]) else []
                ba = impl["adds"][g]["action"][e] if g < len(impl["adds"]) else []
                im.append(f"({coq_list(ba, fq)}, {coq_list(envact, fq)})")
            ORCS[(e, ci)] = orcs
            calls.append(f"mkOC {coq_Z(c['total'])} {coq_bool(c['reset'])} {coq_bool(c['reset'] or ci == 0)} {coq_list(orcs)}")
            impls.append(coq_list(im))
        exprs.append(f"check_off (1 # 100000)%Q (1 # 100000)%Q {ak} {se.coq_script(case['scripts'][e])} {coq_Z(ne)} ({tf}) {coq_list(calls)} {coq_list(impls)}")
        ALL_ORCS.append([o for ci, (c, info) in enumerate(zip(case["calls"], impl["calls"])) for o in ORCS[(e, ci)]])
    if pipeline_applicable(case, impl):
        envs = [f"mkEC {se.coq_script(case['scripts'][e])} (os_reset {se.coq_script(case['scripts'][e])} ostate0) {coq_list(ALL_ORCS[e])}" for e in range(ne)]
        exprs.append(f"pipeline_table {coq_bool(impl['dict_buffer'])} {coq_Z(case.get('buffer_size', 120))} true {ak} {coq_list(envs)} {common.coq_nat(len(impl['adds']))}")
    if impl.get("use_sde"):
        starts = impl["rollout_starts"] + [len(impl["steps"])]
        ks = [starts[r + 1] - starts[r] for r in range(len(starts) - 1)]
        exprs.append(f"map (sde_calls true {coq_Z(case.get('sde_freq', 2))}) {coq_list(ks, common.coq_nat)}")
    return exprs


def pipeline_applicable(case, impl):
    """the composed model Model.Pipeline.pipeline_table describes one uninterrupted collection"""
    return (impl.get("samples") is not None and not case.get("vecnorm") and all(not c["reset"] for c in case["calls"][1:])
            and 0 < len(impl["adds"]) < 4000)


def compare(case, impl, vals):
    probs = []
    ne = case["n_envs"]
    if pipeline_applicable(case, impl):
        table = vals[ne]
        if table is None or not isinstance(table, tuple) or table[0] != "Some":
            probs.append(("pipeline-table", f"model refuses the buffer configuration: {table}"))
        else:
            rows = table[1]
            size = len(impl["samples"][0]) if impl["samples"] else 0
            if len(rows) != size:
                probs.append(("pipeline-table", f"model has {len(rows)} drawable slots, impl {size}"))
            for d, cols in rows[:size]:
                for e in range(ne):
                    ob, _, nx, dn, rw = cols[e]
                    sm = impl["samples"][e][d]
                    if (sm["obs"], sm["next"], sm["done"], sm["reward"]) != (ob, nx, float(dn), rw / 4.0):
                        probs.append(("pipeline-sample", f"slot {d} env {e}: impl sample (obs, next, done, reward) {(sm['obs'], sm['next'], sm['done'], sm['reward'])}, "
                                                         f"Model.Pipeline {(ob, nx, float(dn), rw / 4.0)}"))
                        break
                else:
                    continue
                break
    if impl.get("use_sde"):
        starts = impl["rollout_starts"] + [len(impl["steps"])]
        got = []
        for r in range(len(starts) - 1):
            last = r == len(starts) - 2
            got.append([p - starts[r] for p in impl["sde_resets"] if starts[r] <= p and (last or p < starts[r + 1])])
        sv = vals[ne + (1 if pipeline_applicable(case, impl) else 0)]
        if got != sv:
            r = next((q for q in range(min(len(got), len(sv))) if got[q] != sv[q]), 0)
            probs.append(("sde-resample-positions", f"rollout {r}: impl reset_noise positions {got[r] if r < len(got) else None}, model {sv[r] if r < len(sv) else None}"))
    for e in range(ne):
        if len(vals[e]) != len(impl["calls"]):
            probs.append(("call-count", f"env {e}: model {len(vals[e])} calls"))
            continue
        for ci, ((ts, n, nt, left, exh), info) in enumerate(zip(vals[e], impl["calls"])):
            k = info["steps_after"] - info["steps_before"]
            if exh or left != 0 or n != k:
                probs.append(("step-count", f"learn#{ci} env {e}: impl made {k} steps, model makes {n} (oracle entries left {left}, model wanted more: {exh})"))
            if nt != info["nt_end"]:
                probs.append(("num-timesteps", f"learn#{ci}: impl num_timesteps {info['nt_end']} model {nt}"))
            for j, (obs, nxt, r4, done, timeout, ba_ok, env_ok) in enumerate(ts):
                g = info["steps_before"] + j
                if g >= len(impl["adds"]):
                    break
                ad = impl["adds"][g]
                where = f"add {g} env {e}"
                if ad["obs"][e] != obs:
                    probs.append(("add-observation", f"{where}: impl {ad['obs'][e]} model {obs}"))
                if ad["next"][e] != nxt:
                    probs.append(("add-next-observation", f"{where}: impl {ad['next'][e]} model {nxt}"))
                if abs(ad["reward"][e] - r4 / 4.0) > 1e-6:
                    probs.append(("add-reward", f"{where}: impl {ad['reward'][e]} model {r4 / 4.0}"))
                if ad["done"][e] != done or ad["timeout"][e] != timeout:
                    probs.append(("add-flags", f"{where}: impl done/timeout {ad['done'][e]}/{ad['timeout'][e]} model {done}/{timeout}"))
                if not ba_ok:
                    probs.append(("buffer-action", f"{where}: impl buffer action {ad['action'][e]} differs from scale/noise/clip of the model (u={impl['steps'][g]['u'][e]}, noise={impl['steps'][g]['noise']})"))
                if not env_ok:
                    probs.append(("env-action", f"{where}: env action differs from unscale(buffer action) of the model"))
    return probs


def run_cases(chk, cases, procs=4):
    import multiprocessing as mp

    ctx = mp.get_context("fork")
    with ctx.Pool(min(procs, max(1, len(cases)))) as pool:
        impls = pool.map(_worker, cases, chunksize=1)
    results = [None] * len(cases)
    exprs, spans = [], {}
    for i, (c, im) in enumerate(zip(cases, impls)):
        if im.get("error"):
            results[i] = [("impl-exception", im["error"][-800:])]
            continue
        if c.get("vecnorm"):
            results[i] = oracle(c, im)
            continue
        ex = stop_exprs(c, im) if c.get("stop") else model_exprs(c, im)
        spans[i] = (len(exprs), len(exprs) + len(ex))
        exprs += ex
    vals = common.coq_eval_many(chk.pid, HEADER, exprs, shard=30, procs=4) if exprs else []
    for i, (a, b) in spans.items():
        if cases[i].get("stop"):
            results[i] = oracle_stop(cases[i], impls[i]) + [("model-correspondence-" + s, m) for s, m in compare_stop(cases[i], impls[i], vals[a:b])]
            continue
        results[i] = oracle(cases[i], impls[i]) + [("model-correspondence-" + s, m) for s, m in compare(cases[i], impls[i], vals[a:b])]
    return impls, results


def nontrivial(case, impl):
    flags = {(s[3], s[4]) for col in impl.get("gt", []) for s in col if s[0] == "step"}
    return (False, True) in flags and (True, False) in flags and len(impl.get("adds", [])) >= 6


def oracle_first(cases, impls, results):
    """reporting order: cases whose statement-level oracle fails (concrete input) before cases where only model and implementation
    disagree, so that the cap on reported violations never hides a concrete input behind a model-correspondence line"""
    def rank(i):
        pr = results[i] or []
        if any(not sg.startswith("model-correspondence-") and sg != "impl-exception" for sg, _ in pr):
            return 0
        return 1 if pr else 2
    order = sorted(range(len(cases)), key=rank)
    return [(cases[i], impls[i], results[i]) for i in order]


def main():
    chk = Check("C04", groups=["offpolicy", "onpolicy"])
    chk.build_props()
    n_cases = 72 if chk.tier == "quick" else 1000
    cases = []
    corpus = os.path.join(common.VERIF, "corpus", "C04.jsonl")
    if os.path.exists(corpus):
        cases += [json.loads(l) for l in open(corpus) if l.strip()]
    n_corpus = len(cases)
    for i in range(n_cases):
        cases.append(gen_case(chk.rng, i))
    impls, results = run_cases(chk, cases)
    distinct = set()
    hist = {"algo": {}, "obs": {}, "act": {}, "noise": {}, "tf": {}, "n_envs": {}, "vecnorm": 0, "sde": 0, "adds": 0, "done_adds": 0, "both_flag_steps": 0, "warmup_and_policy_runs": 0}
    for c, im, probs in oracle_first(cases, impls, results):
        for k in ("algo", "obs", "act", "noise", "n_envs"):
            hist[k][str(c[k])] = hist[k].get(str(c[k]), 0) + 1
        hist["tf"][c["tf"][0]] = hist["tf"].get(c["tf"][0], 0) + 1
        hist["vecnorm"] += int(bool(c.get("vecnorm")))
        hist["sde"] += int(bool(c.get("sde")))
        if not im.get("error"):
            hist["adds"] += len(im["adds"])
            hist["samples_checked"] = hist.get("samples_checked", 0) + sum(len(x) for x in (im.get("samples") or []))
            hist["wrapped_buffers"] = hist.get("wrapped_buffers", 0) + int(len(im["adds"]) > im.get("capacity", 10**9))
            hist["pipeline_model_runs"] = hist.get("pipeline_model_runs", 0) + int(pipeline_applicable(c, im))
            hist["done_adds"] += sum(sum(a["done"]) for a in im["adds"])
            hist["both_flag_steps"] += sum(1 for col in im["gt"] for s in col if s[0] == "step" and s[3] and s[4])
            nts = [s["nt"] for s in im["steps"]]
            if nts and min(nts) < c["learning_starts"] <= max(nts):
                hist["warmup_and_policy_runs"] += 1
            if nontrivial(c, im):
                distinct.add(json.dumps({k: c[k] for k in c if k != "id"}, sort_keys=True))
        KNOWN_SIGS = ("vecnormalize-terminal-obs-clipped", STOP_SIG)
        for ks in KNOWN_SIGS:          # findings are reported under their own signature, separately from anything else in the same case
            if any(sg == ks for sg, _ in probs) and not any(v["signature"] == ks for v in chk.violations):
                chk.violation(ks, "; ".join(m for sg, m in probs if sg == ks)[:700], {"case": c, "problems": [q for q in probs if q[0] == ks][:6]}, found_input=True)
        probs = [q for q in probs if q[0] not in KNOWN_SIGS]
        if probs and len([v for v in chk.violations if v["signature"] not in KNOWN_SIGS]) < 3:
            oracle_bad = [s for s, _ in probs if not s.startswith("model-correspondence-") and s != "impl-exception"]
            sig = oracle_bad[0] if oracle_bad else probs[0][0]
            chk.violation(sig, "; ".join(m for s, m in probs if s == sig)[:700],
                          {"case": c, "problems": probs[:10], "correspondence": "harness/c04.py vs Model.OffPolicyCollect.check_off"},
                          found_input=bool(oracle_bad) or sig == "impl-exception")
    chk.coverage["evaluations"] = len(cases)
    chk.coverage["traces_validated_against_impl"] = sum(1 for im in impls if not im.get("error"))
    chk.coverage["distinct_nontrivial"] = len(distinct)
    chk.coverage["rule"] = ("real SAC/TD3/DDPG/DQN learn() (1-2 calls, with/without counter reset) on scripted envs: n_envs 1-3, train_freq 1-4 steps or 1-2 episodes, learning_starts 0/4/9/1000, "
                            "Box (symmetric / asymmetric bounds) and Discrete actions, action noise (plain and vectorised, incl. large samples that are clipped), gSDE with/without warm-up, Box rank 1-2 / Dict / "
                            "Discrete / image observations, some runs under VecNormalize (oracle only); every add compared; non-trivial = run contains a truncated-not-terminated and a terminated step "
                            "and at least 6 adds; distinct = distinct case description")
    chk.notes["input_distribution"] = hist
    chk.notes["corpus_cases"] = n_corpus
    chk.add_samples([{k: cases[i][k] for k in ("algo", "n_envs", "tf", "obs", "act", "noise", "learning_starts", "calls")} for i in (n_corpus, n_corpus + 1) if i < len(cases)])
    chk.assumptions += [
        "unscaled actions (policy / warm-up sampler) and noise samples are oracle inputs of the model, recorded from the run",
        "float32 rounding is not modelled: buffer actions and env actions are compared at rel/abs 1e-5",
        "VecNormalize runs (clipping disabled) are judged by the statement-level oracle only; raw observations are decoded after rounding to the nearest integer tag (distance reported)",
        "a learn() stopped by a callback is exercised; the step whose callback returned False is not stored (known finding F20)",
    ]
    from harness import cov_collect as branchcov

    if branchcov.enabled():
        executed = {tuple(x) for im in impls for x in (im.get("cov") or [])}
        chk.notes["branchcov"] = {"targets": {k: v for k, v in COV_TARGETS.items()}, "never_executed": branchcov.report(COV_TARGETS, executed)}
    return chk.finish()


def replay(path):
    d = json.load(open(path))
    case = d["replay"]["case"]
    chk = Check("C04", groups=["offpolicy", "onpolicy"])
    impls, results = run_cases(chk, [case], procs=1)
    print(json.dumps({"problems": results[0]}, indent=1)[:4000])
    return 1 if results[0] else 0
