"""C09 - saving then loading reproduces the model.

Proof side:   Props/C09.v (json_to_data (data_to_json d) = d for ALL attribute value trees with the decision rule
              regenerated from save_util.py; kept-as-JSON iff faithful; attribute partition of save/load for all
              exclude/include sets; set_parameters(get_parameters()) = id; Refuted/C09_prefix_rule.v: the rule
              before the fix altered tuples / non-string keys / float subclasses).
Tie:          (i) codec: random Python value trees (tuples, nested dicts with int/float/bool/None/tuple keys, numpy
                  scalars, IntEnum / str subclasses, NaN, classes, callables, arrays) through the real
                  data_to_json / json_to_data; plain-vs-pickled decision compared with Model.JsonCodec; restored
                  values compared with the originals, values AND types (oracle);
              (ii) whole models: A2C, PPO, DQN, SAC, TD3, DDPG (+ DQN with HerReplayBuffer), tiny networks, gSDE,
                  fixed / learned entropy coefficient, callable schedules, custom optimizer, action noise, tuple
                  net_arch; before / after a short learn(); str / pathlib / BytesIO; exclude / include: full
                  __dict__ (values and types), state dicts incl. optimizers, torch variables, predict(), continued
                  training, set_parameters(get_parameters()), replay buffer save/load.
"""
from __future__ import annotations

import contextlib
import enum
import io
import json
import math
import os
import pathlib
import shutil
import tempfile
import warnings

from harness import common
from harness.common import Check, coq_list, coq_Z

REGISTRY = dict(
    text=("Proof (unbounded): with the decision rule regenerated from save_util.py (an attribute is stored as plain JSON only if json.loads(json.dumps(.)) gives it back, values and "
          "types) json_to_data(data_to_json(d)) = d for ALL attribute value trees (tuples, nested dicts with non-string keys, float/int/str subclass scalars, NaN, and anything "
          "json.dumps rejects travel as pickled blobs); plain JSON is used exactly for the values JSON holds unchanged; save/load restores every non-excluded attribute, state dict "
          "and torch variable for all exclude/include sets; set_parameters(get_parameters()) changes nothing. Refuted witnesses keep the pre-fix behaviour (F7) as regression inputs; "
          "F15 (tuple-key dict made save() raise) and F18 (str-subclass keys restored as plain str) were found by this check / its review and repaired in /repo (regression inputs). "
          "Known findings reproduced from fixed corpus inputs: F16 dict-attribute-with-reserved-serialized-key-not-restored, F19 net-arch-list-of-dict-rewritten-on-load. "
          "Build round 5: load() as a state transformer in the code's order of effects (Model.LoadFlow: frame condition over custom_objects / kwargs / env bookkeeping, n_envs and "
          "_last_obs, load raises iff a modelled guard fails), set_parameters in full (Model.SetParams: exact_match=True either raises or has installed every object; the names are "
          "compared only AFTER the objects were loaded), load_replay_buffer decision. Finding load-env-argument-overridden-by-stored-env (Refuted/C09_load_env.v, replayed from the corpus). "
          "Tie: fragment translator + correspondence on random value trees + six algorithms saved and loaded through str / pathlib / BytesIO."),
    note=("Trusted: Coq 8.16.1 kernel (vm_compute, no native_compute), translate/py2coq.py + specs/saveload.py + specs/loadflow.py, harness/c09.py, harness/c09_loadflow.py, Python/numpy/torch/cloudpickle/zipfile. "
          "Modelled, not verified: cloudpickle, th.save/th.load, zipfile (identity on opaque blobs; exercised by the whole-model runs), _setup_model (a frame condition in the "
          "theorems; exercised). F7 was repaired in /repo (d2e3a0f): the positive theorem is proved, the old rule's counterexamples are kept in Refuted/ and corpus/C09.jsonl. "
          "All C09 theorems are closed under the global context."),
    technique="machine-checked proof in Coq (nested induction on value trees, association-list reasoning) + regenerated-fragment interface lemmas + differential correspondence",
)

COV_TARGETS = {"stable_baselines3/common/save_util.py": None,
               "stable_baselines3/common/base_class.py": ["BaseAlgorithm.save", "BaseAlgorithm.load", "BaseAlgorithm.set_parameters", "BaseAlgorithm.get_parameters",
                                                          "BaseAlgorithm._excluded_save_params", "BaseAlgorithm._get_torch_save_params"],
               "stable_baselines3/common/off_policy_algorithm.py": ["OffPolicyAlgorithm.save_replay_buffer", "OffPolicyAlgorithm.load_replay_buffer",
                                                                    "OffPolicyAlgorithm._excluded_save_params", "OffPolicyAlgorithm._get_torch_save_params"],
               "stable_baselines3/her/her_replay_buffer.py": ["HerReplayBuffer.__getstate__", "HerReplayBuffer.__setstate__", "HerReplayBuffer.set_env", "HerReplayBuffer.truncate_last_trajectory"],
               "stable_baselines3/sac/sac.py": ["SAC._excluded_save_params", "SAC._get_torch_save_params"],
               "stable_baselines3/td3/td3.py": ["TD3._excluded_save_params", "TD3._get_torch_save_params"],
               "stable_baselines3/dqn/dqn.py": ["DQN._excluded_save_params", "DQN._get_torch_save_params"],
               "stable_baselines3/common/on_policy_algorithm.py": ["OnPolicyAlgorithm._get_torch_save_params"]}

HEADER = """From Coq Require Import List ZArith Bool String.
From SB3V Require Import Model.JsonCodec Model.SaveLoad.
Import ListNotations.
Local Open Scope Z_scope.
"""
from harness import c09_loadflow as lf  # noqa: E402  (build round 5: load() flow, set_parameters decision, load_replay_buffer decision)

HEADER = HEADER.replace("Local Open Scope Z_scope.", lf.HEADER_EXTRA + "Local Open Scope Z_scope.")


class Color(enum.IntEnum):
    RED = 1
    BLUE = 2


class Mode(enum.Enum):
    A = "a"


class MyStr(str):
    pass


# ---------------------------------------------------------------- value trees: spec (JSON-able) -> Python value + Coq term

def build(spec):
    """spec -> (python value, coq jv term).  spec is nested lists: [kind, payload]"""
    import numpy as np
    import torch as th

    k = spec[0]
    if k == "none":
        return None, "JNull"
    if k == "bool":
        return bool(spec[1]), f"(JBool {'true' if spec[1] else 'false'})"
    if k == "int":
        return int(spec[1]), f"(JInt {coq_Z(spec[1])})"
    if k == "float":
        return float(spec[1]) / 8.0, f"(JFloat {coq_Z(spec[1])} false)"
    if k == "nan":
        return float("nan"), "(JFloat 0 true)"
    if k == "str":
        return str(spec[1]), f'(JStr "{spec[1]}"%string)'
    if k in ("list", "tuple"):
        parts = [build(s) for s in spec[1]]
        py = [p for p, _ in parts]
        return (py if k == "list" else tuple(py)), f"({'JList' if k == 'list' else 'JTuple'} {coq_list([c for _, c in parts])})"
    if k == "dict":
        py, items = {}, []
        for ks, vs in spec[1]:
            kp, kc = build_key(ks)
            vp, vc = build(vs)
            py[kp] = vp
            items.append(f"({kc}, {vc})")
        return py, f"(JDict {coq_list(items)})"
    if k == "np_float64":
        return np.float64(spec[1] / 8.0), f"(JSub 1 (JFloat {coq_Z(spec[1])} false))"
    if k == "intenum":
        return Color(spec[1]), f"(JSub 2 (JInt {coq_Z(spec[1])}))"
    if k == "mystr":
        return MyStr(spec[1]), f'(JSub 3 (JStr "{spec[1]}"%string))'
    opaque = {
        "np_float32": lambda: np.float32(spec[1] / 8.0), "np_int64": lambda: np.int64(spec[1]), "array": lambda: np.arange(spec[1], dtype=np.float32),
        "class": lambda: th.optim.Adam, "callable": lambda: math.sqrt, "enum": lambda: Mode.A, "type": lambda: np.float32, "set": lambda: {1, 2},
        "bytes": lambda: b"ab", "complex": lambda: 1 + 2j,
    }
    if k in opaque:
        return opaque[k](), f"(JOpaque {coq_Z(sorted(opaque).index(k))})"
    raise ValueError(spec)


def build_key(ks):
    k = ks[0]
    if k == "str":
        return str(ks[1]), f'(KS "{ks[1]}"%string)'
    if k == "int":
        return int(ks[1]), f"(KI {coq_Z(ks[1])})"
    if k == "float":
        return ks[1] / 8.0 + 0.0625, f"(KF {coq_Z(ks[1])})"
    if k == "bool":
        return bool(ks[1]), f"(KB {'true' if ks[1] else 'false'})"
    if k == "none":
        return None, "KNone"
    if k == "tuple":
        return (int(ks[1]), 0), f"(KOther {coq_Z(ks[1])})"
    if k == "mystr":      # an instance of a str subclass as key: json writes its text, a plain str comes back
        return MyStr(ks[1]), f'(KSub 3 "{ks[1]}"%string)'
    if k == "npstr":
        import numpy as np

        return np.str_(ks[1]), f'(KSub 4 "{ks[1]}"%string)'
    raise ValueError(ks)


SCALARS = ["none", "bool", "int", "float", "str", "np_float64", "intenum", "mystr", "np_float32", "np_int64", "class", "callable", "enum", "type", "array", "nan",
           "set", "bytes", "complex"]


def gen_spec(rng, depth):
    u = rng.random()
    if depth <= 0 or u < 0.45:
        k = rng.choice(SCALARS if rng.random() < 0.5 else ["none", "bool", "int", "float", "str"])
        if k in ("none", "nan", "class", "callable", "enum", "type", "set", "bytes", "complex"):
            return [k, 0]
        if k == "bool":
            return [k, rng.random() < 0.5]
        if k in ("str", "mystr"):
            return [k, rng.choice(["a", "net", "x1", "", "1", "true"])]
        if k == "intenum":
            return [k, rng.choice([1, 2])]
        if k == "array":
            return [k, rng.randint(0, 3)]
        return [k, rng.randint(-40, 40)]
    if u < 0.62:
        return ["list", [gen_spec(rng, depth - 1) for _ in range(rng.randint(0, 3))]]
    if u < 0.78:
        return ["tuple", [gen_spec(rng, depth - 1) for _ in range(rng.randint(0, 3))]]
    items, seen = [], set()
    kinds = rng.choice([["str"], ["str"], ["str", "int"], ["int"], ["str", "none"], ["bool"], ["float", "str"], ["str", "tuple"], ["mystr"], ["npstr", "int"]])
    for _ in range(rng.randint(0, 3)):
        kk = rng.choice(kinds)
        payload = rng.choice(["k", "pi", "vf", "n", "k", "pi", "vf", "n", ":type:", ":serialized:"]) if kk == "str" else rng.choice(["pi", "vf"]) if kk in ("mystr", "npstr") else (rng.random() < 0.5 if kk == "bool" else rng.randint(0, 5))
        if (kk, payload) in seen:
            continue
        seen.add((kk, payload))
        items.append([[kk, payload], gen_spec(rng, depth - 1)])
    return ["dict", items]


def deep_same(a, b, path="", out=None):
    """values AND types, recursively; returns list of differences"""
    import numpy as np
    import torch as th

    out = [] if out is None else out
    if type(a) is not type(b):
        out.append(f"{path}: type {type(a).__name__} became {type(b).__name__}")
        return out
    if isinstance(a, dict):
        ka, kb = list(a.keys()), list(b.keys())
        if len(ka) != len(kb) or any(type(x) is not type(y) or x != y for x, y in zip(sorted(ka, key=repr), sorted(kb, key=repr))):
            out.append(f"{path}: keys {ka!r} became {kb!r}")
            return out
        for k in ka:
            deep_same(a[k], b[k], f"{path}[{k!r}]", out)
        return out
    if isinstance(a, (list, tuple)) or type(a).__name__ == "deque":
        if len(a) != len(b):
            out.append(f"{path}: length {len(a)} became {len(b)}")
            return out
        for i, (x, y) in enumerate(zip(a, b)):
            deep_same(x, y, f"{path}[{i}]", out)
        return out
    if isinstance(a, th.Tensor):
        if a.dtype != b.dtype or a.shape != b.shape or not th.equal(a.detach().cpu(), b.detach().cpu()):
            out.append(f"{path}: tensor differs")
        return out
    if isinstance(a, np.ndarray):
        if a.dtype != b.dtype or a.shape != b.shape:
            out.append(f"{path}: array dtype/shape {a.dtype}{a.shape} became {b.dtype}{b.shape}")
        elif a.dtype == object:      # e.g. HerReplayBuffer.infos: an array of dicts - element by element, values and types
            for idx, (x, y) in enumerate(zip(a.reshape(-1), b.reshape(-1))):
                if len(out) > 20:
                    break
                deep_same(x, y, f"{path}.flat[{idx}]", out)
        elif not np.array_equal(a, b, equal_nan=a.dtype.kind == "f"):
            out.append(f"{path}: array differs")
        return out
    if isinstance(a, float) and a != a:
        if b == b:
            out.append(f"{path}: NaN became {b!r}")
        return out
    if isinstance(a, (type(None), bool, int, float, str, bytes, complex, np.generic, enum.Enum, type, set, frozenset)):
        if a != b:
            out.append(f"{path}: {a!r} became {b!r}")
        return out
    if callable(a) and not hasattr(a, "__dict__"):
        if a is not b:
            out.append(f"{path}: builtin {a!r} became {b!r}")
        return out
    try:  # anything else with a usable equality (th.device, ...)
        eq = a == b
        if isinstance(eq, bool) and not eq and not hasattr(a, "__dict__"):
            out.append(f"{path}: {a!r} became {b!r}")
    except Exception:
        pass
    return out


# ---------------------------------------------------------------- codec stream

def run_codec(case):
    from stable_baselines3.common.save_util import data_to_json, json_to_data

    d, terms = {}, []
    for name, spec in case["items"]:
        py, cq = build(spec)
        d[name] = py
        terms.append(f'("{name}"%string, {cq})')
    expr = f"map (fun kv => is_plain (snd kv)) (data_to_json {coq_list(terms)})"
    with warnings.catch_warnings():
        warnings.simplefilter("ignore")
        try:
            js = data_to_json(d)
        except TypeError as e:
            return {"crash": f"data_to_json raises TypeError: {e}", "expr": expr}
        try:
            back = json_to_data(js)
        except Exception as e:
            return {"crash": f"json_to_data raises {type(e).__name__}: {e}", "expr": expr}
    # custom_objects: the named attribute is replaced, every other one decoded as usual
    first = case["items"][0][0]
    try:
        back2 = json_to_data(js, custom_objects={first: ("custom", 1)})
        cdiff = [] if back2[first] == ("custom", 1) and type(back2[first]) is tuple else [f"{first}: custom object not used"]
        for name in d:
            if name != first:
                if name not in back2:
                    cdiff.append(f"{name}: attribute dropped by json_to_data")
                else:
                    deep_same(d[name], back2[name], name, cdiff)
    except Exception as e:
        cdiff = [f"json_to_data(custom_objects) raises {type(e).__name__}: {e}"]
    raw = json.loads(js)
    plain = [not (isinstance(raw[name], dict) and ":serialized:" in raw[name]) for name, _ in case["items"]]
    diffs = []
    for name in d:
        if name not in back:
            diffs.append(f"{name}: attribute dropped by json_to_data")
        else:
            deep_same(d[name], back[name], name, diffs)
    if [k for k in back if k in d] != [k for k in d if k in back] or any(k not in d for k in back):
        diffs.append(f"?: attribute names {list(d)} became {list(back)}")
    return {"plain": plain, "diffs": diffs, "cdiffs": cdiff, "expr": expr}


RESERVED_KEY_SIG = "dict-attribute-with-reserved-serialized-key-not-restored"


def reserved_key_attrs(case):
    """precise predicate of a known failing class: the attributes whose value is a dict with the first-level string key
    ':serialized:' - json_to_data takes any such dict for a cloudpickled blob (and data_to_json's informational copy of a
    pickled dict overwrites the real blob under that key)"""
    return {name for name, spec in case["items"] if spec[0] == "dict" and any(ks[0] == "str" and ks[1] == ":serialized:" for ks, _ in spec[1])}


def compare_codec(case, impl, mv):
    probs = []
    bad_attrs = reserved_key_attrs(case)
    if "crash" in impl:
        # a crash has no attribute name: known only when the history is in the class; the same items without the offending attributes are re-run
        if bad_attrs and "retry" not in case:
            sub = {"kind": "codec", "items": [it for it in case["items"] if it[0] not in bad_attrs], "retry": True, "id": case.get("id")}
            probs.append((RESERVED_KEY_SIG, "a dict attribute with the key ':serialized:' is not restored: " + impl["crash"]))
            if sub["items"]:
                im2 = run_codec(sub)
                if "crash" in im2 or im2["diffs"] or im2.get("cdiffs"):
                    probs.append(("oracle-json-codec-alters-attribute", "without the ':serialized:' attributes: " + (im2.get("crash") or "; ".join((im2["diffs"] + im2.get("cdiffs", []))[:3]))))
            return probs
        return [("oracle-json-codec-raises", impl["crash"])]
    if bad_attrs:
        mine = lambda x: x.split(":")[0].split("[")[0] in bad_attrs  # noqa: E731
        known = [x for x in impl["diffs"] + impl.get("cdiffs", []) if mine(x)]
        impl = dict(impl, diffs=[x for x in impl["diffs"] if not mine(x)], cdiffs=[x for x in impl.get("cdiffs", []) if not mine(x)])
        if known:
            probs.append((RESERVED_KEY_SIG, "a dict attribute with the key ':serialized:' is not restored: " + "; ".join(known[:2])))
    if impl.get("cdiffs"):
        probs.append(("oracle-json-codec-custom-objects", "json_to_data(custom_objects={name: obj}): " + "; ".join(impl["cdiffs"][:3])))
    if impl["diffs"]:
        probs.append(("oracle-json-codec-alters-attribute", "json_to_data(data_to_json(d)) differs from d: " + "; ".join(impl["diffs"][:3])))
    names = [n for n, _ in case["items"]]
    if [x for n, x in zip(names, mv) if n not in bad_attrs] != [x for n, x in zip(names, impl["plain"]) if n not in bad_attrs]:
        probs.append(("codec-plain-vs-pickled", f"stored as plain JSON: impl {impl['plain']} model {list(mv)} for items {names}"))
    return probs


# ---------------------------------------------------------------- whole models

def make_env(kind):
    import gymnasium as gym
    import numpy as np
    from gymnasium import spaces

    class Tiny(gym.Env):
        def __init__(self):
            self.observation_space = spaces.Box(-1.0, 1.0, (2,), dtype=np.float32)
            self.action_space = spaces.Discrete(2) if kind == "discrete" else spaces.Box(-1.0, 1.0, (1,), dtype=np.float32)
            self.t = 0

        def reset(self, *, seed=None, options=None):
            super().reset(seed=seed)
            self.t = 0
            return np.array([0.25, -0.5], dtype=np.float32), {}

        def step(self, action):
            self.t += 1
            a = float(np.asarray(action).reshape(-1)[0])
            obs = np.array([((self.t * 3) % 7) / 8.0, -a / 4.0], dtype=np.float32)
            return obs, 0.25 * self.t - a / 8.0, self.t >= 5, False, {}

    return Tiny()


def model_configs():
    """name -> (algo, env kind, kwargs builder, learn steps, path kind, exclude, include)"""
    import numpy as np
    import torch as th
    from stable_baselines3.common.noise import NormalActionNoise, OrnsteinUhlenbeckActionNoise

    off = dict(learning_starts=4, buffer_size=40, batch_size=4, train_freq=1, gradient_steps=1)
    return [
        ("a2c-tuple-net-arch", "A2C", "discrete", lambda: dict(n_steps=4, policy_kwargs=dict(net_arch=(4, 4))), 0, "str", None, None),
        ("a2c-gsde-after-learn", "A2C", "box", lambda: dict(n_steps=4, use_sde=True, sde_sample_freq=2, policy_kwargs=dict(net_arch=[4])), 16, "pathlib", None, ["env"]),
        ("a2c-nested-tuple-kwargs", "A2C", "box", lambda: dict(n_steps=4, policy_kwargs=dict(net_arch={"pi": (4,), "vf": (4,)}, activation_fn=th.nn.ReLU)), 8, "bytesio", None, None),
        ("ppo-callable-schedules", "PPO", "discrete", lambda: dict(n_steps=8, batch_size=4, n_epochs=1, learning_rate=lambda p: 1e-3 * p, clip_range=lambda p: 0.1 + 0.1 * p,
                                                                 policy_kwargs=dict(net_arch=[4])), 16, "bytesio", None, None),
        ("ppo-custom-optimizer", "PPO", "box", lambda: dict(n_steps=8, batch_size=8, n_epochs=1, policy_kwargs=dict(net_arch=dict(pi=[4], vf=[4]), optimizer_class=th.optim.RMSprop,
                                                            optimizer_kwargs=dict(alpha=0.9, eps=1e-5))), 8, "str", ["tensorboard_log"], ["_vec_normalize_env"]),
        ("dqn-after-learn", "DQN", "discrete", lambda: dict(target_update_interval=4, exploration_fraction=0.5, policy_kwargs=dict(net_arch=[4]), **off), 24, "str", None, ["replay_buffer"]),
        ("dqn-her", "DQN", "her", lambda: dict(target_update_interval=4, policy_kwargs=dict(net_arch=[4]), **off), 20, "pathlib", None, None),
        ("sac-learned-entropy", "SAC", "box", lambda: dict(ent_coef="auto", policy_kwargs=dict(net_arch=[4]), **off), 20, "bytesio", None, None),
        ("sac-fixed-entropy-gsde", "SAC", "box", lambda: dict(ent_coef=0.2, use_sde=True, policy_kwargs=dict(net_arch=[4]), **off), 0, "str", None, None),
        ("td3-action-noise", "TD3", "box", lambda: dict(policy_delay=2, action_noise=NormalActionNoise(np.zeros(1), 0.1 * np.ones(1)), policy_kwargs=dict(net_arch=[4]), **off), 16, "pathlib", None, None),
        ("ddpg-ou-noise", "DDPG", "box", lambda: dict(action_noise=OrnsteinUhlenbeckActionNoise(np.zeros(1), 0.1 * np.ones(1)), policy_kwargs=dict(net_arch=[4]), **off), 0, "bytesio", None, None),
        ("sac-exclude", "SAC", "box", lambda: dict(ent_coef="auto_0.5", policy_kwargs=dict(net_arch=[4]), **off), 12, "str", ["batch_size", "gamma"], None),
    ]


LEGACY_SIG = "net-arch-list-of-dict-rewritten-on-load"
RUNTIME_ATTRIBUTES = {"policy", "device", "env", "replay_buffer", "rollout_buffer", "_vec_normalize_env", "_episode_storage", "_logger", "_custom_logger",
                      "actor", "critic", "critic_target", "actor_target", "q_net", "q_net_target", "log_ent_coef", "ent_coef_optimizer", "ent_coef_tensor",
                      "actor_batch_norm_stats", "critic_batch_norm_stats", "actor_batch_norm_stats_target", "critic_batch_norm_stats_target",
                      "batch_norm_stats", "batch_norm_stats_target"}


def attr_same(name, a, b, out, depth=0):
    """deep comparison of one attribute of the two models: schedules by value, objects attribute by attribute"""
    import functools
    import types

    if isinstance(a, (types.FunctionType, types.MethodType, functools.partial)) or (callable(a) and type(a).__module__ == "stable_baselines3.common.utils"):
        try:
            va, vb = [float(a(p)) for p in (1.0, 0.5, 0.0)], [float(b(p)) for p in (1.0, 0.5, 0.0)]
        except Exception as e:
            out.append(f"{name}: callable cannot be evaluated after load ({type(e).__name__}: {e})")
            return
        if va != vb:
            out.append(f"{name}: schedule values {va} became {vb}")
        return
    if type(a).__module__.startswith("gymnasium"):
        if type(a) is not type(b) or a != b:
            out.append(f"{name}: space {a} became {b}")
        return
    if hasattr(a, "__dict__") and not isinstance(a, type) and not callable(a) or type(a).__name__.endswith("ActionNoise"):
        if type(a) is not type(b):
            out.append(f"{name}: type {type(a).__name__} became {type(b).__name__}")
            return
        if depth < 3:
            for k, v in vars(a).items():
                if "np_random" in k:
                    continue
                attr_same(f"{name}.{k}", v, vars(b).get(k), out, depth + 1)
        return
    deep_same(a, b, name, out)


ON_POLICY, CONTINUOUS_ONLY = ("A2C", "PPO"), ("SAC", "TD3", "DDPG")


def gen_model_spec(rng):
    """one whole-model configuration with unusual-but-legal hyper-parameter values (JSON-able, so it can be replayed)"""
    algo = rng.choice(["A2C", "PPO", "DQN", "SAC", "TD3", "DDPG"])
    sp = {"algo": algo, "steps": rng.choice([0, 0, 12, 20]), "path": rng.choice(["str", "pathlib", "bytesio", "fileobj", "nested", "zipsuffix", "pathlib_zip"]),
          "load_env": rng.random() < 0.3,
          "seed": rng.choice([None, 0, 7, 123]), "device": rng.choice(["cpu", "auto"]), "stats_window_size": rng.choice([100, 5, 1]),
          "learning_rate": rng.choice([0.001, 0.0005, "linear", "linear"]), "activation_fn": rng.choice([None, "ReLU", "Tanh", "ELU"]),
          "optimizer_kwargs": rng.choice([None, {"eps": 1e-5}, {"weight_decay": 0.01}]), "normalize_images": rng.choice([None, False]),
          "gamma": rng.choice([0.99, 0.5, 1.0])}
    if algo in ON_POLICY:
        sp["env"] = rng.choice(["discrete", "box"])
        sp["net_arch"] = rng.choice([None, [], [8], ("tuple", [8, 8]), {"pi": [], "vf": []}, {"pi": [8], "vf": [4]}, [8, 4], ("listdict", {"pi": [8], "vf": [4]})])
        sp["share_features_extractor"] = rng.choice([None, True, False])
        sp["use_sde"] = sp["env"] == "box" and rng.random() < 0.4
        sp["sde_sample_freq"] = rng.choice([-1, 2])
        sp["n_steps"] = rng.choice([4, 8])
        sp["ent_coef"] = rng.choice([0.0, 0.01])
        sp["max_grad_norm"] = rng.choice([0.5, 10.0])
        if algo == "PPO":
            sp["clip_range"] = rng.choice([0.2, "linear"])
            sp["clip_range_vf"] = rng.choice([None, 0.3, "linear"])
            sp["target_kl"] = rng.choice([None, 0.05])
            sp["n_epochs"] = rng.choice([1, 2])
        else:
            sp["use_rms_prop"] = rng.choice([True, False])
    else:
        sp["env"] = "discrete" if algo == "DQN" else "box"
        sp["train_freq"] = rng.choice([1, 2, ["tuple", [1, "episode"]], ["tuple", [3, "step"]]])
        sp["gradient_steps"] = rng.choice([1, 2, -1])
        sp["tau"] = rng.choice([0.005, 1.0, 0.5])
        if algo == "DQN":
            sp["net_arch"] = rng.choice([None, [], [8], [8, 4]])
            sp["target_update_interval"] = rng.choice([1, 4, 100])
            sp["exploration_fraction"] = rng.choice([0.1, 0.5, 1.0])
            sp["exploration_final_eps"] = rng.choice([0.05, 0.5])
        else:
            sp["net_arch"] = rng.choice([None, [], [8], {"pi": [8], "qf": [4]}, {"pi": [], "qf": [8]}])
            sp["n_critics"] = rng.choice([None, 1, 3])
            sp["action_noise"] = rng.choice([None, "normal", "ou"]) if algo != "SAC" else None
            if algo == "SAC":
                sp["ent_coef"] = rng.choice(["auto", "auto_0.1", 0.2])
                sp["target_entropy"] = rng.choice(["auto", -0.5])
                sp["use_sde"] = rng.random() < 0.3
                sp["sde_sample_freq"] = rng.choice([-1, 2])
                sp["share_features_extractor"] = rng.choice([None, True, False])
            else:
                sp["share_features_extractor"] = rng.choice([None, True, False])
                if algo == "TD3":
                    sp["policy_delay"] = rng.choice([1, 2, 3])
                    sp["target_policy_noise"] = rng.choice([0.2, 0.0])
    return sp


def _untag(v):
    """JSON has no tuples: ["tuple", [...]] stands for one"""
    if isinstance(v, (list, tuple)) and len(v) == 2 and v[0] == "tuple":
        return tuple(v[1])
    if isinstance(v, (list, tuple)) and len(v) == 2 and v[0] == "listdict":
        return [dict(v[1])]          # the pre-1.8 spelling, still accepted by the on-policy constructors
    return v


def _linear(scale):
    return lambda p: scale * (0.25 + 0.75 * p)


def kwargs_from_spec(sp):
    import numpy as np
    import torch as th
    from stable_baselines3.common.noise import NormalActionNoise, OrnsteinUhlenbeckActionNoise

    pk = {}
    if sp.get("net_arch") is not None:
        pk["net_arch"] = _untag(sp["net_arch"])
    if sp.get("activation_fn"):
        pk["activation_fn"] = getattr(th.nn, sp["activation_fn"])
    if sp.get("optimizer_kwargs"):
        pk["optimizer_kwargs"] = dict(sp["optimizer_kwargs"])
    if sp.get("normalize_images") is not None:
        pk["normalize_images"] = sp["normalize_images"]
    for k in ("share_features_extractor", "n_critics"):
        if sp.get(k) is not None:
            pk[k] = sp[k]
    kw = {"policy_kwargs": pk, "gamma": sp["gamma"], "tensorboard_log": None,
          "learning_rate": _linear(1e-3) if sp["learning_rate"] == "linear" else sp["learning_rate"]}
    if sp["algo"] != "DDPG":   # DDPG's constructor has no stats_window_size argument (and fixes n_critics=1 itself)
        kw["stats_window_size"] = sp["stats_window_size"]
    else:
        pk.pop("n_critics", None)
    for k in ("n_steps", "ent_coef", "max_grad_norm", "target_kl", "n_epochs", "use_rms_prop", "gradient_steps", "tau", "target_update_interval",
              "exploration_fraction", "exploration_final_eps", "target_entropy", "policy_delay", "target_policy_noise"):
        if k in sp:
            kw[k] = sp[k]
    if sp.get("use_sde"):
        kw.update(use_sde=True, sde_sample_freq=sp["sde_sample_freq"])
    if sp["algo"] == "PPO":
        kw["batch_size"] = sp["n_steps"]
        kw["clip_range"] = _linear(0.2) if sp["clip_range"] == "linear" else sp["clip_range"]
        kw["clip_range_vf"] = _linear(0.3) if sp["clip_range_vf"] == "linear" else sp["clip_range_vf"]
    if sp["algo"] not in ON_POLICY:
        kw.update(learning_starts=4, buffer_size=40, batch_size=4, train_freq=_untag(sp["train_freq"]))
        if sp.get("action_noise") == "normal":
            kw["action_noise"] = NormalActionNoise(np.zeros(1), 0.1 * np.ones(1))
        elif sp.get("action_noise") == "ou":
            kw["action_noise"] = OrnsteinUhlenbeckActionNoise(np.zeros(1), 0.1 * np.ones(1))
    return kw


def resolve_config(case):
    """-> (algo, env kind, kwargs builder, learn steps, path kind, exclude, include, seed, device)"""
    if case["config"] == "random":
        sp = case["spec"]
        return sp["algo"], sp["env"], (lambda: kwargs_from_spec(sp)), sp["steps"], sp["path"], None, None, sp["seed"], sp["device"]
    cfg = {c[0]: c for c in model_configs()}[case["config"]]
    return (*cfg[1:], case.get("seed", 3), "cpu")


def rewrite_archive_net_arch(path, new_value):
    """turn a saved archive into the OLD format: policy_kwargs["net_arch"] = [dict(pi=..., vf=...)] (SB3 < 1.8)"""
    import zipfile

    with zipfile.ZipFile(path) as z:
        items = {n: z.read(n) for n in z.namelist()}
    data = json.loads(items["data"].decode())
    assert isinstance(data["policy_kwargs"], dict) and ":serialized:" not in data["policy_kwargs"], "policy_kwargs must be stored as plain JSON for this case"
    data["policy_kwargs"]["net_arch"] = new_value
    items["data"] = json.dumps(data).encode()
    with zipfile.ZipFile(path, "w") as z:
        for n, b in items.items():
            z.writestr(n, b)


def run_model(case):
    """every exception raised by construction / learn / save / load on these legal configurations is itself a violation"""
    stage = {"at": "construct"}
    try:
        return _run_model(case, stage)
    except Exception as e:  # noqa: BLE001
        import traceback

        tb = traceback.extract_tb(e.__traceback__)
        where = next((f"{os.path.basename(f.filename)}:{f.lineno}" for f in reversed(tb) if "/stable_baselines3/" in f.filename), "?")
        sig = {"construct": "oracle-construct-raises", "learn": "oracle-learn-raises", "save": "oracle-save-raises", "load": "oracle-load-raises"}.get(stage["at"], "oracle-model-run-raises")
        return {"traceback": traceback.format_exc()[-2500:], "problems": [(sig, f"{stage['at']}() raises {type(e).__name__}: {e} (at {where}) for configuration {json.dumps(case.get('spec') or case['config'], default=str)[:400]}")],
                "expr": "true"}


def _run_model(case, stage):
    import numpy as np
    import torch as th

    import stable_baselines3 as sb3
    from stable_baselines3.common.envs import BitFlippingEnv
    from stable_baselines3.common.vec_env import DummyVecEnv
    from stable_baselines3.her.her_replay_buffer import HerReplayBuffer

    th.set_num_threads(1)
    algo, env_kind, kw, steps, path_kind, exclude, include, seed, device = resolve_config(case)
    cls = getattr(sb3, algo)

    def env_fn():
        return BitFlippingEnv(n_bits=3, continuous=False, max_steps=4) if env_kind == "her" else make_env(env_kind)

    kwargs = kw()
    policy = "MlpPolicy"
    if env_kind == "her":
        policy = "MultiInputPolicy"
        kwargs.update(replay_buffer_class=HerReplayBuffer, replay_buffer_kwargs=dict(n_sampled_goal=2, goal_selection_strategy="future"))
    problems = []
    membership = None
    d = tempfile.mkdtemp(prefix="c09_")
    try:
        with warnings.catch_warnings():
            warnings.simplefilter("ignore")
            model = cls(policy, DummyVecEnv([env_fn]), seed=seed, device=device, **kwargs)
            if steps:
                stage["at"] = "learn"
                model.learn(steps)
            stage["at"] = "set_parameters"
            # set_parameters(get_parameters()) changes nothing
            import copy

            before = copy.deepcopy(model.get_parameters())
            model.set_parameters(model.get_parameters(), exact_match=True)
            diffs = deep_same(before, model.get_parameters(), "get_parameters()")
            if diffs:
                problems.append(("oracle-set-get-parameters-changes-model", "; ".join(diffs[:3])))
            # save / load through the requested kind of path (HerReplayBuffer needs the env at load time; load() then
            # documents that _last_obs is discarded to force a reset)
            load_kw = {"env": DummyVecEnv([env_fn])} if (env_kind == "her" or case.get("spec", {}).get("load_env")) else {}
            stage["at"] = "save"
            if path_kind == "fileobj":       # open binary file objects (BufferedWriter / BufferedReader)
                p = os.path.join(d, "m")
                with open(p + ".zip", "wb") as fh:
                    model.save(fh, exclude=exclude, include=include)
                stage["at"] = "load"
                with open(p + ".zip", "rb") as fh:
                    loaded = cls.load(fh, device=device, **load_kw)
            elif path_kind == "bytesio":
                target = io.BytesIO()
                model.save(target, exclude=exclude, include=include)
                target.seek(0)
                stage["at"] = "load"
                loaded = cls.load(target, device=device, **load_kw)
            else:
                # "nested": the parent folders do not exist yet; "zipsuffix": the .zip suffix is written out; "pathlib_zip": pathlib with suffix
                p = os.path.join(d, "sub", "dir", "m") if path_kind == "nested" else os.path.join(d, "m")
                target = {"str": p, "nested": p, "zipsuffix": p + ".zip", "pathlib": pathlib.Path(p), "pathlib_zip": pathlib.Path(p + ".zip")}[path_kind]
                model.save(target, exclude=exclude, include=include)
                if not os.path.exists(p + ".zip"):
                    problems.append(("oracle-save-path", f"save({target!r}) did not create {p}.zip"))
                if case.get("legacy_net_arch") is not None:
                    # an archive written by SB3 < 1.8: net_arch = [dict(pi=..., vf=...)]; load() must still accept it and convert it
                    rewrite_archive_net_arch(p + ".zip", [case["legacy_net_arch"]])
                stage["at"] = "load"
                loaded = cls.load(target, device=device, **load_kw)
            stage["at"] = "compare"
            if case.get("legacy_net_arch") is not None and loaded.policy_kwargs.get("net_arch") != case["legacy_net_arch"]:
                problems.append(("oracle-legacy-net-arch-not-converted", f"old-format net_arch [{case['legacy_net_arch']}] loaded as {loaded.policy_kwargs.get('net_arch')!r}"))
            # all three kinds of path give the same archive content
            if case.get("all_paths"):
                blobs = []
                for kind in ("str", "pathlib", "bytesio"):
                    if kind == "bytesio":
                        f = io.BytesIO()
                        model.save(f)
                        f.seek(0)
                        m2 = cls.load(f, device="cpu")
                    else:
                        q = os.path.join(d, "p_" + kind)
                        model.save(q if kind == "str" else pathlib.Path(q))
                        m2 = cls.load(q if kind == "str" else pathlib.Path(q), device="cpu")
                    blobs.append(m2)
                for m2 in blobs[1:]:
                    dd = deep_same(blobs[0].get_parameters(), m2.get_parameters(), "get_parameters()")
                    if dd:
                        problems.append(("oracle-path-kinds-differ", "; ".join(dd[:2])))
            # ---- attributes
            sd_names, var_names = model._get_torch_save_params()
            skip = (set(exclude or []) | set(model._excluded_save_params())) - set(include or [])
            skip |= {n.split(".")[0] for n in list(sd_names) + list(var_names)}
            # only run-time objects and networks (restored through state dicts / rebuilt by _setup_model) may be left out by default
            not_runtime = (set(model._excluded_save_params()) | {n.split(".")[0] for n in list(sd_names) + list(var_names)}) - RUNTIME_ATTRIBUTES
            if not_runtime:
                problems.append(("oracle-hyperparameter-not-saved", f"attributes left out of the archive by default although they are not run-time objects: {sorted(not_runtime)}"))
            out = []
            if "env" in (include or []):
                # an included env is a run-time object (load() re-seeds it): it must come back usable, its internals are not compared
                skip |= {"env"}
                if loaded.get_env() is None or loaded.get_env().num_envs != model.get_env().num_envs:
                    problems.append(("oracle-included-env-not-restored", f"save(include=['env']) then load() gives env={loaded.get_env()!r}"))
            if load_kw:
                skip |= {"_last_obs"}      # load(env=...) documents that _last_obs is dropped to force a reset
                if loaded.get_env() is None or loaded.n_envs != 1:
                    problems.append(("oracle-load-with-env", f"load(env=...) left env={loaded.get_env()!r} n_envs={loaded.n_envs}"))
            for k, v in model.__dict__.items():
                if k in skip:
                    continue
                if k not in loaded.__dict__:
                    out.append(f"{k}: missing after load")
                    continue
                attr_same(k, v, loaded.__dict__[k], out)
            # known class, precise predicate: policy_kwargs["net_arch"] is a list whose first element is a dict (load() rewrites it)
            na = model.policy_kwargs.get("net_arch") if isinstance(getattr(model, "policy_kwargs", None), dict) else None
            if isinstance(na, list) and na and isinstance(na[0], dict):
                legacy = [x for x in out if x.startswith("policy_kwargs['net_arch']")]
                out = [x for x in out if x not in legacy]
                if legacy:
                    problems.append((LEGACY_SIG, "policy_kwargs['net_arch'] given as [dict(pi=..., vf=...)] is accepted by the constructor but comes back from load() as the dict: " + legacy[0]))
            if out:
                problems.append(("oracle-attribute-not-restored", "; ".join(out[:4])))
            # ---- which attributes are in the archive: Model.SaveLoad.excluded, evaluated in Coq, vs the real zip
            if path_kind not in ("bytesio",):
                import zipfile

                with zipfile.ZipFile(p + ".zip") as z:
                    in_data = set(json.loads(z.read("data").decode()).keys())
                names = [k for k in model.__dict__ if all(32 < ord(ch) < 127 and ch != '"' for ch in k)]
                qs = lambda xs: coq_list([f'"{x}"%string' for x in xs])  # noqa: E731
                torch_names = sorted({n.split(".")[0] for n in list(sd_names) + list(var_names)})
                membership = {"names": names, "in_data": [k in in_data for k in names],
                              "expr": f"map (excluded {qs(model._excluded_save_params())} {qs(exclude or [])} {qs(include or [])} {qs(torch_names)}) {qs(names)}"}
            # ---- parameters, optimizers, torch variables
            dd = deep_same(model.get_parameters(), loaded.get_parameters(), "get_parameters()")
            if dd:
                problems.append(("oracle-parameters-or-optimizer-state-not-restored", "; ".join(dd[:3])))
            for vn in var_names:
                a, b = model, loaded
                for part in vn.split("."):
                    a, b = getattr(a, part), getattr(b, part)
                dv = deep_same(a, b, vn) if a is not None else ([] if b is None else [f"{vn}: None became {b!r}"])
                if dv:
                    problems.append(("oracle-torch-variable-not-restored", "; ".join(dv[:2])))
            # ---- same actions for every observation
            rng = np.random.RandomState(seed or 0)
            if env_kind == "her":
                obs = {k: sp.sample()[None].repeat(6, 0) for k, sp in model.observation_space.spaces.items()}
                for k in obs:
                    obs[k] = rng.randint(0, 2, size=obs[k].shape).astype(obs[k].dtype)
            else:
                obs = rng.uniform(-1, 1, size=(6, 2)).astype(np.float32)
            a1, _ = model.predict(obs, deterministic=True)
            a2, _ = loaded.predict(obs, deterministic=True)
            if a1.dtype != a2.dtype or not np.array_equal(a1, a2):
                problems.append(("oracle-predict-differs-after-load", f"actions {a1.tolist()} became {a2.tolist()}"))
            # ---- replay buffer on its own
            if hasattr(model, "replay_buffer") and model.replay_buffer is not None:
                # (HER: load_replay_buffer(truncate_last_traj=False) must give the buffer back as it was; the default marks the
                #  unfinished trajectory as finished, which is what truncate_last_trajectory() does to the original)
                rp = os.path.join(d, "rb")
                model.save_replay_buffer(rp if path_kind != "pathlib" else pathlib.Path(rp))
                outb = []
                if env_kind == "her":
                    loaded.load_replay_buffer(rp if path_kind != "pathlib" else pathlib.Path(rp), truncate_last_traj=False)
                    for k, v in vars(model.replay_buffer).items():
                        if isinstance(v, (np.ndarray, int, bool, float, np.generic)) or (isinstance(v, dict) and all(isinstance(x, np.ndarray) for x in v.values())):
                            deep_same(v, vars(loaded.replay_buffer).get(k), "replay_buffer(truncate_last_traj=False)." + k, outb)
                    with warnings.catch_warnings():
                        warnings.simplefilter("ignore")
                        model.replay_buffer.truncate_last_trajectory()
                loaded.load_replay_buffer(rp if path_kind != "pathlib" else pathlib.Path(rp))
                for k, v in vars(model.replay_buffer).items():
                    if isinstance(v, (np.ndarray, int, bool, float, np.generic)):
                        deep_same(v, vars(loaded.replay_buffer).get(k), "replay_buffer." + k, outb)
                    elif isinstance(v, dict) and all(isinstance(x, np.ndarray) for x in v.values()):
                        deep_same(v, vars(loaded.replay_buffer).get(k), "replay_buffer." + k, outb)
                if outb:
                    problems.append(("oracle-replay-buffer-not-restored", "; ".join(outb[:3])))
            # ---- load(custom_objects=...): the given attributes replace the stored ones, everything else as stored
            extra = os.path.join(d, "extra")
            model.save(extra)
            with contextlib.redirect_stdout(io.StringIO()) as sysinfo:
                l2 = cls.load(extra, device=device, custom_objects={"gamma": 0.5, "learning_rate": 0.125}, print_system_info=True, **load_kw)
            outc = []
            if l2.gamma != 0.5 or l2.learning_rate != 0.125 or float(l2.lr_schedule(1.0)) != 0.125:
                outc.append(f"custom gamma/learning_rate not used: {l2.gamma!r} {l2.learning_rate!r} {float(l2.lr_schedule(1.0))!r}")
            for k in ("num_timesteps", "_n_updates", "batch_size", "policy_kwargs", "seed"):
                if k in model.__dict__:
                    attr_same(k, model.__dict__[k], l2.__dict__.get(k), outc)
            na0 = model.policy_kwargs.get("net_arch")
            if isinstance(na0, list) and na0 and isinstance(na0[0], dict):   # the known class, reported once above
                outc = [x for x in outc if not x.startswith("policy_kwargs['net_arch']")]
            deep_same(model.get_parameters(), l2.get_parameters(), "get_parameters()", outc)
            if "Stable-Baselines3" not in sysinfo.getvalue():
                outc.append("print_system_info=True printed nothing about the stored system")
            if outc:
                problems.append(("oracle-load-custom-objects", "; ".join(outc[:3])))
            # ---- load(..., gamma=...): keyword arguments replace stored attributes; a different policy_kwargs is refused; bad inputs are refused
            outk = []
            lk = cls.load(extra, device=device, gamma=0.25, **load_kw)
            if lk.gamma != 0.25:
                outk.append(f"load(gamma=0.25) gives gamma={lk.gamma!r}")
            deep_same(model.get_parameters(), lk.get_parameters(), "get_parameters()", outk)
            for bad, what in ((lambda: cls.load(extra, device=device, policy_kwargs={"net_arch": [3, 3, 3]}, **load_kw), "a different policy_kwargs"),
                              (lambda: cls.load(extra, device=device, custom_objects=[1], **load_kw), "custom_objects that is not a dict")):
                try:
                    bad()
                    outk.append(f"load with {what} was accepted")
                except ValueError:
                    pass
            notzip = os.path.join(d, "notzip.zip")
            open(notzip, "wb").write(b"not a zip file")
            try:
                cls.load(notzip, device=device)
                outk.append("load of a file that is not a zip archive was accepted")
            except ValueError:
                pass
            if outk:
                problems.append(("oracle-load-keyword-arguments", "; ".join(outk[:3])))
            # ---- set_parameters(exact_match=False) with a partial dictionary: only the given objects change; exact_match=True refuses it
            other = cls(policy, DummyVecEnv([env_fn]), seed=(seed or 0) + 101, device=device, **kw())
            keep = copy.deepcopy(other.get_parameters())
            part = {"policy": copy.deepcopy(model.get_parameters()["policy"])}
            outp = []
            if len(keep) > 1:
                try:
                    other.set_parameters(part, exact_match=True)
                    outp.append("exact_match=True accepted a dictionary without the optimizers")
                    other.set_parameters(keep, exact_match=True)
                except ValueError:
                    pass
            other.set_parameters(part, exact_match=False)
            now = other.get_parameters()
            # set_parameters(<path of an archive>): all parameters of the saved model
            third = cls(policy, DummyVecEnv([env_fn]), seed=(seed or 0) + 202, device=device, **kw())
            third.set_parameters(extra, exact_match=True, device=device)
            deep_same(model.get_parameters(), third.get_parameters(), "set_parameters(path)", outp)
            try:
                third.set_parameters({"no.such.object": {}}, exact_match=False)
                outp.append("set_parameters accepted an invalid object name")
            except ValueError:
                pass
            deep_same(part["policy"], now["policy"], "policy", outp)
            for k in keep:
                if k != "policy" and not k.startswith("policy."):
                    deep_same(keep[k], now[k], k, outp)
            if outp:
                problems.append(("oracle-set-parameters-partial", "; ".join(outp[:3])))
            # ---- can keep training
            n0 = loaded.num_timesteps
            try:
                loaded.set_env(DummyVecEnv([env_fn]))
                if env_kind == "her":
                    # the replay buffer is not part of the archive: HER can only sample once a whole episode is stored again
                    loaded.learning_starts = n0 + 6
                loaded.learn(8, reset_num_timesteps=False)
                if loaded.num_timesteps <= n0:
                    problems.append(("oracle-cannot-continue-training", f"num_timesteps stayed {n0}"))
            except Exception as e:
                problems.append(("oracle-cannot-continue-training", f"{type(e).__name__}: {e}"))
    finally:
        shutil.rmtree(d, ignore_errors=True)
    return {"problems": problems, "expr": membership["expr"] if membership else "true", "membership": membership}


def compare_model(case, impl, mv):
    probs = list(impl["problems"])
    mb = impl.get("membership")
    if mb:
        # model: attribute n is in the archive's data iff excluded ... n = false
        for n, inz, ex in zip(mb["names"], mb["in_data"], mv):
            if inz == ex:
                probs.append(("save-archive-membership", f"attribute {n}: in the archive's data = {inz}, Model.SaveLoad.excluded = {ex}"))
    return probs


# ---------------------------------------------------------------- replay buffers saved on their own

BUFFER_EXCLUDED = {"env"}     # HerReplayBuffer documents that the env is not pickled (set_env after loading); nothing else may be dropped


def gen_buffer_spec(rng):
    kind = rng.choice(["plain", "plain_memopt", "dict", "her", "her_info", "her_info"])
    n_envs = rng.choice([1, 2])
    size = rng.choice([8, 12, 40]) * n_envs if kind.startswith("her") else rng.choice([6, 10, 40])
    return {"buffer": kind, "n_envs": n_envs, "buffer_size": size, "steps": rng.choice([6, 14, 30, 60]), "path": rng.choice(["str", "pathlib", "bytesio"]),
            "seed": rng.choice([0, 5, 11])}


def run_buffer(case):
    """save_replay_buffer / load_replay_buffer: EVERY attribute of the buffer must come back (values, dtypes, types), for partly filled
    and wrapped buffers, n_envs 1 and 2, all path kinds; an identically seeded sample() on both gives the same batch"""
    import numpy as np
    import torch as th

    from stable_baselines3 import DQN
    from stable_baselines3.common.envs import BitFlippingEnv
    from stable_baselines3.common.vec_env import DummyVecEnv
    from stable_baselines3.her.her_replay_buffer import HerReplayBuffer

    th.set_num_threads(1)
    sp = case["spec"]
    goal = sp["buffer"] in ("dict", "her", "her_info")

    def env_fn():
        return BitFlippingEnv(n_bits=3, continuous=False, max_steps=4) if goal else make_env("discrete")

    def build(seed):
        kw = dict(learning_starts=1000, buffer_size=sp["buffer_size"], batch_size=4, train_freq=1, policy_kwargs=dict(net_arch=[4]), seed=seed, device="cpu")
        if sp["buffer"].startswith("her"):
            kw.update(replay_buffer_class=HerReplayBuffer, replay_buffer_kwargs=dict(n_sampled_goal=2, goal_selection_strategy="future", copy_info_dict=sp["buffer"] == "her_info"))
        if sp["buffer"] == "plain_memopt":
            kw.update(optimize_memory_usage=True, replay_buffer_kwargs=dict(handle_timeout_termination=False))
        return DQN("MultiInputPolicy" if goal else "MlpPolicy", DummyVecEnv([env_fn for _ in range(sp["n_envs"])]), **kw)

    problems = []
    d = tempfile.mkdtemp(prefix="c09b_")
    try:
        with warnings.catch_warnings():
            warnings.simplefilter("ignore")
            model = build(sp["seed"])
            model.learn(sp["steps"])
            rb = model.replay_buffer
            if sp["path"] == "bytesio":
                target = io.BytesIO()
                model.save_replay_buffer(target)
                target.seek(0)
            else:
                target = os.path.join(d, "rb") if sp["path"] == "str" else pathlib.Path(os.path.join(d, "rb"))
                model.save_replay_buffer(target)
            other = build(sp["seed"] + 1)
            other.load_replay_buffer(target, **({"truncate_last_traj": False} if sp["buffer"].startswith("her") else {}))
            rb2 = other.replay_buffer
            out = []
            if type(rb2) is not type(rb):
                out.append(f"buffer type {type(rb).__name__} became {type(rb2).__name__}")
            missing = [k for k in vars(rb) if k not in vars(rb2) and k not in BUFFER_EXCLUDED]
            if missing:
                out.append(f"attributes missing after load: {missing}")
            for k, v in vars(rb).items():
                if k in BUFFER_EXCLUDED or k in missing:
                    continue
                attr_same("replay_buffer." + k, v, vars(rb2)[k], out)
            if out:
                problems.append(("oracle-replay-buffer-not-restored", "; ".join(out[:4])))
            else:
                # identically seeded sample() on both
                def sample(b):
                    np.random.seed(1234)
                    th.manual_seed(1234)
                    return b.sample(4)

                try:
                    s1, s2 = sample(rb), sample(rb2)
                    outs = []
                    for name in s1._fields:
                        deep_same(getattr(s1, name), getattr(s2, name), "sample()." + name, outs)
                    if outs:
                        problems.append(("oracle-replay-buffer-sample-differs", "; ".join(outs[:3])))
                except RuntimeError as e:
                    if "Unable to sample before the end of the first episode" not in str(e):
                        raise
            # the HER default (truncate_last_traj=True) = the original after truncate_last_trajectory()
            if sp["buffer"].startswith("her"):
                if sp["path"] == "bytesio":
                    target.seek(0)
                third = build(sp["seed"] + 2)
                third.load_replay_buffer(target)
                rb.truncate_last_trajectory()
                outt = []
                for k, v in vars(rb).items():
                    if k not in BUFFER_EXCLUDED:
                        attr_same("replay_buffer(truncated)." + k, v, vars(third.replay_buffer).get(k), outt)
                if outt:
                    problems.append(("oracle-replay-buffer-not-restored", "; ".join(outt[:3])))
            filled = int(rb.size())
            wrapped = bool(rb.full)
    finally:
        shutil.rmtree(d, ignore_errors=True)
    return {"problems": problems, "expr": "true", "filled": filled, "wrapped": wrapped}


RUN = {"codec": run_codec, "model": run_model, "buffer": run_buffer, "loadflow": lf.run_loadflow, "setparams": lf.run_setparams, "rbload": lf.run_rbload}
COMPARE = {"codec": compare_codec, "model": compare_model, "buffer": lambda c, im, mv: list(im["problems"]),
           "loadflow": lf.compare_loadflow, "setparams": lf.compare_setparams, "rbload": lf.compare_rbload}


def gen_case(rng, i):
    n = rng.randint(1, 5)
    return {"kind": "codec", "items": [[f"a{j}", gen_spec(rng, rng.randint(0, 4))] for j in range(n)], "id": i}


def run_cases(chk, cases):
    import traceback

    impls = []
    for c in cases:
        try:
            impls.append(RUN[c["kind"]](c))
        except Exception as e:  # noqa: BLE001 - the implementation raised on a legal input: a finding about this input, the check goes on
            tb = traceback.extract_tb(e.__traceback__)
            where = next((f"{os.path.basename(f.filename)}:{f.lineno}" for f in reversed(tb) if "/stable_baselines3/" in f.filename), "harness")
            impls.append({"raised": f"{type(e).__name__}: {e} (at {where})", "traceback": traceback.format_exc()[-2500:], "expr": "true"})
    vals = common.coq_eval_many(chk.pid, HEADER, [im["expr"] for im in impls], shard=200, procs=4)
    results = []
    for c, im, v in zip(cases, impls, vals):
        if "raised" in im:
            results.append([("oracle-implementation-raised", "the implementation raises on a legal input: " + im["raised"])])
            continue
        try:
            results.append(COMPARE[c["kind"]](c, im, v))
        except Exception as e:  # noqa: BLE001
            im["traceback"] = traceback.format_exc()[-2500:]
            results.append([("oracle-implementation-raised", f"the implementation's output cannot be compared: {type(e).__name__}: {e}")])
    return impls, results


def tree_stats(spec, acc):
    acc[spec[0]] = acc.get(spec[0], 0) + 1
    if spec[0] in ("list", "tuple"):
        for s in spec[1]:
            tree_stats(s, acc)
    elif spec[0] == "dict":
        for ks, vs in spec[1]:
            acc["key:" + ks[0]] = acc.get("key:" + ks[0], 0) + 1
            tree_stats(vs, acc)


def main():
    chk = Check("C09", groups=["saveload", "loadflow"])
    chk.build_props()
    from harness import c18_branchcov

    cov = c18_branchcov.maybe_start(COV_TARGETS)   # VERIF_BRANCHCOV=1: which lines of the anchored functions this run executes
    n_cases = int(os.environ.get("VERIF_NCASES", 0)) or (3000 if chk.tier == "quick" else 20000)
    cases = []
    corpus = os.path.join(common.VERIF, "corpus", "C09.jsonl")
    if os.path.exists(corpus):
        cases += [json.loads(l) for l in open(corpus) if l.strip()]
    n_corpus = len(cases)
    names = [c[0] for c in model_configs()]
    for j, nm in enumerate(names):
        cases.append({"kind": "model", "config": nm, "seed": 3 + chk.seed, "all_paths": j in (0, 7), "id": f"model-{nm}"})
    # whole models with unusual-but-legal hyper-parameter values drawn per run
    for j in range(24 if chk.tier == "quick" else 300):
        cases.append({"kind": "model", "config": "random", "spec": gen_model_spec(chk.rng), "id": f"model-random-{j}"})
    for j in range(16 if chk.tier == "quick" else 200):
        cases.append({"kind": "buffer", "spec": gen_buffer_spec(chk.rng), "id": f"buffer-{j}"})
    # build round 5: load() as a state transformer (env / force_reset / custom_objects / kwargs / tampered archives), set_parameters in full
    # (all six algorithms in every run), load_replay_buffer decision
    for j in range(40 if chk.tier == "quick" else 400):
        cases.append({"kind": "loadflow", "spec": lf.gen_loadflow_spec(chk.rng), "id": f"loadflow-{j}"})
    for j in range(18 if chk.tier == "quick" else 180):
        cases.append({"kind": "setparams", "spec": lf.gen_setparams_spec(chk.rng, lf.ALGOS[j % 6]), "id": f"setparams-{j}"})
    for j in range(12 if chk.tier == "quick" else 100):
        cases.append({"kind": "rbload", "spec": lf.gen_rbload_spec(chk.rng), "id": f"rbload-{j}"})
    if chk.tier == "thorough":
        for s in range(1, 9):
            for nm in names:
                cases.append({"kind": "model", "config": nm, "seed": 3 + chk.seed + 10 * s, "id": f"model-{nm}-s{s}"})
    for i in range(n_cases):
        cases.append(gen_case(chk.rng, i))
    impls, results = run_cases(chk, cases)
    distinct, hist, reported = set(), {"codec": 0, "model": 0, "buffer": 0, "loadflow": 0, "setparams": 0, "rbload": 0, "node_kinds": {}, "models": [], "buffers": [],
                                       "loadflow_outcomes": {}, "setparams_outcomes": {}, "rbload_outcomes": {}}, set()
    queue = []
    for c, im, probs in zip(cases, impls, results):
        hist[c["kind"]] += 1
        if c["kind"] == "codec":
            for _, spec in c["items"]:
                tree_stats(spec, hist["node_kinds"])
            if "plain" in im and any(k in json.dumps(c["items"]) for k in ('"tuple"', '"np_float64"', '"int",')) and any(not p for p in im["plain"]) and any(im["plain"]):
                distinct.add(json.dumps(c["items"], sort_keys=True))
        elif c["kind"] in ("loadflow", "setparams", "rbload"):
            distinct.add(json.dumps(c["spec"], sort_keys=True))
            if c["kind"] == "loadflow" and "obs" in im:
                key = f"env={c['spec']['env']}:{'raises-guard-%d' % im['obs']['code'] if im['obs']['code'] else 'loaded'}"
            elif c["kind"] == "setparams" and "err" in im:
                key = f"{c['spec']['algo']}:exact={c['spec']['exact']}:{['installed', 'invalid-name', 'strict-error', 'names-mismatch'][im['err']] if im['err'] < 4 else 'other'}"
            elif c["kind"] == "rbload" and "flags" in im:
                key = f"her={c['spec']['her']}:truncate={c['spec']['truncate']}:{'raises' if im['rb_raised'] else 'loaded'}"
            else:
                key = "implementation-raised"
            hist[c["kind"] + "_outcomes"][key] = hist[c["kind"] + "_outcomes"].get(key, 0) + 1
        elif c["kind"] == "buffer":
            hist["buffers"].append(f"{c['spec']['buffer']}:n_envs={c['spec']['n_envs']}:size={c['spec']['buffer_size']}:steps={c['spec']['steps']}:{c['spec']['path']}"
                                   + (":wrapped" if im.get("wrapped") else ""))
            distinct.add(json.dumps(c["spec"], sort_keys=True))
        else:
            hist["models"].append(c["config"] if c["config"] != "random" else c["spec"]["algo"] + ":net_arch=" + json.dumps(c["spec"].get("net_arch")))
            distinct.add(json.dumps(c.get("spec") or c["config"], sort_keys=True) + str(c.get("seed")))
        for sig, msg in probs:
            is_oracle = sig.startswith("oracle-") or sig in (RESERVED_KEY_SIG, LEGACY_SIG, lf.ENV_SIG)
            full = sig if is_oracle else "model-correspondence-" + sig
            if full in reported:
                continue
            reported.add(full)
            queue.append((full, msg, {"case": c, "problems": probs[:6], "traceback": im.get("traceback"), "correspondence": "harness/c09.py vs Model.JsonCodec.data_to_json"}, is_oracle))
    # statement-level oracle failures (concrete failing inputs) are reported first; model-only disagreements go into the remaining slots
    emitted = 0
    for q_sig, q_msg, q_replay, q_found in sorted(queue, key=lambda q: not q[3]):
        if q_sig not in {RESERVED_KEY_SIG, LEGACY_SIG, lf.ENV_SIG}:
            if emitted >= 4:
                continue
            emitted += 1
        chk.violation(q_sig, q_msg, q_replay, found_input=q_found)
    chk.coverage["evaluations"] = len(cases)
    chk.coverage["traces_validated_against_impl"] = len(cases)
    chk.coverage["distinct_nontrivial"] = len(distinct)
    chk.coverage["rule"] = ("codec: dictionaries of 1-5 attributes whose values are random trees of depth <= 4 over None/bool/int/float/str/NaN, lists, tuples, dicts with str/int/float/bool/"
                            "None/tuple keys, np.float64 / IntEnum / str-subclass scalars, np.float32, np.int64, arrays, classes, callables, enums, sets, bytes, complex; "
                            "whole models: 12 fixed configurations over A2C, PPO, DQN (+HER), SAC, TD3, DDPG + 24 configurations drawn per run (net_arch [] / [8] / tuple / dict with empty or unequal "
                            "parts, activation_fn, optimizer_kwargs, n_critics, share_features_extractor, normalize_images, gSDE with sde_sample_freq, tuple train_freq, gradient_steps=-1, constant "
                            "vs callable learning_rate / clip_range, target_kl, stats_window_size, seed None vs int, device cpu/auto; before / after learn; all path kinds) + corpus (net_arch=[] for "
                            "every algorithm, an archive in the pre-1.8 net_arch=[dict] format); any exception from construct/learn/save/load is a violation (see input_distribution.models). Non-trivial = (codec) a dictionary that contains a "
                            "tuple / np.float64 / int key and has both plain and pickled attributes; every whole-model run. distinct = distinct case description; "
                            "round 5: 40 load-flow cases (algorithm x saved n_envs x env none / equal / other n_envs / other spaces x force_reset x custom_objects subset x kwargs subset x include env x tampered "
                            "archive), 18 set_parameters cases (six algorithms, exact_match, dropped objects, invalid name, missing / unexpected key), 12 load_replay_buffer cases - all non-trivial")
    chk.notes["input_distribution"] = hist
    chk.notes["corpus_cases"] = n_corpus
    chk.add_samples([cases[i] for i in (0, 1, n_corpus + len(names))][:3])
    chk.assumptions += [
        "cloudpickle, th.save / th.load and zipfile are modelled as the identity on opaque blobs; they are exercised by the whole-model runs only",
        "floats are tags in the model (k/8 in the runs); strings are short ASCII words; dictionaries never mix keys that Python identifies (1, True, 1.0)",
        "schedules and other callables are compared by their values at progress 1, 0.5, 0; objects with a __dict__ attribute by attribute; spaces with ==",
        "attributes in the effective exclusion set ((exclude + _excluded_save_params()) - include, plus the top-level names of state dicts / torch variables) are not compared",
        "load flow (round 5): attribute values are opaque tags; kwargs['policy_kwargs'] != data['policy_kwargs'] is typed structural equality; check_for_correct_spaces / _wrap_env are inputs "
        "(accept / reject, num_envs after wrapping); the set _setup_model re-creates is harness/c09_loadflow.CREATED (compared by value); torch's load_state_dict is modelled as copy-matching-keys-then-complain; "
        "shape mismatches and optimizer-group mismatches are outside the model",
        "replay buffers saved on their own (ReplayBuffer, optimize_memory_usage, DictReplayBuffer, HerReplayBuffer with and without copy_info_dict) are compared attribute by attribute except the documented `env`",
    ]
    if cov is not None:
        chk.notes["branch_coverage"] = cov.report()
    return chk.finish()


def replay(path):
    d = json.load(open(path))
    case = d["replay"]["case"] if "replay" in d else d
    chk = Check("C09", groups=["saveload", "loadflow"])
    impls, results = run_cases(chk, [case])
    print(json.dumps({"problems": results[0]}, indent=1))
    return 1 if results[0] else 0
