"""Scripted gymnasium environments shared by the correspondence checks.

An *episode script* is plain JSON-able data:
    script = {"episodes": [ {"reset_tag": int, "reset_info": int,
                             "steps": [ {"tag": int, "r4": int, "term": bool, "trunc": bool, "info": int}, ... ]}, ... ]}
  * observation = the integer `tag` written into every leaf cell of the observation space
    (decode() checks that all cells agree, so a partially mixed observation is detected)
  * reward = r4 / 4.0 (exact in float32)
  * the last step of every episode must have term or trunc set; an episode ends exactly there
  * reset number k (k = 1, 2, ...) starts episode (k-1) mod len(episodes); a reset in the middle of
    an episode abandons it
  * info dicts carry {"tag": info} plus anything in `extra_info`; an info / reset_info tag of -1 means
    "the environment returns an EMPTY info dict" (gen_script emits it with probability p_empty_info,
    default 0: harnesses that enable it must decode a missing "tag" as -1)
The same semantics is written in Gallina in coq/Model/Script.v (env_reset / env_step).

Every environment logs what it received: ("reset", seed, options) and ("step", action as nested list).
`sleep_plan` = {global step index: seconds} lets C02 delay chosen steps.
"""
from __future__ import annotations

import time
from typing import Any, Optional

import gymnasium as gym
import numpy as np
from gymnasium import spaces

MAXTAG = 100000

OBS_KINDS = ["box1", "box2", "image_hwc", "image_chw", "discrete", "multidiscrete", "multibinary", "dict", "tuple", "goal"]
ACT_KINDS = ["box", "box_asym", "discrete", "multidiscrete", "multibinary"]


def make_obs_space(kind: str, img=(8, 8, 3)):
    if kind == "box1":
        return spaces.Box(-float(MAXTAG), float(MAXTAG), (3,), dtype=np.float32)
    if kind == "box2":
        return spaces.Box(-float(MAXTAG), float(MAXTAG), (2, 2), dtype=np.float32)
    if kind == "image_hwc":
        return spaces.Box(0, 255, img, dtype=np.uint8)
    if kind == "image_chw":
        return spaces.Box(0, 255, (img[2], img[0], img[1]), dtype=np.uint8)
    if kind == "discrete":
        return spaces.Discrete(MAXTAG)
    if kind == "multidiscrete":
        return spaces.MultiDiscrete([MAXTAG, MAXTAG])
    if kind == "multibinary":
        return spaces.MultiBinary(17)
    if kind == "dict":
        return spaces.Dict({"vec": spaces.Box(-float(MAXTAG), float(MAXTAG), (2,), dtype=np.float32),
                            "d": spaces.Discrete(MAXTAG),
                            "img": spaces.Box(0, 255, img, dtype=np.uint8)})
    if kind == "tuple":
        return spaces.Tuple((spaces.Box(-float(MAXTAG), float(MAXTAG), (2,), dtype=np.float32), spaces.Discrete(MAXTAG)))
    if kind == "goal":
        b = lambda: spaces.Box(-float(MAXTAG), float(MAXTAG), (2,), dtype=np.float32)  # noqa: E731
        return spaces.Dict({"observation": b(), "achieved_goal": b(), "desired_goal": b()})
    raise ValueError(kind)


def make_act_space(kind: str):
    if kind == "box":
        return spaces.Box(-1.0, 1.0, (2,), dtype=np.float32)
    if kind == "box_asym":
        return spaces.Box(np.array([-2.0, 0.5], dtype=np.float32), np.array([6.0, 1.0], dtype=np.float32), dtype=np.float32)
    if kind == "discrete":
        return spaces.Discrete(4)
    if kind == "multidiscrete":
        return spaces.MultiDiscrete([3, 2])
    if kind == "multibinary":
        return spaces.MultiBinary(3)
    raise ValueError(kind)


def max_tag(kind: str) -> int:
    """largest tag representable in every leaf of the space"""
    return 255 if kind in ("image_hwc", "image_chw", "dict") else MAXTAG - 1


def encode(space, tag: int, goal: Optional[tuple] = None):
    """observation whose every leaf cell holds `tag` (goal spaces: (obs, achieved, desired) tags)"""
    if isinstance(space, spaces.Dict):
        if goal is not None and "achieved_goal" in space.spaces:
            o, a, d = goal
            return {"observation": encode(space["observation"], o), "achieved_goal": encode(space["achieved_goal"], a),
                    "desired_goal": encode(space["desired_goal"], d)}
        return {k: encode(s, tag) for k, s in space.spaces.items()}
    if isinstance(space, spaces.Tuple):
        return tuple(encode(s, tag) for s in space.spaces)
    if isinstance(space, spaces.Box):
        return np.full(space.shape, tag, dtype=space.dtype)
    if isinstance(space, spaces.Discrete):
        return int(tag)
    if isinstance(space, spaces.MultiDiscrete):
        return np.full(space.nvec.shape, tag, dtype=space.dtype)
    if isinstance(space, spaces.MultiBinary):
        n = int(np.prod(space.shape))
        return np.array([(tag >> i) & 1 for i in range(n)], dtype=space.dtype).reshape(space.shape)
    raise ValueError(space)


class MixedObservation(Exception):
    pass


def decode(space, obs) -> Any:
    """inverse of encode for ONE observation (no batch axis); raises MixedObservation when the
    leaves disagree; returns an int tag (or a dict of tags for goal spaces)"""
    if isinstance(space, spaces.Dict):
        parts = {k: decode(s, obs[k]) for k, s in space.spaces.items()}
        if "achieved_goal" in space.spaces:
            return parts
        vals = set(parts.values())
        if len(vals) != 1:
            raise MixedObservation(parts)
        return vals.pop()
    if isinstance(space, spaces.Tuple):
        vals = {decode(s, o) for s, o in zip(space.spaces, obs)}
        if len(vals) != 1:
            raise MixedObservation(vals)
        return vals.pop()
    if isinstance(space, (spaces.Box, spaces.MultiDiscrete)):
        arr = np.asarray(obs)
        if arr.shape != tuple(space.shape):
            raise MixedObservation(f"shape {arr.shape} != {space.shape}")
        vals = np.unique(arr)
        if len(vals) != 1 or float(vals[0]) != int(vals[0]):
            raise MixedObservation(vals.tolist())
        return int(vals[0])
    if isinstance(space, spaces.Discrete):
        arr = np.asarray(obs)
        if arr.size != 1:
            raise MixedObservation(f"discrete obs of size {arr.size}")
        return int(arr.reshape(-1)[0])
    if isinstance(space, spaces.MultiBinary):
        arr = np.asarray(obs).reshape(-1)
        if arr.shape[0] != int(np.prod(space.shape)):
            raise MixedObservation("multibinary size")
        return int(sum(int(b) << i for i, b in enumerate(arr)))
    raise ValueError(space)


def decode_batch(space, batch, n: int):
    """decode a VecEnv observation (leading axis n) into a list of n tags"""
    out = []
    for i in range(n):
        if isinstance(space, spaces.Dict):
            one = {k: batch[k][i] for k in space.spaces}
        elif isinstance(space, spaces.Tuple):
            one = tuple(b[i] for b in batch)
        else:
            one = batch[i]
        out.append(decode(space, one))
    return out


class ScriptedEnv(gym.Env):
    """see module docstring"""

    metadata = {"render_modes": []}

    def __init__(self, script: dict, obs_kind: str = "box1", act_kind: str = "discrete", sleep_plan: Optional[dict] = None,
                 extra_info: Optional[dict] = None, img=(8, 8, 3), obs_space=None, act_space=None, env_id: int = 0):
        self.script = script
        self.obs_kind = obs_kind
        self.observation_space = obs_space if obs_space is not None else make_obs_space(obs_kind, img)
        self.action_space = act_space if act_space is not None else make_act_space(act_kind)
        self.sleep_plan = {int(k): v for k, v in (sleep_plan or {}).items()}
        self.extra_info = extra_info or {}
        self.env_id = env_id
        self.n_resets = 0
        self.pos = 0
        self.total_steps = 0
        self.log: list = []
        self.attr_value = 0  # plain attribute for get_attr / set_attr tests

    # ---- helpers for attribute / method calls through VecEnv ----
    def get_log(self):
        return self.log

    def echo(self, *args, **kwargs):
        return (self.env_id, args, kwargs)

    def _episode(self):
        eps = self.script["episodes"]
        # a step before any reset plays episode 0, like Model/Script.v (cur_episode with c_resets = 0)
        return eps[max(self.n_resets - 1, 0) % len(eps)]

    def _obs(self, tag, goal=None):
        return encode(self.observation_space, tag, goal)

    def reset(self, *, seed: Optional[int] = None, options: Optional[dict] = None):
        super().reset(seed=seed)
        self.log.append(("reset", seed, options))
        self.n_resets += 1
        self.pos = 0
        ep = self._episode()
        info = {} if ep["reset_info"] == -1 else {"tag": ep["reset_info"], **self.extra_info}
        return self._obs(ep["reset_tag"], ep.get("reset_goal")), info

    def step(self, action):
        self.log.append(("step", np.asarray(action).tolist()))
        d = self.sleep_plan.get(self.total_steps)
        if d:
            time.sleep(d)
        self.total_steps += 1
        steps = self._episode()["steps"]
        st = steps[min(self.pos, len(steps) - 1)]
        self.pos += 1
        info = {} if st["info"] == -1 else {"tag": st["info"], **self.extra_info}
        if "is_success" in st:
            info["is_success"] = st["is_success"]
        return self._obs(st["tag"], st.get("goal")), st["r4"] / 4.0, bool(st["term"]), bool(st["trunc"]), info

    # GoalEnv protocol (HER): reward pairs the two goal tags, vectorised
    def compute_reward(self, achieved_goal, desired_goal, info):
        a = np.asarray(achieved_goal)
        d = np.asarray(desired_goal)
        return (a[..., 0] * 1000.0 + d[..., 0]).astype(np.float32) if a.ndim > 1 else np.float32(a[0] * 1000.0 + d[0])


def gen_script(rng, n_episodes=None, max_len=6, tag_base=0, tag_cap=MAXTAG - 1, p_both=0.15, p_trunc=0.4, p_empty_info=0.0):
    """boundary-biased random script with unique tags tag_base+1.. (wrapping at tag_cap)"""
    n_episodes = n_episodes or rng.randint(1, 5)
    eps, t = [], tag_base

    def nxt():
        nonlocal t
        t += 1
        return (t - 1) % tag_cap + 1

    for _ in range(n_episodes):
        ln = rng.choice([1, 1, 2, 3, rng.randint(1, max_len)])
        steps = []
        for k in range(ln):
            last = k == ln - 1
            term = trunc = False
            if last:
                u = rng.random()
                if u < p_both:
                    term = trunc = True
                elif u < p_both + p_trunc:
                    trunc = True
                else:
                    term = True
            steps.append({"tag": nxt(), "r4": rng.randint(-8, 8), "term": term, "trunc": trunc, "info": rng.randint(0, 999)})
        eps.append({"reset_tag": nxt(), "reset_info": rng.randint(0, 999), "steps": steps})
    if p_empty_info > 0:  # drawn afterwards so that the default stream (p_empty_info=0) is unchanged
        for e in eps:
            if rng.random() < p_empty_info:
                e["reset_info"] = -1
            for st in e["steps"]:
                if rng.random() < p_empty_info:
                    st["info"] = -1
    return {"episodes": eps}


def make_env_fn(script, **kw):
    def _f():
        return ScriptedEnv(script, **kw)

    return _f


# ---- Coq rendering of scripts (Model/Script.v types) ----

def coq_script(script) -> str:
    def step(s):
        return (f"(mk_sstep ({s['tag']})%Z ({s['r4']})%Z {'true' if s['term'] else 'false'} "
                f"{'true' if s['trunc'] else 'false'} ({s['info']})%Z)")

    def ep(e):
        return f"(mk_episode ({e['reset_tag']})%Z ({e['reset_info']})%Z [{'; '.join(step(s) for s in e['steps'])}])"

    return "[" + "; ".join(ep(e) for e in script["episodes"]) + "]"
