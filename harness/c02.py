"""C02 - SubprocVecEnv is observationally equivalent to DummyVecEnv under any timing.

Proof side:  Props/C02.v (Model/Subproc.v): for every worker behaviour, number of workers, parent program and
             EVERY schedule the values received equal the sequential (DummyVecEnv-order) run; no deadlock;
             the send-all/receive-all methods are the Dummy loop.
Tie:         (a) translate/skeleton.py extracts the send/recv communication skeleton of every SubprocVecEnv
                 method and of the worker loop from the AST into Gen/Frag_Subproc.v; interface lemmas compare
                 it with the model's programs (fail closed: unrecognised pipe traffic breaks a Qed);
             (b) lock-step drive of a real SubprocVecEnv and a real DummyVecEnv built from the same scripted
                 constructors with injected per-(env, step) delays (random / reversed / straggler) and mixed
                 reset/step/seed/set_options/get_attr/set_attr/env_method calls with indices None|int|list;
                 every return value compared (containers canonicalised: tuple vs list is not a difference);
             (c) the protocol model run in Coq under a random schedule on the same calls, compared with the
                 values the real SubprocVecEnv returned and with the model's own sequential run.
PARTIAL:     OS pipes (FIFO, reliability), pickling, process start and real timing are outside the model; the
             timing sweep (b) is testing, not proof.
"""
from __future__ import annotations

import json
import os

from harness import common
from harness.common import Check

def _rm_cases(name):
    """case files are named per process (concurrent runs of one check must not share them) and removed after evaluation"""
    import glob

    for q in glob.glob(os.path.join(common.GEN, f"Cases_{name}_*.v")):
        try:
            os.remove(q)
        except OSError:
            pass


REGISTRY = dict(
    text=("Proof (protocol model, unbounded; atomic public calls only, legal argument shapes): for every worker behaviour, every number of workers, every parent program of sends/receives and EVERY schedule of parent/worker steps, "
          "the values the parent receives equal those of the sequential DummyVecEnv-order run, in sub-environment order (schedule independence by per-pipe FIFO + index-order "
          "receive); no deadlock from any reachable configuration when every receive has its send; send-all/receive-all methods (step, reset) equal the Dummy loop for all n_envs. "
          "Tie: communication skeleton of every SubprocVecEnv method and of the worker loop regenerated from the AST; lock-step differential run of real SubprocVecEnv vs DummyVecEnv "
          "with injected delays. PARTIAL: the OS-pipe/timing half (pipe FIFO and reliability, pickling, process start, real completion orders) is exercised by the delay sweep only, not proved."),
    note=("Trusted: Coq 8.16.1 kernel (vm_compute, no native_compute), translate/skeleton.py (AST -> phases, fail closed), harness/c02.py + scripted_envs.py, Python/numpy/gymnasium/multiprocessing/pickle, "
          "the operating system's pipes. Modelled, not verified: one FIFO pipe per direction and worker, atomic worker iterations. Deadlock freedom is proved for programs that run sequentially "
          "(every recv has its send); for send-all/receive-all programs this is proved for all n, for index-subset programs (get_attr/set_attr/env_method) it is evaluated per generated case. "
          "The replies equal the DummyVecEnv loops of Model/VecEnv.v (C01) by theorem for step() and reset() (C02_step_eq_dummy_step, C02_reset_eq_dummy_reset); attribute/method calls equal the "
          "for-i-in-targets loop (dloop) by theorem. "
          "RESTRICTIONS (partial): the calls are the atomic public calls named by the property (reset, step, seed, set_options, get_attr, set_attr, env_method, env_is_wrapped, has_attr); "
          "a history that interleaves step_async / another call / step_wait is NOT covered - there the two classes really differ (the get_attr receive takes the step reply waiting in the pipe; "
          "Props/C02.v ex_async_interleaving_mixes_replies shows the model doing the same) - reported to the lead as a finding candidate; has_attr is an atomic public call of the model since round 5 (C02_has_attr_any_schedule: the answer under every schedule is the DummyVecEnv answer on the CURRENT sub-environment states; driven with attributes that exist, never exist, are created / deleted by env methods, by set_attr, by the environment itself in step()/reset() - the last kind class against class and oracle only); get_images / render are tied by their skeleton only. "
          "Illegal calls are excluded by hypothesis (call_targets_ok: indices in range, one action / options entry per sub-environment): on a too-short action list DummyVecEnv raises IndexError while "
          "SubprocVecEnv.step blocks (zip) - outside the quantifier, reported. C02_worker_determinism holds for any deterministic worker function (the modelling assumption), it is not a fact about the code. "
          "Delays are injected in the sub-environments' step() and reset() only. "
          "Quick tier: start method fork, n_envs 1-3; forkserver/spawn only in the thorough tier. Known finding F10, signature reward-dtype-float32-vs-float64 (DummyVecEnv returns float32 rewards, SubprocVecEnv float64: a reward such as 0.1 compares unequal), reproduced from corpus/C02.jsonl. "
          "All C02 theorems are closed under the global context."),
    technique="machine-checked proof in Coq (simulation invariant over all schedules, induction over programs) + regenerated communication skeleton + differential lock-step correspondence with injected delays",
)

HEADER = """From Coq Require Import List ZArith Bool.
From SB3V Require Import Model.Script Model.VecEnv Model.Subproc.
Import ListNotations.
"""

# round 5: attribute names of has_attr. The first four are in the Coq call language (Model/Subproc.v attr_present: 0 exists from the start, 1 never exists,
# 2 created / deleted by the sub-environment's own methods make_dyn / drop_dyn through env_method, 3 created by set_attr); the last two are created by the
# environment itself (when an episode ends in step() / at its second reset()) and are compared class against class and with the oracle only
ATTR_CODE = {"attr_value": 0, "zz_missing_attribute": 1, "dyn_attr": 2, "made_attr": 3}
ENV_MADE_ATTRS = ["ep_end_attr", "second_reset_attr"]


def gen_attr_story(rng, n, name):
    """calls about one attribute, in order: has_attr before, between and after the events that create / delete it"""
    has = ["has_attr", name]
    if name == "dyn_attr":
        ops = [has]
        for _ in range(rng.randint(1, 4)):
            ops.append(["dyn_method", rng.random() < 0.65, gen_indices(rng, n) if rng.random() < 0.6 else None])
            if rng.random() < 0.85:
                ops.append(has)
        return ops + [has]
    if name == "made_attr":
        ops = [has]
        for _ in range(rng.randint(1, 3)):
            ops.append(["set_made", rng.randint(1, 99), gen_indices(rng, n) if rng.random() < 0.5 else None])
            ops.append(has)
        return ops
    return [has] * rng.randint(2, 4)


def add_attr_stories(rng, n, calls):
    """insert 1-2 attribute stories at random increasing positions after the first reset (the other calls of the history - steps, resets,
    set_attr, env_method - happen in between)"""
    names = rng.sample(["dyn_attr", "dyn_attr", "made_attr", "ep_end_attr", "second_reset_attr", "attr_value", "zz_missing_attribute"], rng.randint(1, 2))
    for name in dict.fromkeys(names):
        ops = gen_attr_story(rng, n, name)
        first = next(i for i, c in enumerate(calls) if c[0] == "reset") + 1
        pos = sorted(rng.randint(first, len(calls)) for _ in ops)
        if name in ENV_MADE_ATTRS:
            pos[0], pos[-1] = first, len(calls)          # before the environment can have made it, and at the very end
        for k, (q, op) in enumerate(zip(pos, ops)):
            calls.insert(q + k, list(op))
    return calls


OBS_KINDS = ["box1", "image_hwc", "discrete", "multidiscrete", "multibinary", "dict", "tuple", "box2", "image_chw", "goal"]


# ---------------------------------------------------------------- generators

def gen_indices(rng, n):
    u = rng.random()
    if u < 0.3:
        return None
    if u < 0.55:
        return rng.randrange(n)
    k = rng.randint(1, n)
    idx = [rng.randrange(n) for _ in range(k)] if rng.random() < 0.3 else rng.sample(range(n), k)
    return idx


def gen_case(rng, idx, start_method="fork", max_n=3, dyn=False):
    from harness import scripted_envs as se

    obs_kind = OBS_KINDS[idx % len(OBS_KINDS)]
    act_kind = rng.choice(["box", "discrete", "multidiscrete", "multibinary", "box_asym"])
    n = rng.randint(1, max_n)
    img = obs_kind in ("image_hwc", "image_chw", "dict")
    # info / reset_info tag -1 = the env returns an EMPTY dict (falsy)
    scripts = [se.gen_script(rng, n_episodes=rng.randint(1, 4), max_len=5, tag_base=(i * 50 if img else i * 1000), tag_cap=255 if img else se.MAXTAG - 1,
                             p_empty_info=rng.choice([0.0, 0.3, 0.5])) for i in range(n)]
    calls = []
    if rng.random() < 0.5:
        calls.append(["seed", rng.randint(0, 1000)])
    calls.append(["reset"])
    aid = 0
    for _ in range(rng.randint(10, 22)):
        u = rng.random()
        if u < 0.55:
            calls.append(["step", list(range(aid, aid + n))])
            aid += n
        elif u < 0.62:
            calls.append(["reset"])
        elif u < 0.68:
            calls.append(["seed", rng.randint(0, 1000)])
        elif u < 0.72:
            calls.append(["set_options", [rng.choice([None, rng.randint(1, 99)]) for _ in range(n)]])
        elif u < 0.74:
            calls.append(["set_options_all", rng.choice([None, None, rng.randint(1, 99)])])     # set_options(None | {} | dict)
        elif u < 0.75:
            calls.append(["seed", None])                                                        # VecEnv.seed() draws the seed itself
        elif u < 0.76:
            calls.append(["has_attr", rng.choice(["attr_value", "zz_missing_attribute", "dyn_attr", "made_attr"] + ENV_MADE_ATTRS)])
        elif u < 0.84:
            calls.append(["get_attr", gen_indices(rng, n)])
        elif u < 0.90:
            calls.append(["set_attr", rng.randint(1, 999), gen_indices(rng, n)])
        elif u < 0.95:
            calls.append(["env_method", rng.randint(1, 999), gen_indices(rng, n)])
        else:
            calls.append(["is_wrapped", gen_indices(rng, n)])
    if dyn:
        # set_attr on an attribute that lives on the inner environment and changes later steps; read back through the wrapper
        # (get_attr) and from the inner environment itself (env_method); such histories are compared class against class only
        extra = []
        for c in calls:
            extra.append(c)
            if c[0] == "step" and rng.random() < 0.35:
                extra.append(rng.choice([["set_dyn", rng.randint(1, 9) * 1000, gen_indices(rng, n)], ["get_dyn", gen_indices(rng, n)], ["read_dyn", gen_indices(rng, n)]]))
        if not any(c[0] == "set_dyn" for c in extra):
            k = next(i for i, c in enumerate(extra) if c[0] == "reset") + 1
            extra[k:k] = [["set_dyn", 5000, None], ["get_dyn", None], ["read_dyn", None]]
        calls = extra
    if rng.random() < 0.6:
        calls = add_attr_stories(rng, n, calls)
    n_steps = sum(1 for c in calls if c[0] == "step") + 2
    pattern = rng.choice(["random", "reversed", "straggler", "none"])
    sleeps = []
    for i in range(n):
        if pattern == "random":
            sleeps.append({str(k): rng.choice([0.002, 0.01, 0.025]) for k in range(n_steps) if rng.random() < 0.3})
        elif pattern == "reversed":
            sleeps.append({str(k): 0.006 * (n - 1 - i) for k in range(n_steps) if n - 1 - i})
        elif pattern == "straggler":
            sleeps.append({str(k): 0.015 for k in range(n_steps)} if i == idx % n else {})
        else:
            sleeps.append({})
    wrapped = [rng.random() < 0.4 for _ in range(n)]
    reset_delays = [0.0 if pattern == "none" else rng.choice([0.0, 0.004, 0.012]) for _ in range(n)]
    return {"obs_kind": obs_kind, "act_kind": act_kind, "n": n, "scripts": scripts, "calls": calls, "sleeps": sleeps, "wrapped": wrapped,
            "dyn_calls": bool(dyn), "end": rng.choice(["close", "close", "close_twice", "close_while_waiting"]), "actions_as_list": rng.random() < 0.2, "reset_delays": reset_delays,
            "delay_pattern": pattern, "start_method": start_method, "schedule": [rng.randrange(64) for _ in range(400)], "id": idx}


def targets_of(indices, n):
    if indices is None:
        return list(range(n))
    if isinstance(indices, int):
        return [indices]
    return list(indices)


# ---------------------------------------------------------------- implementation: lock-step drive

def wrapper_class():
    """the gym wrapper class asked for by env_is_wrapped (pass-through with this horizon)"""
    from gymnasium.wrappers import TimeLimit

    return TimeLimit


def make_fn(script, wrapped, reset_delay=0.0, slow_wrapper=False, **kw):
    """constructor of one sub-environment, optionally wrapped in a pass-through gym wrapper; reset_delay makes reset() slow
    (ScriptedEnv's own sleep plan only delays step())"""
    def _f():
        import time

        import gymnasium as gym
        from gymnasium.wrappers import TimeLimit

        from harness import scripted_envs as se

        class DynEnv(se.ScriptedEnv):
            """ScriptedEnv with an attribute on the INNER environment that drives its dynamics: info tags are shifted by it"""

            def _shifted_step(self, action):
                obs, rew, term, trunc, info = super().step(action)
                if self.info_shift and "tag" in info:
                    info = dict(info, tag=info["tag"] + self.info_shift)
                return obs, rew, term, trunc, info

            def read_shift(self):
                return self.info_shift

            # round 5: attributes that come into existence (and go away) during the life of the sub-environment
            def step(self, action):       # noqa: F811 - wraps the shifted step above
                out = DynEnv._shifted_step(self, action)
                if out[2] or out[3]:
                    self.ep_end_attr = self.total_steps          # created by the environment when its first episode ends
                return out

            def reset(self, **kwargs):
                out = super().reset(**kwargs)
                if self.n_resets >= 2:
                    self.second_reset_attr = self.n_resets       # created by the environment at its second reset
                return out

            def make_dyn(self):
                had = "dyn_attr" in self.__dict__
                self.dyn_attr = 1
                return had

            def drop_dyn(self):
                had = "dyn_attr" in self.__dict__
                if had:
                    del self.dyn_attr
                return had

        env = DynEnv(script, **kw)
        env.info_shift = 0
        if reset_delay or slow_wrapper:      # the SAME wrapper structure on both classes; only the SubprocVecEnv side really sleeps
            class SlowReset(gym.Wrapper):
                def reset(self, **kwargs):
                    if reset_delay:
                        time.sleep(reset_delay)
                    return self.env.reset(**kwargs)

            env = SlowReset(env)
        return TimeLimit(env, max_episode_steps=10**9) if wrapped else env

    return _f


def make_pair(case):
    from stable_baselines3.common.vec_env import DummyVecEnv, SubprocVecEnv

    kw = dict(obs_kind=case["obs_kind"], act_kind=case["act_kind"])
    wr = case.get("wrapped") or [False] * case["n"]
    rd = case.get("reset_delays") or [0.0] * case["n"]
    dummy = DummyVecEnv([make_fn(sc, wr[i], slow_wrapper=bool(rd[i]), env_id=i, **kw) for i, sc in enumerate(case["scripts"])])
    sub = SubprocVecEnv([make_fn(sc, wr[i], reset_delay=rd[i], env_id=i, sleep_plan=case["sleeps"][i], **kw) for i, sc in enumerate(case["scripts"])],
                        start_method=case["start_method"] if "start_method" in case else "fork")
    return dummy, sub


def do_call(venv, case, call):
    import numpy as np

    from harness import c01

    if call[0] == "reset":
        obs = venv.reset()
        return {"obs": obs, "reset_infos": venv.reset_infos}
    if call[0] == "step":
        acts = np.stack([c01.action_value(case["act_kind"], a) for a in call[1]])
        if case.get("actions_as_list"):
            acts = list(acts)          # a plain list of per-env actions instead of an array
        obs, rews, dones, infos = venv.step(acts)
        return {"obs": obs, "rews": rews, "dones": dones, "infos": infos, "reset_infos": venv.reset_infos}
    if call[0] == "seed":
        if call[1] is None:
            np.random.seed(12345 + len(case["calls"]))    # both classes must draw the same seed from np.random
        ret = venv.seed(call[1])
    elif call[0] == "set_options":
        lst = [c01.opt_dict(o) for o in call[1]]
        ret = venv.set_options(lst)
        for d in lst:                                      # set_options must have copied: later changes by the caller are not seen
            if d:
                d["k"] = -777
    elif call[0] == "set_options_all":
        d = c01.opt_dict(call[1], empty_as_none=(call[1] is None and len(case["calls"]) % 2 == 0))
        ret = venv.set_options(d)
        if d:
            d["k"] = -777
    elif call[0] == "has_attr":
        ret = venv.has_attr(call[1])
    elif call[0] == "dyn_method":
        ret = venv.env_method("make_dyn" if call[1] else "drop_dyn", indices=call[2])
    elif call[0] == "set_made":
        ret = venv.set_attr("made_attr", call[1], indices=call[2])
    elif call[0] == "set_dyn":
        ret = venv.set_attr("info_shift", call[1], indices=call[2])
    elif call[0] == "get_dyn":
        ret = venv.get_attr("info_shift", indices=call[1])
    elif call[0] == "read_dyn":
        ret = venv.env_method("read_shift", indices=call[1])
    elif call[0] == "get_attr":
        ret = venv.get_attr("attr_value", indices=call[1])
    elif call[0] == "set_attr":
        ret = venv.set_attr("attr_value", call[1], indices=call[2])
    elif call[0] == "env_method":
        ret = venv.env_method("echo", call[1], indices=call[2])
    elif call[0] == "is_wrapped":
        ret = venv.env_is_wrapped(wrapper_class(), indices=call[1])
    else:
        raise ValueError(call)
    # reset_infos is observable state: compared after EVERY call
    return {"ret": ret, "reset_infos": venv.reset_infos}


def attr_present_now(env, name):
    """the attribute exists on the environment or one of its wrappers (instance attribute or class member), looked up without the VecEnv API"""
    e = env
    while True:
        if name in vars(e) or hasattr(type(e), name):
            return True
        if "env" not in vars(e):
            return False
        e = vars(e)["env"]


def same(a, b, path=""):
    """None when equal, else the path of the first difference. tuple vs list containers are not a difference."""
    import numpy as np

    if isinstance(a, dict) or isinstance(b, dict):
        if not (isinstance(a, dict) and isinstance(b, dict)):
            return path + ":container"
        if sorted(a, key=str) != sorted(b, key=str):
            return path + f":keys {sorted(a, key=str)} vs {sorted(b, key=str)}"
        for k in a:
            d = same(a[k], b[k], f"{path}[{k!r}]")
            if d:
                return d
        return None
    if isinstance(a, (list, tuple)) or isinstance(b, (list, tuple)):
        if not (isinstance(a, (list, tuple)) and isinstance(b, (list, tuple))):
            return path + ":container"
        if len(a) != len(b):
            return path + f":len {len(a)} vs {len(b)}"
        for k, (x, y) in enumerate(zip(a, b)):
            d = same(x, y, f"{path}[{k}]")
            if d:
                return d
        return None
    if isinstance(a, (np.ndarray, np.generic)) or isinstance(b, (np.ndarray, np.generic)):
        x, y = np.asarray(a), np.asarray(b)
        if x.shape != y.shape:
            return path + f":shape {x.shape} vs {y.shape}"
        if not np.array_equal(x, y):
            return path + ":values"
        if x.dtype != y.dtype and isinstance(a, np.ndarray) and isinstance(b, np.ndarray):
            return path + f":dtype {x.dtype} vs {y.dtype}"
        return None
    return None if (a == b and type(a) is type(b)) or (a == b and isinstance(a, (int, float)) and isinstance(b, (int, float))) else path + f":{a!r} vs {b!r}"


def compare_call(call, rd, rs):
    """(signature, message) list for one call; rd = DummyVecEnv result, rs = SubprocVecEnv result"""
    import numpy as np

    probs = []
    if call[0] in ("reset", "step"):
        d = same(rd["obs"], rs["obs"], "obs")
        if d:
            probs.append((f"{call[0]}-observations-differ", d))
    if "reset_infos" in rd or "reset_infos" in rs:
        d = same(rd.get("reset_infos"), rs.get("reset_infos"), "reset_infos")
        if d:
            probs.append((f"{call[0]}-reset-infos-differ", d))
    if call[0] == "step":
        a, b = np.asarray(rd["rews"]), np.asarray(rs["rews"])
        if a.shape != b.shape or not np.array_equal(a, b):
            # F10: the same float64 rewards rounded to float32 by DummyVecEnv only
            if a.shape == b.shape and a.dtype == np.float32 and b.dtype == np.float64 and np.array_equal(a, b.astype(np.float32)):
                probs.append(("reward-dtype-float32-vs-float64", f"rewards Dummy {a.tolist()} ({a.dtype}) vs Subproc {b.tolist()} ({b.dtype}): np.array_equal is False"))
            else:
                probs.append(("step-rewards-differ", f"rewards Dummy {a.tolist()} vs Subproc {b.tolist()}"))
        d = same(np.asarray(rd["dones"]), np.asarray(rs["dones"]), "dones")
        if d:
            probs.append(("step-dones-differ", d))
        d = same(rd["infos"], rs["infos"], "infos")
        if d:
            probs.append(("step-infos-differ", d))
    if "ret" in rd or "ret" in rs:
        d = same(rd.get("ret"), rs.get("ret"), "ret")
        if d:
            probs.append((f"{call[0]}-results-differ", d))
    return probs


def run_pair(case, calls=None):
    """returns (problems, subproc trace for the model comparison)"""
    import warnings

    calls = case["calls"] if calls is None else calls
    probs, trace = [], []
    with warnings.catch_warnings():
        warnings.simplefilter("ignore")
        dummy, sub = make_pair(case)
        try:
            for k, call in enumerate(calls):
                rd = do_call(dummy, case, call)
                rs = do_call(sub, case, call)
                if call[0] == "seed" and call[1] is None and rs.get("ret"):
                    case.setdefault("_drawn", {})[k] = int(rs["ret"][0])      # oracle input of the model: the seed VecEnv.seed() drew
                if call[0] == "has_attr":
                    # ORACLE (from the property text, independent of both has_attr implementations): the answer is True iff the attribute exists NOW in
                    # every sub-environment - looked up directly in the DummyVecEnv's in-process sub-environments (same constructors, same inputs)
                    per = [attr_present_now(e, call[1]) for e in dummy.envs]
                    for cls, r in (("SubprocVecEnv", rs), ("DummyVecEnv", rd)):
                        if bool(r["ret"]) != all(per):
                            probs.append(("oracle-has-attr-differs", f"call {k}: {cls}.has_attr({call[1]!r}) = {r['ret']!r} but the attribute is present per sub-environment "
                                                                     f"{per} at this point of the history (other class answered {(rd if r is rs else rs)['ret']!r})"))
                for sig, msg in compare_call(call, rd, rs):
                    probs.append((sig, f"call {k} {call[:1]}: {msg}"))
                trace.append(decode_call(case, sub, call, rs))
            # what every sub-environment was asked to do (seeds, options, its own actions), in order
            d = same(dummy.env_method("get_log"), sub.env_method("get_log"), "sub-environment logs")
            if d:
                probs.append(("subenv-received-calls-differ", d))
        except BaseException:
            # a hang or crash: do not wait for workers that may never answer
            for proc in getattr(sub, "processes", []):
                proc.terminate()
            sub.closed = True
            raise
        else:
            # documented shutdown patterns: close() twice is a no-op; close() with a step still outstanding first drains the pipes
            import numpy as np

            from harness import c01

            if case.get("end") == "close_while_waiting" and any(c[0] == "reset" for c in calls):
                acts = np.stack([c01.action_value(case["act_kind"], a) for a in range(case["n"])])
                dummy.step_async(acts)
                sub.step_async(acts)
            if case.get("end") == "close_twice":
                sub.close()
                dummy.close()
        finally:
            dummy.close()
            sub.close()
    return probs, trace


def decode_call(case, venv, call, res):
    """the (worker, reply) pairs the parent must have received for this call, in order, decoded to tags"""
    from harness import c01

    n = case["n"]
    space = venv.observation_space
    rinfos = [(d.get("tag", -1) if isinstance(d, dict) else None) for d in res.get("reset_infos", [])]   # {} decodes to -1
    try:
        if call[0] == "reset":
            tags = c01._dec_batch(space, res["obs"], n)
            return [[i, ["ResReset", tags[i], rinfos[i]]] for i in range(n)]
        if call[0] == "step":
            tags = c01._dec_batch(space, res["obs"], n)
            out = []
            for i in range(n):
                info = res["infos"][i]
                r = float(res["rews"][i]) * 4.0
                term = c01._dec(space, info["terminal_observation"]) if "terminal_observation" in info else None
                out.append([i, ["ResStep", [tags[i], int(r) if r == int(r) else r, bool(res["dones"][i]), info.get("tag", -1), info.get("TimeLimit.truncated"), term], rinfos[i]]])
            return out
        if call[0] == "get_attr":
            return [[i, ["ResAttr", v]] for i, v in zip(targets_of(call[1], n), res["ret"])]
        if call[0] == "set_attr":
            return [[i, ["ResNone"]] for i in targets_of(call[2], n)]
        if call[0] == "env_method":
            return [[i, ["ResMethod", v[0], v[1][0]]] for i, v in zip(targets_of(call[2], n), res["ret"])]
        if call[0] == "is_wrapped":
            return [[i, ["ResBool", bool(v)]] for i, v in zip(targets_of(call[1], n), res["ret"])]
        if call[0] == "has_attr" and call[1] in ATTR_CODE:
            return [["all", ["HasAttr", res["ret"]]]]          # the public answer: one boolean for all workers
        if call[0] == "dyn_method":
            return [[i, ["ResBool", v]] for i, v in zip(targets_of(call[2], n), res["ret"])]
        if call[0] == "set_made":
            return [[i, ["ResNone"]] for i in targets_of(call[2], n)]
    except Exception as e:  # noqa: BLE001
        return [["undecodable", f"{type(e).__name__}: {e}"]]
    return []


# ---------------------------------------------------------------- protocol model in Coq

def coq_calls(case, calls=None):
    from harness.common import coq_list, coq_nat, coq_option, coq_Z

    calls = case["calls"] if calls is None else calls
    n = case["n"]
    out = []
    for k, c in enumerate(calls):
        if c[0] == "reset":
            out.append("KaReset")
        elif c[0] == "step":
            out.append(f"KaStep {coq_list(c[1], coq_Z)}")
        elif c[0] == "seed":
            sv = c[1] if c[1] is not None else case.get("_drawn", {}).get(k, 0)
            out.append(f"KaSeed {coq_Z(sv)}")
        elif c[0] == "set_options_all":
            out.append(f"KaSetOptions {coq_list([c[1]] * n, lambda o: coq_option(o, coq_Z))}")
        elif c[0] == "has_attr":
            if c[1] in ATTR_CODE:      # attributes made by the environment itself in step()/reset() are outside the Coq call language
                out.append(f"KaHasAttr {coq_nat(ATTR_CODE[c[1]])}")
        elif c[0] == "dyn_method":
            out.append(f"KaDynMethod {'true' if c[1] else 'false'} {coq_list(targets_of(c[2], n), coq_nat)}")
        elif c[0] == "set_made":
            out.append(f"KaSetMade {coq_list(targets_of(c[2], n), coq_nat)}")
        elif c[0] == "set_options":
            out.append(f"KaSetOptions {coq_list(c[1], lambda o: coq_option(o, coq_Z))}")
        elif c[0] == "get_attr":
            out.append(f"KaGetAttr {coq_list(targets_of(c[1], n), coq_nat)}")
        elif c[0] == "set_attr":
            out.append(f"KaSetAttr {coq_Z(c[1])} {coq_list(targets_of(c[2], n), coq_nat)}")
        elif c[0] == "env_method":
            out.append(f"KaEnvMethod {coq_Z(c[1])} {coq_list(targets_of(c[2], n), coq_nat)}")
        elif c[0] == "is_wrapped":
            out.append(f"KaIsWrapped {coq_list(targets_of(c[1], n), coq_nat)}")
    return "[" + "; ".join(out) + "]"


def model_exprs(case):
    from harness import scripted_envs as se
    from harness.common import coq_bool, coq_list, coq_nat

    scs = "[" + "; ".join(se.coq_script(s) for s in case["scripts"]) + "]"
    cs = coq_calls(case)
    flags = coq_list(case.get("wrapped") or [], coq_bool)
    # the protocol model under the random schedule, and the DummyVecEnv-loop semantics of the same history
    return [f"run_subproc_scripted_w {scs} {flags} {cs} {coq_list(case['schedule'], coq_nat)}", f"Some (run_dummy_scripted {scs} {flags} {cs})"]


def _opt(x):
    return x[1] if isinstance(x, tuple) and x and x[0] == "Some" else None


def _ri(x):
    """None (never reset) and Some (-1) (the env returned {}) are both the empty dict"""
    v = _opt(x)
    return -1 if v is None else v


def model_log(val):
    out = []
    for i, r in val:
        if r == "ResNone":
            out.append([i, ["ResNone"]])
        elif r[0] == "ResStep":
            o = r[1]
            out.append([i, ["ResStep", [o[0], o[1], o[2], o[3], o[4], _opt(o[5])], _ri(r[2])]])
        elif r[0] == "ResReset":
            out.append([i, ["ResReset", r[1], _ri(r[2])]])
        elif r[0] == "ResAttr":
            out.append([i, ["ResAttr", r[1]]])
        elif r[0] == "ResMethod":
            out.append([i, ["ResMethod", r[1], r[2]]])
        elif r[0] == "ResBool":
            out.append([i, ["ResBool", bool(r[1])]])
        else:
            out.append([i, list(r)])
    return out


def public_log(case, mlog):
    """the model's log holds one ResBool per worker for has_attr; the public call returns their conjunction (Model/Subproc.v has_attr_answer):
    walk the calls, replace the n replies of every has_attr by the single public answer"""
    n, out, k = case["n"], [], 0
    for c in case["calls"]:
        if c[0] in ("reset", "step"):
            m = n
        elif c[0] in ("get_attr", "is_wrapped"):
            m = len(targets_of(c[1], n))
        elif c[0] in ("set_attr", "env_method", "dyn_method", "set_made"):
            m = len(targets_of(c[2], n))
        elif c[0] == "has_attr" and c[1] in ATTR_CODE:
            part = mlog[k:k + n]
            if [e[0] for e in part] == list(range(n)) and all(e[1][0] == "ResBool" for e in part):
                out.append(["all", ["HasAttr", all(e[1][1] for e in part)]])
            else:
                out += part            # not the shape of a has_attr answer: left as it is (compares unequal)
            k += n
            continue
        else:
            m = 0
        out += mlog[k:k + m]
        k += m
    return out + mlog[k:]


def integral_rewards(case):
    if case.get("dyn_calls"):
        return False       # histories with the dynamics-driving attribute are outside the Coq model's call language
    return all(isinstance(st["r4"], int) for s in case["scripts"] for e in s["episodes"] for st in e["steps"])


# ---------------------------------------------------------------- driver

def shrink(case, sig):
    def fails(calls):
        seen = False
        for c in calls:
            if c[0] == "reset":
                seen = True
            if c[0] == "step" and not seen:
                return False
        try:
            return any(s == sig for s, _ in run_pair(case, calls)[0])
        except Exception:  # noqa: BLE001
            return False

    return common.shrink_list(case["calls"], fails, max_rounds=30)


def load_corpus():
    p = os.path.join(common.VERIF, "corpus", "C02.jsonl")
    return [json.loads(l) for l in open(p) if l.strip()] if os.path.exists(p) else []


def main():
    chk = Check("C02", groups=["Subproc"])
    chk.build_props()
    from harness.c01_branchcov import BranchCov, summarize

    cov = BranchCov(['stable_baselines3/common/vec_env/subproc_vec_env.py', 'stable_baselines3/common/vec_env/dummy_vec_env.py', 'stable_baselines3/common/vec_env/base_vec_env.py']) if BranchCov.enabled() else None
    if cov:
        cov.start()
    sk = (chk.notes.get("fragments") or {}).get("Subproc", {})
    if sk.get("unrecognised"):
        chk.notes["skeleton_unrecognised"] = sk["unrecognised"]
    quick = chk.tier == "quick"
    cases = load_corpus()
    n_corpus = len(cases)
    n_gen = 120 if quick else 300
    for k in range(n_gen):
        # forkserver / spawn start a fresh interpreter per worker (several seconds): thorough tier only, every 5th history;
        # start_method=None (the constructor's own default, forkserver where available) every 50th
        method = "fork" if quick or k % 5 else ("forkserver" if k % 10 else ("spawn" if k % 50 else None))
        cases.append(gen_case(chk.rng, k, start_method=method, max_n=3 if quick or method != "fork" else 5, dyn=(k % 4 == 1)))
    hist = {"start_method": {}, "delay_pattern": {}, "obs_kind": {}, "n_envs": {}, "calls": {}, "total_calls": 0, "model_compared": 0}
    distinct = set()
    results = []
    import signal

    class Hang(Exception):
        pass

    def on_alarm(signum, frame):
        raise Hang()

    signal.signal(signal.SIGALRM, on_alarm)
    for c in cases:
        signal.alarm(60)
        try:
            probs, trace = run_pair(c)
        except Hang:
            probs, trace = [("hang-or-deadlock", "the lock-step history did not return within 60 s")], None
        except Exception as e:  # noqa: BLE001
            probs, trace = [("crash", f"{type(e).__name__}: {e}")], None
        finally:
            signal.alarm(0)
        results.append((probs, trace))
        if any(p[0] in ("hang-or-deadlock", "crash") for p in probs):
            break
    cases = cases[: len(results)]
    # protocol model under a random schedule on the same calls
    mcases = [i for i, c in enumerate(cases) if integral_rewards(c) and results[i][1] is not None]
    exprs = [e for i in mcases for e in model_exprs(cases[i])]
    vals = common.coq_eval_many(f"C02_{os.getpid()}", HEADER, exprs, shard=40, procs=4) if exprs else []
    _rm_cases(f"C02_{os.getpid()}")
    mvals = {i: (vals[2 * k], vals[2 * k + 1]) for k, i in enumerate(mcases)}
    for i, (c, (probs, trace)) in enumerate(zip(cases, results)):
        sm = str(c.get("start_method", "fork"))
        hist["start_method"][sm] = hist["start_method"].get(sm, 0) + 1
        hist["delay_pattern"][c.get("delay_pattern", "?")] = hist["delay_pattern"].get(c.get("delay_pattern", "?"), 0) + 1
        hist["obs_kind"][c["obs_kind"]] = hist["obs_kind"].get(c["obs_kind"], 0) + 1
        hist["n_envs"][c["n"]] = hist["n_envs"].get(c["n"], 0) + 1
        hist["total_calls"] += len(c["calls"])
        last_has, changed = {}, set()
        for call in c["calls"]:
            hist["calls"][call[0]] = hist["calls"].get(call[0], 0) + 1
            # round 5: has_attr calls per attribute; "re-asked after a change" = the same name asked before AND an event that can create / delete it in between
            if call[0] == "has_attr":
                ha = hist.setdefault("has_attr", {"by_name": {}, "reasked_after_possible_change": 0, "in_coq_language": 0})
                ha["by_name"][call[1]] = ha["by_name"].get(call[1], 0) + 1
                ha["in_coq_language"] += call[1] in ATTR_CODE
                if call[1] in last_has and call[1] in changed:
                    ha["reasked_after_possible_change"] += 1
                last_has[call[1]] = True
                changed.discard(call[1])
            elif call[0] == "dyn_method":
                changed.add("dyn_attr")
            elif call[0] == "set_made":
                changed.add("made_attr")
            elif call[0] in ("step", "reset"):
                changed.update(ENV_MADE_ATTRS)
        if c["n"] >= 2 and c.get("delay_pattern") != "none" and any(call[0] in ("get_attr", "set_attr", "env_method", "is_wrapped") for call in c["calls"]):
            distinct.add(json.dumps([c["obs_kind"], c["scripts"], c["calls"], c["sleeps"]], sort_keys=True))
        known = [p for p in probs if p[0] == "reward-dtype-float32-vs-float64"]
        other = [p for p in probs if p[0] != "reward-dtype-float32-vs-float64"]
        if known:
            chk.violation("reward-dtype-float32-vs-float64", known[0][1], {"case": c, "problems": [list(p) for p in known[:5]]}, found_input=True)
        if other:
            sig = other[0][0]
            small = shrink(c, sig) if sig not in ("crash", "hang-or-deadlock") else c["calls"]
            c2 = dict(c, calls=small)
            chk.violation(sig, "; ".join(m for _, m in other[:3]), {"case": c2, "problems": [list(p) for p in other[:10]]}, found_input=True)
            break
        if i in mvals:
            hist["model_compared"] += 1
            (left, mlog), seqlog = mvals[i]
            mlog = public_log(c, model_log(mlog))
            impl_log = [e for t in trace for e in t]
            sl = public_log(c, model_log(seqlog[1])) if isinstance(seqlog, tuple) and seqlog[0] == "Some" else None
            if left != 0 or mlog != impl_log or sl != mlog:
                j = next((j for j, (a, b) in enumerate(zip(mlog, impl_log)) if a != b), min(len(mlog), len(impl_log)))
                chk.violation("model-correspondence-protocol-log",
                              f"protocol model under schedule: {left} instructions left; first difference at reply {j}: model {mlog[j] if j < len(mlog) else None} "
                              f"impl {impl_log[j] if j < len(impl_log) else None}; sequential model equal to scheduled model: {sl == mlog}",
                              {"case": c, "correspondence": "harness/c02.py: Model.Subproc.run_subproc_scripted vs values returned by the real SubprocVecEnv"}, found_input=False)
                break
    chk.coverage["evaluations"] = len(cases)
    chk.coverage["traces_validated_against_impl"] = hist["model_compared"]
    chk.coverage["distinct_nontrivial"] = len(distinct)
    chk.coverage["rule"] = ("lock-step histories (12-25 calls: reset/step/seed/set_options/get_attr/set_attr/env_method/env_is_wrapped with indices None|int|list incl. unsorted and repeated; sub-envs randomly wrapped in a pass-through gym wrapper) on a real "
                            "SubprocVecEnv and DummyVecEnv (n_envs 1-3, 10 observation kinds) with injected per-(env, step) delays 0-25 ms in patterns random/reversed/straggler/none; "
                            "every return value compared; protocol model evaluated in Coq under a random schedule on the same calls; non-trivial = n_envs >= 2 AND delays injected AND an "
                            "attribute/method call with indices; distinct = distinct (kind, scripts, calls, delays)")
    chk.notes["input_distribution"] = hist
    chk.notes["start_methods_run"] = dict(hist["start_method"])   # which multiprocessing start methods were actually exercised in this run
    chk.coverage["has_attr"] = hist.get("has_attr", {})
    chk.notes["corpus_cases"] = n_corpus
    chk.add_samples([{k: cases[i][k] for k in ("obs_kind", "n", "delay_pattern", "start_method", "calls")} for i in (n_corpus, len(cases) - 1) if i < len(cases)])
    chk.assumptions += [
        "PARTIAL: OS pipes (per-pipe FIFO, reliable delivery), pickling of observations, process start and real scheduling are not modelled; the injected-delay sweep exercises them",
        "main stream rewards are multiples of 1/4 (equal in float32 and float64); reward dtype is not compared in the main stream (known finding reward-dtype-float32-vs-float64)",
        "tuple vs list containers of infos / reset_infos are not treated as a difference; element values, dtypes of observations and order are",
        "the scripted sub-environments run without sleeps in the DummyVecEnv (delays are injected in the SubprocVecEnv workers only)",
    ]
    if cov:
        cov.stop()
        chk.notes["branch_coverage_unexecuted"] = summarize(cov.report(), common.REPO)
    return chk.finish()


def replay(path):
    d = json.load(open(path))
    case = d["replay"]["case"]
    probs, _ = run_pair(case)
    print(json.dumps({"problems": probs}, indent=1, default=str))
    return 1 if probs else 0
