"""Line-coverage evidence for the anchored source functions of a check (round-4 audit).

Enabled only when VERIF_BRANCHCOV=1 (normal runs are not traced).  `start(funcs)` installs a
sys.settrace hook that records executed lines of the listed functions only (qualified names such
as "stable_baselines3.common.buffers:ReplayBuffer.add"); `report()` returns, per function, the
executable lines (from the code object's line table) that were never executed, with their text.
"""
from __future__ import annotations

import dis
import importlib
import linecache
import os
import sys
import threading


def enabled() -> bool:
    return os.environ.get("VERIF_BRANCHCOV") == "1"


def _code_of(spec: str):
    mod, qual = spec.split(":")
    obj = importlib.import_module(mod)
    for part in qual.split("."):
        obj = obj.__dict__[part] if isinstance(obj, type) and part in obj.__dict__ else getattr(obj, part)
    obj = getattr(obj, "__func__", obj)
    obj = getattr(obj, "fget", obj) or obj
    obj = getattr(obj, "__wrapped__", obj)
    return obj.__code__


def _all_codes(code):
    yield code
    for c in code.co_consts:
        if hasattr(c, "co_code"):
            yield from _all_codes(c)


class LineCov:
    def __init__(self, funcs):
        self.funcs = {}
        self.by_file = {}
        for spec in funcs:
            try:
                code = _code_of(spec)
            except Exception as e:  # a renamed / removed function is reported, not fatal
                self.funcs[spec] = {"error": f"{type(e).__name__}: {e}"}
                continue
            lines = set()
            for c in _all_codes(code):
                lines |= {l for _, l in dis.findlinestarts(c) if l is not None and l > code.co_firstlineno}
            self.funcs[spec] = {"file": code.co_filename, "lines": lines, "first": code.co_firstlineno}
            self.by_file.setdefault(code.co_filename, set()).update(lines)
        self.hit = {f: set() for f in self.by_file}

    def _local(self, frame, event, arg):
        if event == "line":
            self.hit[frame.f_code.co_filename].add(frame.f_lineno)
        return self._local

    def _global(self, frame, event, arg):
        if frame.f_code.co_filename in self.hit:
            return self._local
        return None

    def start(self):
        sys.settrace(self._global)
        threading.settrace(self._global)
        return self

    def stop(self):
        sys.settrace(None)
        threading.settrace(None)  # type: ignore[arg-type]

    def report(self):
        out = {}
        for spec, d in self.funcs.items():
            if "error" in d:
                out[spec] = d
                continue
            miss = sorted(l for l in d["lines"] if l not in self.hit[d["file"]])
            # docstring / signature continuation lines carry no code of their own in practice; keep only lines with text
            miss = [l for l in miss if linecache.getline(d["file"], l).strip() and not linecache.getline(d["file"], l).strip().startswith(('"""', "'''", "#"))]
            out[spec] = {"executable": len(d["lines"]), "never_executed": [[l, linecache.getline(d["file"], l).strip()[:90]] for l in miss]}
        return out


def maybe_start(funcs):
    return LineCov(funcs).start() if enabled() else None


def finish(cov, chk):
    if cov is None:
        return
    cov.stop()
    rep = cov.report()
    chk.notes["branch_coverage"] = {"enabled_by": "VERIF_BRANCHCOV=1", "functions": rep,
                                    "never_executed_total": sum(len(v.get("never_executed", [])) for v in rep.values())}
