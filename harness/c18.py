"""C18 - episode statistics from Monitor, VecMonitor and evaluate_policy are exact.

Proof side:   Props/C18.v (Monitor / VecMonitor episode info for every step-reset history, results file =
              reported episodes in order, quota law of evaluate_policy from the regenerated expression,
              exactly-n / first-quota_i-episodes for arbitrary cell streams).
Tie:          (a) real Monitor around a scripted env, random step/reset histories (early resets allowed or
                  refused), vs Model.Monitor.mon_env_run; results file read back with load_results;
              (b) real VecMonitor around DummyVecEnv of scripted envs vs Model.Monitor.vm_scripted_run;
              (c) real evaluate_policy (no monitor / Monitor per env / VecMonitor) vs Model.Evaluate.evaluate_scripted;
              (d) statement-level oracle in plain Python written from the property text: sums and counts of the
                  rewards actually returned since the last reset / episode end; scripted episodes' true returns.
time.time inside stable_baselines3.common.monitor / vec_monitor is replaced (harness process only) by a
strictly increasing fake clock, so load_results' sort by t is deterministic.
"""
from __future__ import annotations

import json
import os
import shutil
import tempfile
import warnings

from harness import common
from harness.common import Check, coq_bool, coq_list, coq_nat, coq_Z

REGISTRY = dict(
    text=("Proof (unbounded): for every history of steps and resets (refused ones included) Monitor's episode info is (sum, count) of exactly the accepted steps since the "
          "last accepted reset, the rows handed to the results file are the reported episodes in order (partial: CSV text / pandas not modelled), load_results over several files = "
          "rows shifted by each file's own t_start and sorted; same for VecMonitor per sub-environment (any interleaving of episode ends and vector "
          "resets, environments independent); evaluate_policy's quotas (n+i)//k (regenerated from evaluation.py) sum to n and differ by at most 1, and whenever the loop stops "
          "it returns exactly n results which are, per sub-environment, its first quota_i completed episodes with their true return and length, for arbitrary episode streams "
          "(a done without 'episode' entry under a monitor - a lost life - is not counted). Known finding F22 monitor-append-mode-episodes-misordered-by-load-results "
          "(Monitor(override_existing=False) appends rows whose t restarts; load_results then misorders them) is reproduced from a fixed corpus input. "
          "Tie: fragment translator (guards, accumulators, quota) + correspondence on real Monitor / VecMonitor / evaluate_policy over scripted environments."),
    note=("Trusted: Coq 8.16.1 kernel (vm_compute, no native_compute), translate/py2coq.py + specs/monitor.py, harness/c18.py + scripted_envs.py, Python/numpy/pandas/gymnasium. "
          "Not verified: the wall-clock column t (fake strictly increasing clock in the harness), pandas' CSV reader (only exercised), float accumulation "
          "(rewards are multiples of 0.25: exact in float32/float64 and stable under round(., 6); a quarter of the Monitor / VecMonitor histories use other rewards, checked by the oracle "
          "with explicit tolerances). All C18 theorems are closed under the global context (no axioms)."),
    technique="machine-checked proof in Coq (induction over histories, index arithmetic) + regenerated-fragment interface lemmas + differential correspondence",
)

COV_TARGETS = {"stable_baselines3/common/monitor.py": None, "stable_baselines3/common/vec_env/vec_monitor.py": None, "stable_baselines3/common/evaluation.py": None}

HEADER = """From Coq Require Import List ZArith Bool.
From SB3V Require Import Model.Script Model.Monitor Model.Evaluate.
Import ListNotations.
Local Open Scope Z_scope.
"""


class FakeClock:
    """stands in for the `time` module inside monitor.py / vec_monitor.py"""

    def __init__(self):
        self.now = 1000.0

    def time(self):
        self.now += 1.0
        return self.now


def _imports():
    import numpy as np

    import stable_baselines3.common.monitor as M
    import stable_baselines3.common.vec_env.vec_monitor as VM
    from stable_baselines3.common.evaluation import evaluate_policy
    from stable_baselines3.common.vec_env import DummyVecEnv

    from harness import scripted_envs as se

    clock = FakeClock()
    M.time = clock
    VM.time = clock
    return np, M, VM, evaluate_policy, DummyVecEnv, se


# ---------------------------------------------------------------- generators

def gen_case(rng, i):
    from harness import scripted_envs as se

    kind = ["monitor", "vecmon", "eval"][i % 3]
    if kind == "monitor":
        two = rng.random() < 0.3          # several monitors logging into one directory (as make_vec_env(monitor_dir=...) with n_envs > 1)
        scripts = [se.gen_script(rng, max_len=5) for _ in range(rng.choice([2, 2, 3]) if two else 1)]
        n_ops = rng.randint(1, 26)
        p_reset = rng.choice([0.1, 0.25, 0.5])
        ops = [[rng.randrange(len(scripts)), "r" if (rng.random() < p_reset or k == 0) else "s"] for k in range(n_ops)]
        if rng.random() < 0.1:
            ops[0][1] = "s"  # a step before any reset must be refused
        reset_kw = rng.random() < 0.3
        if reset_kw:  # Monitor(reset_keywords=("difficulty",)): every reset passes a value that must show up in the episode entry and the file
            for o in ops:
                if o[1] == "r":
                    o.append(rng.randint(1, 9))
        append = (not two) and rng.random() < 0.15
        if append:   # a second Monitor continues the same file (override_existing=False)
            ops += [[1, "r"] + ([rng.randint(1, 9)] if reset_kw else [])] + [[1, "s"] for _ in range(rng.randint(1, 7))]
        missing_kw = reset_kw and not append and rng.random() < 0.15
        if missing_kw:   # the last operation is a reset WITHOUT the required keyword: ValueError
            ops.append([0, "r_missing"])
        return {"kind": kind, "scripts": scripts, "allow": rng.random() < 0.6, "ops": ops, "reset_kw": reset_kw, "append": append,
                "clock_gap": rng.choice([0, 7, 50, 1000]) if two else 0,      # the monitors are created at different instants
                "dir_filename": (not two) and (not append) and rng.random() < 0.2,
                "reward_scale": rng.choice([None, None, None, 0.3337, 1e-3 / 3, 1234.567]),
                "info_keywords": rng.choice([[], ["tag"], ["tag", "k1"]]), "id": i}
    if kind == "vecmon":
        k = rng.randint(1, 4)
        scripts = [se.gen_script(rng, max_len=5) for _ in range(k)]
        n_ops = rng.randint(1, 22)
        ops = ["r"] + [("r" if rng.random() < 0.15 else "s") for _ in range(n_ops)]
        return {"kind": kind, "scripts": scripts, "ops": ops, "info_keywords": rng.choice([[], ["tag"], ["tag", "k1"]]), "inner_monitor": rng.random() < 0.2,
                "reward_scale": rng.choice([None, None, None, 0.3337, 1e-3 / 3, 1234.567]), "id": i}
    k = rng.randint(1, 6)
    scripts = [se.gen_script(rng, max_len=rng.choice([2, 4, 7])) for _ in range(k)]
    mode = rng.choice([0, 1, 2, 3, 0, 1, 2, 3, 4, 5])
    return {"kind": kind, "scripts": scripts, "n": rng.randint(1, 15), "mode": mode, "raw_env": k == 1 and mode in (0, 1, 3, 5) and rng.random() < 0.5,
            "threshold": rng.choice([None, None, rng.randint(-16, 16) / 4.0]), "id": i}


# ---------------------------------------------------------------- implementation runs

def _rows(df, keys):
    out = []
    for _, row in df.iterrows():
        out.append([float(row["r"]), int(row["l"])] + [(None if row[k] != row[k] else int(row[k])) for k in keys])
    return out


def mon_scripts(case):
    """scripts of all Monitor objects of a case: with "append" a further Monitor (same script as the first, fresh env) re-opens the
    first one's file with override_existing=False after the other operations"""
    return case["scripts"] + ([case["scripts"][0]] if case.get("append") else [])


APPEND_SIG = "monitor-append-mode-episodes-misordered-by-load-results"


def run_monitor(case):
    np, M, VM, evaluate_policy, DummyVecEnv, se = _imports()
    d = tempfile.mkdtemp(prefix="c18_")
    try:
        kw = tuple(case["info_keywords"])
        rkw = ("difficulty",) if case.get("reset_kw") else ()

        scale = case.get("reward_scale")

        class KwEnv(se.ScriptedEnv):
            def reset(self, *, seed=None, options=None, **extra):
                return super().reset(seed=seed, options=options)

            def step(self, action):
                o, r, te, tr, info = super().step(action)
                return o, (r if scale is None else r * scale), te, tr, info

        # an empty directory has no monitor files
        try:
            M.load_results(d)
            empty_dir_raises = False
        except M.LoadMonitorResultsError:
            empty_dir_raises = True
        envs = [KwEnv(sc, extra_info={"k1": 7 + j}, env_id=j) for j, sc in enumerate(mon_scripts(case))]
        n_first = len(case["scripts"])
        # filename may also be an existing directory (the file is then <dir>/monitor.csv)
        fname = (lambda j: d) if case.get("dir_filename") else (lambda j: os.path.join(d, f"m{j}"))
        mons = []
        for j, e in enumerate(envs[:n_first]):
            M.time.now += float(case.get("clock_gap", 0)) * j        # deterministic: the fake clock jumps between the constructions
            mons.append(M.Monitor(e, filename=fname(j), allow_early_resets=case["allow"], info_keywords=kw, reset_keywords=rkw))
        events = []
        mid_rows = {}
        n_ops = len(case["ops"])
        read_at = {n_ops // 3, (2 * n_ops) // 3}
        for idx, o in enumerate(case["ops"]):
            if idx in read_at and idx > 0 and len(mons) == n_first:
                # read the files back in the MIDDLE of the history (monitors still open): every episode finished so far must be there
                mid_rows[idx] = _safe(lambda: _rows(M.load_results(d), kw + rkw))
            w, op = o[0], o[1]
            if w == n_first and len(mons) == n_first:
                mons[0].close()
                mons.append(M.Monitor(envs[w], filename=os.path.join(d, "m0"), allow_early_resets=case["allow"], info_keywords=kw, reset_keywords=rkw, override_existing=False))
            m = mons[w]
            if op == "r_missing":
                try:
                    m.reset()
                    events.append({"w": w, "op": "r_missing", "out": "accepted"})
                except ValueError:
                    events.append({"w": w, "op": "r_missing", "out": "ValueError"})
                except RuntimeError:
                    events.append({"w": w, "op": "r_missing", "out": "RuntimeError"})
                continue
            if op == "r":
                try:
                    m.reset(**({"difficulty": o[2]} if rkw else {}))
                    events.append({"w": w, "op": "r", "out": "ok", "kw": o[2] if rkw else None})
                except RuntimeError:
                    events.append({"w": w, "op": "r", "out": "err"})
            else:
                try:
                    _, rew, term, trunc, info = m.step(0)
                    ep = info.get("episode")
                    events.append({"w": w, "op": "s", "out": "ok", "rew": float(rew), "term": bool(term), "trunc": bool(trunc), "info_tag": info["tag"],
                                   "info_k1": info["k1"], "ep": None if ep is None else {k: (float(v) if k in ("r", "t") else int(v)) for k, v in ep.items()}})
                except RuntimeError:
                    events.append({"w": w, "op": "s", "out": "err"})
        stats = [{"returns": [float(x) for x in m.get_episode_rewards()], "lengths": [int(x) for x in m.get_episode_lengths()],
                  "times": [float(x) for x in m.get_episode_times()], "total_steps": int(m.get_total_steps()), "env_log": [e[0] for e in envs[j].log]} for j, m in enumerate(mons)]
        for m in mons:
            m.close()
        dir_file_ok = (not case.get("dir_filename")) or os.path.exists(os.path.join(d, "monitor.csv"))
        # the raw files (header t_start, rows with their own relative t): input of Model.Monitor.load_results_model
        raw_files = []
        for fn in sorted(M.get_monitor_files(d)):
            with open(fn) as fh:
                head = json.loads(fh.readline()[1:])
                lines = fh.read().strip().split("\n")[1:]
            rows_f = [ln.split(",") for ln in lines if ln]
            raw_files.append({"t_start": head["t_start"], "rows": [[float(r[2]), float(r[0]), int(r[1])] for r in rows_f]})
        rows = _rows(M.load_results(d), kw + rkw)
        return {"events": events, "stats": stats, "rows": rows, "raw_files": raw_files, "mid_rows": mid_rows, "empty_dir_raises": empty_dir_raises,
                "dir_file_ok": dir_file_ok}
    finally:
        shutil.rmtree(d, ignore_errors=True)


def run_vecmon(case):
    np, M, VM, evaluate_policy, DummyVecEnv, se = _imports()
    d = tempfile.mkdtemp(prefix="c18_")
    try:
        kw = tuple(case["info_keywords"])
        k = len(case["scripts"])
        scale = case.get("reward_scale")

        class ScaledEnv(se.ScriptedEnv):
            def step(self, action):
                o, r, te, tr, info = super().step(action)
                return o, (r if scale is None else r * scale), te, tr, info

        inner = bool(case.get("inner_monitor"))   # Monitor inside VecMonitor: documented to warn; VecMonitor's entry replaces Monitor's
        venv = DummyVecEnv([(lambda sc=sc, j=j: (M.Monitor(ScaledEnv(sc, extra_info={"k1": 7 + j}, env_id=j)) if inner else ScaledEnv(sc, extra_info={"k1": 7 + j}, env_id=j)))
                            for j, sc in enumerate(case["scripts"])])
        with warnings.catch_warnings(record=True) as wl:
            warnings.simplefilter("always")
            vm = VM.VecMonitor(venv, filename=os.path.join(d, "vm"), info_keywords=kw)
        warned_double = any(issubclass(w.category, UserWarning) and "already wrapped" in str(w.message) for w in wl)
        events = []
        for op in case["ops"]:
            if op == "r":
                vm.reset()
                events.append({"op": "r"})
            else:
                _, rews, dones, infos = vm.step(np.zeros(k, dtype=np.int64))
                eps = []
                for inf in infos:
                    ep = inf.get("episode")
                    eps.append(None if ep is None else {kk: (float(v) if kk in ("r", "t") else int(v)) for kk, v in ep.items()})
                events.append({"op": "s", "rews": [float(x) for x in rews], "dones": [bool(x) for x in dones], "eps": eps,
                               "tags": [int(inf["tag"]) for inf in infos], "k1": [int(inf["k1"]) for inf in infos]})
        vm.close()
        rows = _rows(M.load_results(d), kw)
        return {"events": events, "rows": rows, "warned_double": warned_double}
    finally:
        shutil.rmtree(d, ignore_errors=True)


class _Runaway(Exception):
    pass


class _Policy:
    def __init__(self, np, k, cap):
        self.np, self.k, self.cap, self.calls = np, k, cap, 0

    def predict(self, observation, state=None, episode_start=None, deterministic=True):
        self.calls += 1
        if self.calls > self.cap:
            raise _Runaway()
        return self.np.zeros(self.k, dtype=self.np.int64), None


def run_eval(case):
    np, M, VM, evaluate_policy, DummyVecEnv, se = _imports()
    k = len(case["scripts"])
    mode = case["mode"]
    raw = []

    import gymnasium as gym

    class Lives(gym.Wrapper):
        """outside Monitor, like EpisodicLifeEnv: reports terminated=True when a life is lost (info tag multiple of 4) although the
        episode goes on; the reset that follows is swallowed, so neither the env nor the Monitor is reset"""

        def __init__(self, env):
            super().__init__(env)
            self.real_done, self.last_obs = True, None

        def step(self, action):
            obs, r, term, trunc, info = self.env.step(action)
            self.real_done = bool(term or trunc)
            if not self.real_done and info["tag"] % 4 == 0:
                term = True
            self.last_obs = obs
            return obs, r, term, trunc, info

        def reset(self, **kw):
            if self.real_done:
                self.real_done = False
                return self.env.reset(**kw)
            return self.last_obs, {}

    def mk(j, sc):
        def f():
            e = se.ScriptedEnv(sc, env_id=j)
            raw.append(e)
            # 4: Monitor inside and VecMonitor outside (VecMonitor's entry wins); 5: Monitor around Monitor
            return M.Monitor(e) if mode in (1, 4) else Lives(M.Monitor(e)) if mode == 3 else M.Monitor(M.Monitor(e)) if mode == 5 else e
        return f

    def build():
        if case.get("raw_env"):            # a plain gym env: evaluate_policy vectorises it itself
            return mk(0, case["scripts"][0])()
        venv = DummyVecEnv([mk(j, sc) for j, sc in enumerate(case["scripts"])])
        if mode in (2, 4):
            with warnings.catch_warnings():
                warnings.simplefilter("ignore")
                return VM.VecMonitor(venv)
        return venv

    env = build()
    calls = []

    def cb(loc, glob):
        calls.append((int(loc["i"]), len(loc["episode_rewards"])))

    # every sub-environment completes an episode at least every max_len steps and needs at most n of them
    cap = case["n"] * max(len(e["steps"]) for sc in case["scripts"] for e in sc["episodes"]) + 10
    with warnings.catch_warnings():
        warnings.simplefilter("ignore")
        try:
            rs, ls = evaluate_policy(_Policy(np, k, cap), env, n_eval_episodes=case["n"], return_episode_rewards=True, warn=False, callback=cb)
        except _Runaway:
            return {"runaway": cap, "steps": cap}
    steps = sum(1 for e in raw[0].log if e[0] == "step")
    out = {"rs": [float(x) for x in rs], "ls": [int(x) for x in ls], "calls": calls, "steps": steps,
           "r_types_ok": all(isinstance(x, (float, np.floating)) for x in rs)}
    # ---- the summary form: mean / std, the warning without a monitor, the reward_threshold assertion
    with warnings.catch_warnings(record=True) as wlist:
        warnings.simplefilter("always")
        mean, std = evaluate_policy(_Policy(np, k, cap), build(), n_eval_episodes=case["n"], return_episode_rewards=False, warn=True)
    out["mean"], out["std"] = float(mean), float(std)
    out["warned"] = any(issubclass(w.category, UserWarning) and "Monitor" in str(w.message) for w in wlist)
    thr = case.get("threshold")
    if thr is not None:
        try:
            with warnings.catch_warnings():
                warnings.simplefilter("ignore")
                evaluate_policy(_Policy(np, k, cap), build(), n_eval_episodes=case["n"], reward_threshold=thr, warn=False)
            out["threshold_raised"] = False
        except AssertionError:
            out["threshold_raised"] = True
    return out


RUN = {"monitor": run_monitor, "vecmon": run_vecmon, "eval": run_eval}


# ---------------------------------------------------------------- model expressions

def model_exprs(case, impl):
    from harness.scripted_envs import coq_script

    if case.get("reward_scale") is not None:
        return ["true"]          # off the 1/4 grid the exact model does not apply: oracle with explicit tolerances only
    if case["kind"] == "monitor":
        ex = []
        for w, sc in enumerate(mon_scripts(case)):
            ops = coq_list(["UReset" if o[1] == "r" else "UStep" for o in case["ops"] if o[0] == w and o[1] != "r_missing"])
            ex.append(f"let '(s, outs) := mon_env_run {coq_bool(case['allow'])} {coq_script(sc)} cursor0 m0 {ops} in (outs, m_rows s, m_total s)")
        # load_results over the raw files: rows shifted by their own file's t_start, then sorted (times in microseconds)
        us = lambda x: int(round(x * 1e6))  # noqa: E731
        files = coq_list([f"({coq_Z(us(f['t_start']))}, {coq_list([f'({coq_Z(us(r[0]))}, ({coq_Z(_q(r[1]) if _q(r[1]) is not None else 0)}, {coq_Z(r[2])}))' for r in f['rows']])})"
                          for f in impl.get("raw_files", [])])
        ex.append(f"load_results_model {files}")
        return ex
    if case["kind"] == "vecmon":
        scs = coq_list([coq_script(sc) for sc in case["scripts"]])
        ops = coq_list(["UReset" if op == "r" else "UStep" for op in case["ops"]])
        return [f"let scs := {scs} in vm_scripted_run scs (map (fun _ => cursor0) scs) (map (fun _ => v0) scs, []) {ops}"]
    scs = coq_list([coq_script(sc) for sc in case["scripts"]])
    if "runaway" in impl:
        return ["true"]
    model_mode = {4: 2, 5: 1}.get(case["mode"], case["mode"])   # the doubled wrappers report the same entries as the outer one alone
    return [f"evaluate_scripted {coq_nat(impl['steps'] + 3)} {coq_Z(model_mode)} {coq_Z(case['n'])} {scs}"]


def _q(x):
    """reward in units of 1/4 as an int, or None when it is not on the grid"""
    v = x * 4.0
    return int(v) if v == int(v) else None


# ---------------------------------------------------------------- oracle + comparison

def script_episodes(sc, count):
    """true (return in 1/4 units, length) of the first `count` episodes a scripted env plays (episodes cycle)"""
    eps = sc["episodes"]
    return [(sum(s["r4"] for s in eps[j % len(eps)]["steps"]), len(eps[j % len(eps)]["steps"])) for j in range(count)]


def _sum_close(got, want, case, f32=False):
    """reward sums: exact on the 1/4 grid; off the grid Monitor rounds to 6 digits (abs 1e-6 + float64 noise), VecMonitor accumulates in float32 (rel 1e-5)"""
    if case.get("reward_scale") is None:
        return got == want
    if f32:   # float32 accumulation: error relative to the magnitude of the rewards (|reward| <= 2*scale, episodes of at most ~30 steps), not of the sum
        return abs(got - want) <= 1e-5 * abs(want) + 1e-6 * 60 * abs(case["reward_scale"])
    return abs(got - want) <= 1e-6 + 1e-12 * abs(want)


def _rows_close(got, want, case, f32=False):
    return len(got) == len(want) and all(len(a) == len(b) and _sum_close(a[0], b[0], case, f32) and a[1:] == b[1:] for a, b in zip(got, want))


def _rows_multiset_close(got, want, case):
    """same rows up to order (and the reward tolerance)"""
    left = list(want)
    for g in got:
        hit = next((k for k, w in enumerate(left) if _rows_close([g], [w], case)), None)
        if hit is None:
            return False
        left.pop(hit)
    return not left


def compare_monitor(case, impl, mv):
    probs = []
    kw = case["info_keywords"]
    # ---- oracle, from the property text: rewards returned since the last reset that was carried out
    cur = {w: None for w in range(len(mon_scripts(case)))}      # None = not reset since construction / since the episode ended
    if not impl.get("empty_dir_raises", True):
        probs.append(("oracle-load-results-empty-directory", "load_results on a directory without monitor files did not raise LoadMonitorResultsError"))
    if not impl.get("dir_file_ok", True):
        probs.append(("oracle-monitor-directory-filename", "Monitor(filename=<existing directory>) did not write <directory>/monitor.csv"))
    expected_rows = []
    per_mon_eps = {w: [] for w in cur}
    last_kw = {}
    rkw = bool(case.get("reset_kw"))
    rows_before = {}
    for n, ev in enumerate(impl["events"]):
        rows_before[n] = list(expected_rows)
        w = ev["w"]
        if ev["op"] == "r_missing":
            refused_first = ev["out"] == "RuntimeError" and not case["allow"] and cur[w] is not None   # the early-reset refusal comes first
            if ev["out"] != "ValueError" and not refused_first:
                probs.append(("oracle-monitor-missing-reset-keyword-accepted", f"op {n}: reset() without the required keyword 'difficulty' did not raise ValueError"))
            continue
        if ev["op"] == "r":
            running = cur[w] is not None
            if ev["out"] == "err":
                if case["allow"] or not running:
                    probs.append(("oracle-monitor-reset-refused", f"op {n}: reset refused although allowed (allow_early_resets={case['allow']}, episode running={running})"))
            else:
                if not case["allow"] and running:
                    probs.append(("oracle-monitor-early-reset-accepted", f"op {n}: early reset accepted with allow_early_resets=False"))
                cur[w] = []
                last_kw[w] = ev.get("kw")
        else:
            if ev["out"] == "err":
                if cur[w] is not None:
                    probs.append(("oracle-monitor-step-refused", f"op {n}: step refused during a running episode"))
                continue
            if cur[w] is None:
                probs.append(("oracle-monitor-step-after-end", f"op {n}: step accepted although the env needs a reset"))
                cur[w] = []
            cur[w].append(ev["rew"])
            ended = ev["term"] or ev["trunc"]
            if ended:
                want = {"r": sum(cur[w]), "l": len(cur[w])}
                ep = ev["ep"]
                if ep is None:
                    probs.append(("oracle-monitor-episode-info-missing", f"op {n}: episode ended, no 'episode' entry in info"))
                else:
                    if not _sum_close(ep["r"], want["r"], case) or ep["l"] != want["l"]:
                        probs.append(("oracle-monitor-episode-info", f"op {n}: info episode r={ep['r']} l={ep['l']}, the episode that ended has sum={want['r']} steps={want['l']}"))
                    for key in kw:
                        if ep.get(key) != ev["info_" + key]:
                            probs.append(("oracle-monitor-info-keyword", f"op {n}: episode[{key}]={ep.get(key)} but info[{key}]={ev['info_' + key]}"))
                    if rkw and ep.get("difficulty") != last_kw.get(w):
                        probs.append(("oracle-monitor-reset-keyword", f"op {n}: episode[difficulty]={ep.get('difficulty')} but the last reset passed {last_kw.get(w)}"))
                expected_rows.append([want["r"], want["l"]] + [ev["info_" + key] for key in kw] + ([last_kw.get(w)] if rkw else []))
                per_mon_eps[w].append((want["r"], want["l"]))
                cur[w] = None
            elif ev["ep"] is not None:
                probs.append(("oracle-monitor-spurious-episode-info", f"op {n}: 'episode' entry on a step that does not end the episode"))
    for idx, got in impl.get("mid_rows", {}).items():
        want_mid = rows_before.get(int(idx), [])
        if isinstance(got, dict):
            probs.append(("oracle-monitor-file-unreadable-while-open", f"load_results before operation {idx} (monitors still open) raises {got['raised']}"))
        elif not _rows_close(got, want_mid, case):
            probs.append(("oracle-monitor-file-rows-while-open", f"load_results before operation {idx} (monitors still open) lists {got}, episodes finished so far {want_mid}"))
    if case.get("append") and not _rows_close(impl["rows"], expected_rows, case) and _rows_multiset_close(impl["rows"], expected_rows, case):
        # known class, precise predicate: a Monitor re-opened the file with override_existing=False; the rows are all there but load_results,
        # which sorts by t, lists the appended episodes (whose t restarts at the new monitor's start) among the earlier ones
        probs.append((APPEND_SIG, f"a Monitor appending to an existing file (override_existing=False) writes times relative to ITS start under the first header's t_start: "
                      f"load_results lists {[r[:2] for r in impl['rows']]}, the episodes ended in the order {[r[:2] for r in expected_rows]}"))
    elif not _rows_close(impl["rows"], expected_rows, case):
        probs.append(("oracle-monitor-file-rows", f"load_results rows {impl['rows']} != episodes that ended, in order {expected_rows}"))
    for w, st in enumerate(impl["stats"]):
        if not _rows_close([list(x) for x in zip(st["returns"], st["lengths"])], [list(x) for x in per_mon_eps[w]], case):
            probs.append(("oracle-monitor-getters", f"monitor {w}: get_episode_rewards/lengths {list(zip(st['returns'], st['lengths']))} != {per_mon_eps[w]}"))
        tms = st["times"]
        if len(tms) != len(per_mon_eps[w]) or any(b <= a for a, b in zip(tms, tms[1:])) or any(t <= 0 for t in tms):
            probs.append(("oracle-monitor-episode-times", f"monitor {w}: get_episode_times {tms} is not one increasing positive time per episode"))
    # ---- model vs impl
    if case.get("reward_scale") is not None:
        return probs
    merged = mv[len(mon_scripts(case))]
    if not case.get("append") and [tuple(r) for r in merged] != [(_q(r[0]), r[1]) for r in impl["rows"]]:
        probs.append(("monitor-load-results-merge", f"load_results rows {[r[:2] for r in impl['rows']]}, Model.Monitor.load_results_model on the raw files {merged}"))
    for w in range(len(mon_scripts(case))):
        outs, rows, total = mv[w]
        evs = [ev for ev in impl["events"] if ev["w"] == w and ev["op"] != "r_missing"]
        if len(outs) != len(evs):
            probs.append(("monitor-model-length", f"monitor {w}: {len(outs)} model outputs for {len(evs)} operations"))
            continue
        for n, (o, ev) in enumerate(zip(outs, evs)):
            if ev["out"] == "err":
                got = "MErrReset" if ev["op"] == "r" else "MErrStep"
            elif ev["op"] == "r":
                got = "MResetOk"
            else:
                got = ("MInfo", None if ev["ep"] is None else ("Some", (_q(ev["ep"]["r"]), ev["ep"]["l"])))
            if o != got:
                probs.append(("monitor-op-output", f"monitor {w} op {n}: impl {got} model {o}"))
        impl_rows = [(_q(r), l) for r, l in zip(impl["stats"][w]["returns"], impl["stats"][w]["lengths"])]
        if [tuple(r) for r in rows] != impl_rows:
            probs.append(("monitor-rows", f"monitor {w}: model rows {rows} impl episodes {impl_rows}"))
        if total != impl["stats"][w]["total_steps"]:
            probs.append(("monitor-total-steps", f"monitor {w}: total_steps impl {impl['stats'][w]['total_steps']} model {total}"))
    if len(mon_scripts(case)) == 1:
        if [(_q(r[0]), r[1]) for r in impl["rows"]] != [tuple(r) for r in mv[0][1]]:
            probs.append(("monitor-file-rows", f"load_results rows {impl['rows']} model {mv[0][1]}"))
    return probs


def compare_vecmon(case, impl, mv):
    probs = []
    if impl.get("warned_double") is not None and impl["warned_double"] != bool(case.get("inner_monitor")):
        probs.append(("oracle-vecmonitor-double-wrap-warning", f"warning about an inner Monitor issued={impl['warned_double']} with inner Monitor={bool(case.get('inner_monitor'))}"))
    k = len(case["scripts"])
    kw = case["info_keywords"]
    cur = [[] for _ in range(k)]
    expected_rows = []
    for n, ev in enumerate(impl["events"]):
        if ev["op"] == "r":
            cur = [[] for _ in range(k)]
            continue
        for i in range(k):
            cur[i].append(ev["rews"][i])
            ep = ev["eps"][i]
            if ev["dones"][i]:
                want = (sum(cur[i]), len(cur[i]))
                if ep is None:
                    probs.append(("oracle-vecmonitor-episode-info-missing", f"op {n} env {i}: done without 'episode' entry"))
                else:
                    if not _sum_close(ep["r"], want[0], case, f32=True) or ep["l"] != want[1]:
                        probs.append(("oracle-vecmonitor-episode-info", f"op {n} env {i}: info episode r={ep['r']} l={ep['l']}, the episode that ended has sum={want[0]} steps={want[1]}"))
                    extra = {"tag": ev["tags"][i], "k1": ev["k1"][i]}
                    for key in kw:
                        if ep.get(key) != extra[key]:
                            probs.append(("oracle-vecmonitor-info-keyword", f"op {n} env {i}: episode[{key}]={ep.get(key)} info[{key}]={extra[key]}"))
                    expected_rows.append([want[0], want[1]] + [extra[key] for key in kw])
                cur[i] = []
            elif ep is not None:
                probs.append(("oracle-vecmonitor-spurious-episode-info", f"op {n} env {i}: 'episode' entry without done"))
    if not _rows_close(impl["rows"], expected_rows, case, f32=True):
        probs.append(("oracle-vecmonitor-file-rows", f"load_results rows {impl['rows']} != episodes that ended, in order {expected_rows}"))
    if case.get("reward_scale") is not None:
        return probs
    rows, outs = mv[0]
    if len(outs) != len(impl["events"]):
        probs.append(("vecmonitor-model-length", f"{len(outs)} model outputs for {len(impl['events'])} operations"))
        return probs
    for n, (o, ev) in enumerate(zip(outs, impl["events"])):
        got = [None] * k if ev["op"] == "r" else [None if ep is None else ("Some", (_q(ep["r"]), ep["l"])) for ep in ev["eps"]]
        if list(o) != got:
            probs.append(("vecmonitor-step-infos", f"op {n}: impl {got} model {o}"))
    if [tuple(r) for r in rows] != [(_q(r[0]), r[1]) for r in impl["rows"]]:
        probs.append(("vecmonitor-file-rows", f"load_results rows {impl['rows']} model {rows}"))
    return probs


def compare_eval(case, impl, mv):
    probs = []
    k, n = len(case["scripts"]), case["n"]
    if "runaway" in impl:
        return [("oracle-evaluate-does-not-stop", f"evaluate_policy still running after {impl['runaway']} vector steps although every sub-environment "
                 f"completed its share of the {n} episodes long before")]
    rs, ls = impl["rs"], impl["ls"]
    # ---- oracle
    if len(rs) != n or len(ls) != n:
        probs.append(("oracle-evaluate-count", f"returned {len(rs)} returns / {len(ls)} lengths for n_eval_episodes={n}"))
    # attribution of every result to a sub-environment through the callback trace
    owner = []
    calls = impl["calls"] + [(-1, len(rs))]
    for (i, before), (_, after) in zip(calls, calls[1:]):
        owner += [i] * (after - before)
    if len(owner) != len(rs):
        probs.append(("oracle-evaluate-attribution", "results were appended outside the per-env loop body"))
    else:
        counts = [owner.count(i) for i in range(k)]
        if sum(counts) != n or max(counts) - min(counts) > 1:
            probs.append(("oracle-evaluate-uneven-split", f"episodes per sub-environment {counts} for n={n}: not as even as possible"))
        for i in range(k):
            mine = [(rs[j] * 4.0, ls[j]) for j in range(len(rs)) if owner[j] == i]
            truth = [(float(a), b) for a, b in script_episodes(case["scripts"][i], len(mine))]
            if mine != truth:
                probs.append(("oracle-evaluate-episode-values", f"env {i}: returned (4*return, length) {mine}, its first {len(mine)} episodes are {truth}"))
    # summary form: mean and (population) standard deviation of exactly those returns; warning iff no monitor; threshold assertion
    if "mean" in impl and len(rs) == n:
        from fractions import Fraction as Fr
        m = sum(Fr(x) for x in rs) / n
        var = sum((Fr(x) - m) ** 2 for x in rs) / n
        tol = 1e-6 if case["mode"] in (2, 4) else 1e-9   # VecMonitor reports float32 returns: np.mean / np.std then work in float32
        if abs(impl["mean"] - float(m)) > tol * max(1.0, abs(float(m))) or abs(impl["std"] - float(var) ** 0.5) > tol * max(1.0, float(var) ** 0.5):
            probs.append(("oracle-evaluate-mean-std", f"mean/std {impl['mean']!r}/{impl['std']!r}, the {n} episode returns have {float(m)!r}/{float(var) ** 0.5!r}"))
        if impl["warned"] != (case["mode"] == 0):
            probs.append(("oracle-evaluate-monitor-warning", f"warning about the missing Monitor wrapper issued={impl['warned']} with monitor mode {case['mode']}"))
        if "threshold_raised" in impl and impl["threshold_raised"] != (not float(m) > case["threshold"]):
            probs.append(("oracle-evaluate-reward-threshold", f"reward_threshold={case['threshold']} mean={float(m)}: AssertionError raised={impl['threshold_raised']}"))
    # ---- model vs impl
    eps, tags, halted = mv[0]
    if not halted:
        probs.append(("evaluate-model-not-halted", f"model loop did not stop within {impl['steps'] + 3} vector steps (impl took {impl['steps']})"))
    got = [(_q(r), l) for r, l in zip(rs, ls)]
    if [tuple(e) for e in eps] != got:
        probs.append(("evaluate-results", f"impl {got} model {eps}"))
    elif len(owner) == len(rs) and list(tags) != owner:
        probs.append(("evaluate-attribution", f"impl owners {owner} model {tags}"))
    return probs


COMPARE = {"monitor": compare_monitor, "vecmon": compare_vecmon, "eval": compare_eval}


def nontrivial(case, impl):
    if "raised" in impl:
        return False
    if case["kind"] == "monitor":
        evs = impl["events"]
        ended = sum(1 for e in evs if e["op"] == "s" and e["out"] == "ok" and (e["term"] or e["trunc"]))
        refused = any(e["out"] == "err" for e in evs)
        # an accepted reset while an episode was running
        running, early = {}, False
        for e in evs:
            if e["out"] != "ok":
                continue
            if e["op"] == "r":
                early |= running.get(e["w"], 0) > 0
                running[e["w"]] = 0
            else:
                running[e["w"]] = 0 if (e["term"] or e["trunc"]) else running.get(e["w"], 0) + 1
        return ended >= 1 and (refused or early)
    if case["kind"] == "vecmon":
        evs = [e for e in impl["events"] if e["op"] == "s"]
        n_done = sum(sum(e["dones"]) for e in evs)
        return n_done >= 2 and (len(case["scripts"]) >= 2 or sum(1 for o in case["ops"] if o == "r") >= 2)
    k, n = len(case["scripts"]), case["n"]
    lens = {len(e["steps"]) for sc in case["scripts"] for e in sc["episodes"]}
    return k >= 2 and len(lens) >= 2 and (n % k != 0 or n < k)


def _safe(fn, *args):
    """a call into the implementation (or a decoder of what it returned): an exception is a finding about this input, not a crash of the check"""
    try:
        return fn(*args)
    except Exception as e:  # noqa: BLE001
        import traceback

        tb = traceback.extract_tb(e.__traceback__)
        where = next((f"{os.path.basename(f.filename)}:{f.lineno}" for f in reversed(tb) if "/stable_baselines3/" in f.filename), "harness")
        return {"raised": f"{type(e).__name__}: {e} (at {where})", "traceback": traceback.format_exc()[-2500:]}


RAISED_SIG = "oracle-implementation-raised"


def run_cases(chk, cases):
    impls = [_safe(RUN[c["kind"]], c) for c in cases]
    exprs, spans = [], []
    for c, im in zip(cases, impls):
        e = ["true"] if "raised" in im else _safe(model_exprs, c, im)
        if isinstance(e, dict):        # the output could not even be turned into a model query
            im.update(e)
            e = ["true"]
        spans.append((len(exprs), len(exprs) + len(e)))
        exprs += e
    vals = common.coq_eval_many(chk.pid, HEADER, exprs, shard=150, procs=4)
    results = []
    for c, im, (a, b) in zip(cases, impls, spans):
        if "raised" in im:
            results.append([(RAISED_SIG, "the implementation raises (or returns something unusable) on a legal input: " + im["raised"])])
            continue
        r = _safe(COMPARE[c["kind"]], c, im, vals[a:b])
        if isinstance(r, dict):
            im.update(r)
            r = [(RAISED_SIG, "the implementation's output cannot be compared (unexpected shape / missing value): " + r["raised"])]
        results.append(r)
    return impls, results


def main():
    chk = Check("C18", groups=["monitor"])
    chk.build_props()
    from harness import c18_branchcov

    cov = c18_branchcov.maybe_start(COV_TARGETS)   # VERIF_BRANCHCOV=1: which lines of the anchored functions this run executes
    n_cases = 1050 if chk.tier == "quick" else 9000
    cases = []
    corpus = os.path.join(common.VERIF, "corpus", "C18.jsonl")
    if os.path.exists(corpus):
        cases += [json.loads(l) for l in open(corpus) if l.strip()]
    n_corpus = len(cases)
    for i in range(n_cases):
        cases.append(gen_case(chk.rng, i))
    impls, results = run_cases(chk, cases)
    distinct = set()
    hist = {"monitor": 0, "monitor_two_files": 0, "monitor_clock_gap": {}, "monitor_no_early_resets": 0, "vecmon": 0, "eval": 0, "eval_mode": {"0": 0, "1": 0, "2": 0, "3": 0, "4": 0, "5": 0}, "eval_raw_env": 0, "monitor_append": 0, "monitor_dir_filename": 0, "vecmon_inner_monitor": 0, "off_grid_rewards": 0,
            "eval_n_lt_envs": 0, "n_envs": {}, "info_keywords": {}}
    reported, queue = set(), []
    for c, im, probs in zip(cases, impls, results):
        hist[c["kind"]] += 1
        hist["off_grid_rewards"] += int(c.get("reward_scale") is not None)
        hist["eval_raw_env"] += int(bool(c.get("raw_env")))
        hist["monitor_append"] += int(bool(c.get("append")))
        hist["monitor_dir_filename"] += int(bool(c.get("dir_filename")))
        hist["vecmon_inner_monitor"] += int(bool(c.get("inner_monitor")))
        if c["kind"] == "monitor":
            hist["monitor_two_files"] += int(len(c["scripts"]) >= 2)
            if len(c["scripts"]) >= 2:
                g = str(c.get("clock_gap", 0))
                hist["monitor_clock_gap"][g] = hist["monitor_clock_gap"].get(g, 0) + 1
            hist["monitor_no_early_resets"] += int(not c["allow"])
        if c["kind"] == "eval":
            hist["eval_mode"][str(c["mode"])] += 1
            hist["eval_n_lt_envs"] += int(c["n"] < len(c["scripts"]))
        if c["kind"] != "monitor":
            kk = str(len(c["scripts"]))
            hist["n_envs"][kk] = hist["n_envs"].get(kk, 0) + 1
        if "info_keywords" in c:
            key = ",".join(c["info_keywords"]) or "-"
            hist["info_keywords"][key] = hist["info_keywords"].get(key, 0) + 1
        if nontrivial(c, im):
            distinct.add(json.dumps({k: c[k] for k in c if k != "id"}, sort_keys=True))
        if probs:
            oracle_bad = [p for p in probs if p[0].startswith("oracle-") or p[0] == APPEND_SIG]   # (RAISED_SIG starts with oracle-)
            sig = oracle_bad[0][0] if oracle_bad else "model-correspondence-" + probs[0][0]
            if sig in reported:
                continue
            reported.add(sig)
            queue.append((sig, "; ".join(m for _, m in (oracle_bad or probs)[:3]),
                          {"case": c, "problems": probs[:10], "traceback": im.get("traceback"),
                           "correspondence": "harness/c18.py vs Model.Monitor.mon_env_run / vm_scripted_run / Model.Evaluate.evaluate_scripted"},
                          bool(oracle_bad)))
    # statement-level oracle failures (concrete failing inputs) are reported first; model-only disagreements go into the remaining slots
    emitted = 0
    for q_sig, q_msg, q_replay, q_found in sorted(queue, key=lambda q: not q[3]):
        if q_sig not in {APPEND_SIG}:
            if emitted >= 3:
                continue
            emitted += 1
        chk.violation(q_sig, q_msg, q_replay, found_input=q_found)
    chk.coverage["evaluations"] = len(cases)
    chk.coverage["traces_validated_against_impl"] = len(cases)
    chk.coverage["distinct_nontrivial"] = len(distinct)
    chk.coverage["rule"] = ("three streams over scripted environments (rewards multiples of 0.25): Monitor step/reset histories of 1-26 ops (early resets allowed or refused, 20% with two "
                            "monitors writing into one directory), VecMonitor with 1-4 sub-environments and vector resets, evaluate_policy with 1-6 sub-environments x n_eval_episodes "
                            "1-15 x {no monitor, Monitor, VecMonitor}. Non-trivial = (Monitor) an episode ended and an operation was refused or an early reset was accepted; "
                            "(VecMonitor) >= 2 episode ends with >= 2 sub-environments or >= 2 vector resets; (evaluate) >= 2 sub-environments, unequal episode lengths and "
                            "n not a multiple of n_envs or n < n_envs. distinct = distinct full case description")
    chk.notes["input_distribution"] = hist
    chk.notes["corpus_cases"] = n_corpus
    chk.add_samples([{k: v for k, v in cases[i].items() if k != "scripts"} | {"n_scripts": len(cases[i]["scripts"])}
                     for i in (n_corpus, n_corpus + 1, n_corpus + 2) if i < len(cases)])
    chk.assumptions += [
        "the wall-clock column t is not checked; time.time in monitor.py / vec_monitor.py is replaced by a strictly increasing fake clock (harness process only)",
        "rewards are multiples of 0.25 with |sum| small: float32/float64 accumulation and round(., 6) are exact on them; other floats are not modelled",
        "pandas.read_csv inside load_results is exercised, not modelled",
        "evaluate_policy's results are attributed to sub-environments through its callback hook (locals()['i'] and the length of episode_rewards)",
    ]
    if cov is not None:
        chk.notes["branch_coverage"] = cov.report()
    return chk.finish()


def replay(path):
    d = json.load(open(path))
    case = d["replay"]["case"] if "replay" in d else d
    chk = Check("C18", groups=["monitor"])
    impls, results = run_cases(chk, [case])
    print(json.dumps({"problems": results[0]}, indent=1))
    return 1 if results[0] else 0
