"""C16 - hindsight relabelling is sound.

Proof side:  Props/C16.v (segment invariant of the episode bookkeeping for every capacity and every
             history of adds / truncations / pickle round trips; goal index soundness for the three
             strategies; relabelled share; ties to the statements regenerated from her_replay_buffer.py).
Tie:         real HerReplayBuffer on a scripted GoalEnv with uniquely tagged observations / goals and
             compute_reward = a tag pairing.  At every observation point ALL sampleable (slot, env)
             cells are pushed through _get_real_samples and - for every in-episode goal position of
             the range the code itself passes to np.random.randint - through _get_virtual_samples;
             an ordinary sample() with recorded np.random.choice / randint draws is checked against
             that table.  The same op list is evaluated by Model.Her.hhrun inside coqc; validity,
             ep_start / ep_length, goal ranges and every sample are compared exactly.
Oracle:      written from the property text, independent of the model, from the harness's own log of
             transitions and episodes.  Over-invalidation (lost data) is not a violation.
"""
from __future__ import annotations

import json
import os

from harness import common
from harness.common import Check, coq_Z, coq_bool, coq_list

REGISTRY = dict(
    text=("Proof (unbounded): after any history of add / truncate_last_trajectory / pickle round trips, for every capacity, n_envs and episode-length sequence (episodes wrapping the ring and "
          "longer than it included), every sampleable slot lies in a recorded segment whose slots hold consecutive, not overwritten transitions of one finished episode ending at the segment's last slot; "
          "the goal slot of every admissible draw of 'future' / 'final' / 'episode' is in that same episode (at or after the transition / its last transition / any); a relabelled sample (model definition, tied to _get_virtual_samples by picked fragments - goal source key, compute_reward argument order, both desired_goal writes - and by the exhaustive correspondence) keeps obs, action, "
          "next obs, done, replaces the desired goal identically in obs and next obs, reward = compute_reward(next achieved, new goal); the relabelled share is floor(n*B/(n+1)); real samples obey the ring law of C03 (one add among the last capacity, slot = add mod capacity); "
          "candidates = exactly the sampleable cells, relabelled + real = batch size. "
          "Tie: bookkeeping arithmetic, goal index expressions and the share formula are regenerated from her_replay_buffer.py on every run + exhaustive sample-table correspondence."),
    note=("Trusted: Coq 8.16.1 kernel (vm_compute, no native_compute), translate/py2coq.py + specs/her.py, harness/c16.py, Python/numpy/torch/gymnasium. "
          "Not verified: numpy fancy indexing and negative indexing (pos - 1 at pos = 0), np.arange, VecEnv.env_method, pickle (covered by the correspondence only); "
          "float evaluation of int((1 - 1/(n+1)) * B) is compared with the integer law exhaustively for n <= 64, B <= 2048 on every run. "
          "Lost data (over-invalidation: episodes whose length is a multiple of the capacity, the head of episodes longer than the ring) is not forbidden by the property and is not reported. "
          "No finding. BaseBuffer.reset() on a HER buffer is outside the property's quantifier (lead's ruling): generators and corpus never call it; the observation is described in docs/C16.md. "
          "All C16 theorems are closed under the global context (no axioms)."),
    technique="machine-checked proof in Coq (ring-segment invariant by induction over the history) + regenerated-fragment interface lemmas + differential correspondence with exhaustive goal enumeration",
)

COV_FUNCS = ['stable_baselines3.her.her_replay_buffer:HerReplayBuffer.__init__',
             'stable_baselines3.her.her_replay_buffer:HerReplayBuffer.__getstate__',
             'stable_baselines3.her.her_replay_buffer:HerReplayBuffer.__setstate__',
             'stable_baselines3.her.her_replay_buffer:HerReplayBuffer.set_env',
             'stable_baselines3.her.her_replay_buffer:HerReplayBuffer.add',
             'stable_baselines3.her.her_replay_buffer:HerReplayBuffer._compute_episode_length',
             'stable_baselines3.her.her_replay_buffer:HerReplayBuffer.sample',
             'stable_baselines3.her.her_replay_buffer:HerReplayBuffer._get_real_samples',
             'stable_baselines3.her.her_replay_buffer:HerReplayBuffer._get_virtual_samples',
             'stable_baselines3.her.her_replay_buffer:HerReplayBuffer._sample_goals',
             'stable_baselines3.her.her_replay_buffer:HerReplayBuffer.truncate_last_trajectory']

HEADER = """From Coq Require Import List ZArith Bool.
From SB3V Require Import Model.Replay Model.Her.
Import ListNotations.
Local Open Scope Z_scope.
"""

STRATS = {"future": "Future", "final": "Final", "episode": "Episode"}
GOAL_TAG_MAX = 511
INFO_MOD = 61


# ---------------------------------------------------------------- environment and codecs

def make_spaces(case):
    import numpy as np
    from gymnasium import spaces

    ok = case["obs_kind"]
    if ok == "box3":
        o = spaces.Box(-1e5, 1e5, (3,), dtype=np.float32)
    elif ok == "box22":
        o = spaces.Box(-1e5, 1e5, (2, 2), dtype=np.float32)
    else:
        o = spaces.Discrete(100000)
    g = lambda: spaces.Box(-1e5, 1e5, (case["goal_dim"],), dtype=np.float32)  # noqa: E731
    obs = spaces.Dict({"observation": o, "achieved_goal": g(), "desired_goal": g()})
    act = spaces.Box(-1e5, 1e5, (2,), dtype=np.float32) if case["act_kind"] == "box" else spaces.Discrete(100000)
    return obs, act


def make_venv(case, obs_sp, act_sp):
    import gymnasium as gym
    import numpy as np

    from stable_baselines3.common.vec_env import DummyVecEnv

    class GoalEnv(gym.Env):
        observation_space, action_space = obs_sp, act_sp

        def reset(self, *, seed=None, options=None):
            return obs_sp.sample(), {}

        def step(self, a):
            return obs_sp.sample(), 0.0, False, False, {}

        def compute_reward(self, achieved_goal, desired_goal, info):
            a = np.asarray(achieved_goal, dtype=np.float64)
            d = np.asarray(desired_goal, dtype=np.float64)
            if len(a) == 0:
                return np.zeros(0)
            a, d = a.reshape(len(a), -1), d.reshape(len(d), -1)
            assert (a == a[:, :1]).all() and (d == d[:, :1]).all(), "mixed goal tags handed to compute_reward"
            it = np.array([float(i.get("tag", 0)) for i in info]) if len(info) else np.zeros(len(a))
            return it * 262144.0 + a[:, 0] * 512.0 + d[:, 0]

    return DummyVecEnv([GoalEnv] * case["n_envs"])


def enc(space, tags):
    import numpy as np
    from gymnasium import spaces

    if isinstance(space, spaces.Discrete):
        return np.array([int(t) for t in tags], dtype=np.int64)
    return np.stack([np.full(space.shape, t, dtype=space.dtype) for t in tags])


def dec(arr):
    """tag of one sampled leaf (all cells must agree)"""
    import numpy as np

    flat = np.asarray(arr).reshape(-1)
    v = np.unique(flat)
    if len(v) != 1 or float(v[0]) != int(v[0]):
        raise ValueError(f"mixed leaf {flat.tolist()}")
    return int(v[0])


def tuples9(s):
    """DictReplayBufferSamples -> list of (obs, ach, des, act, nobs, nach, ndes, done, reward)"""
    o = {k: v.numpy() for k, v in s.observations.items()}
    n = {k: v.numpy() for k, v in s.next_observations.items()}
    a, d, r = s.actions.numpy(), s.dones.numpy(), s.rewards.numpy()
    out = []
    for j in range(len(a)):
        dv, rv = float(d[j, 0]), float(r[j, 0])
        out.append([dec(o["observation"][j]), dec(o["achieved_goal"][j]), dec(o["desired_goal"][j]), dec(a[j]),
                    dec(n["observation"][j]), dec(n["achieved_goal"][j]), dec(n["desired_goal"][j]),
                    int(dv) if dv == int(dv) else dv, int(rv) if rv == int(rv) else rv])
    return out


# ---------------------------------------------------------------- generator

def gen_case(rng, i):
    n_envs = rng.choice([1, 1, 2, 3])
    cap = rng.choice([1, 2, 2, 3, 3, 4, 5, 6, 8, rng.randint(1, 12)])
    buffer_size = cap * n_envs + rng.randint(0, n_envs - 1)
    case = {"id": i, "buffer_size": buffer_size, "n_envs": n_envs, "hto": rng.random() < 0.6,
            "strategy": rng.choice(["future", "future", "final", "episode"]), "n_sampled_goal": rng.choice([0, 1, 2, 4, 4, 8, rng.randint(1, 8)]),
            "strategy_spelling": rng.choice(["lower", "lower", "UPPER", "enum"]),
            "copy_info": rng.random() < 0.4, "vecnorm": rng.random() < 0.25,
            "obs_kind": rng.choice(["box3", "box22", "discrete"]), "goal_dim": rng.choice([1, 2]), "act_kind": rng.choice(["box", "discrete"])}
    style = rng.choice(["short", "mixed", "long", "exact", "straddle", "straddle"])
    fresh_goal = [0]
    fresh_obs = [0]

    def goal_tag():
        fresh_goal[0] += 1
        return fresh_goal[0]

    def obs_tag():
        fresh_obs[0] += 1
        return fresh_obs[0]

    def ep_len():
        if style == "short":
            return rng.randint(1, max(1, cap // 2 + 1))
        if style == "long":
            return rng.randint(cap, 2 * cap + 3)
        if style == "exact":
            return rng.choice([cap, 2 * cap, cap + 1, max(1, cap - 1), 1])
        if style == "straddle":
            # lengths just below the capacity: almost every episode wraps the ring end and is overwritten on the next lap
            return rng.randint(max(1, cap // 2), max(1, cap - 1))
        return rng.randint(1, 2 * cap + 3)

    # per env running episode: remaining steps, current obs / achieved / desired tags
    run = [None] * n_envs
    ops = []
    uid = 0
    n_ops = rng.choice([rng.randint(2, 12), rng.randint(10, 40), rng.randint(30, 90)])
    if style == "straddle":
        n_ops = max(n_ops, 4 * cap + 6)            # at least three laps of the ring
    p_obs = rng.choice([0.08, 0.2, 0.35])
    for _ in range(n_ops):
        x = rng.random()
        if x < p_obs:
            ops.append({"op": "obs", "batch": rng.randint(1, 40)})
        elif x < p_obs + 0.04:
            ops.append({"op": "pickle"})
            if rng.random() < 0.5:
                ops.append({"op": "trunc"})
                run = [None] * n_envs          # every interrupted episode is over; the next add starts a new one
        elif x < p_obs + 0.06:
            ops.append({"op": "trunc"})
            run = [None] * n_envs
        else:
            if fresh_goal[0] + 3 * n_envs > GOAL_TAG_MAX:
                break
            row = []
            for e in range(n_envs):
                if run[e] is None:
                    run[e] = {"left": ep_len(), "obs": obs_tag(), "ach": goal_tag(), "des": goal_tag()}
                r = run[e]
                uid += 1
                nobs, nach = obs_tag(), goal_tag()
                r["left"] -= 1
                done = r["left"] == 0
                to = done and rng.random() < 0.5
                row.append([r["obs"], r["ach"], r["des"], nobs, nach, r["des"], uid, uid, done, to, uid % INFO_MOD + 1])
                if done:
                    run[e] = None
                else:
                    r["obs"], r["ach"] = nobs, nach
            ops.append({"op": "add", "row": row})
    ops.append({"op": "obs", "batch": rng.randint(1, 40)})
    case["ops"] = ops
    return case


# ---------------------------------------------------------------- implementation run

def _spell(case):
    """the three documented ways of naming the strategy: lower-case string, any-case string, enum member"""
    from stable_baselines3.her.goal_selection_strategy import KEY_TO_GOAL_STRATEGY

    sp = case.get("strategy_spelling", "lower")
    return KEY_TO_GOAL_STRATEGY[case["strategy"]] if sp == "enum" else (case["strategy"].upper() if sp == "UPPER" else case["strategy"])


def run_impl(case):
    import pickle

    import numpy as np
    import torch as th

    from stable_baselines3.common.vec_env import VecNormalize
    from stable_baselines3.her.her_replay_buffer import HerReplayBuffer

    th.set_num_threads(1)
    np.random.seed(case["id"] % (2 ** 31))       # the ordinary sample() calls draw from numpy's global generator
    obs_sp, act_sp = make_spaces(case)
    venv = make_venv(case, obs_sp, act_sp)
    n = case["n_envs"]
    buf = HerReplayBuffer(case["buffer_size"], obs_sp, act_sp, env=venv, device="cpu", n_envs=n,
                          handle_timeout_termination=case["hto"], n_sampled_goal=case["n_sampled_goal"],
                          goal_selection_strategy=_spell(case), copy_info_dict=case["copy_info"])
    vn = None
    if case.get("vecnorm"):
        from gymnasium import spaces

        keys = [k for k, s in obs_sp.spaces.items() if isinstance(s, spaces.Box)]
        vn = VecNormalize(venv, norm_obs_keys=keys, clip_obs=1e6, clip_reward=1e9)
        rs = np.random.RandomState(case["id"] % 997)
        for rms in vn.obs_rms.values():
            rms.mean = rs.uniform(-5, 5, rms.mean.shape)
            rms.var = rs.uniform(0.5, 9, rms.var.shape)
        vn.ret_rms.var = np.float64(4.0)
    out = {"capacity": int(buf.buffer_size), "her_ratio": float(buf.her_ratio), "obs": [], "states": []}
    o_rand, o_choice = np.random.randint, np.random.choice
    try:
        for op in case["ops"]:
            if op["op"] == "add":
                row = op["row"]
                obs = {"observation": enc(obs_sp["observation"], [t[0] for t in row]), "achieved_goal": enc(obs_sp["achieved_goal"], [t[1] for t in row]),
                       "desired_goal": enc(obs_sp["desired_goal"], [t[2] for t in row])}
                nxt = {"observation": enc(obs_sp["observation"], [t[3] for t in row]), "achieved_goal": enc(obs_sp["achieved_goal"], [t[4] for t in row]),
                       "desired_goal": enc(obs_sp["desired_goal"], [t[5] for t in row])}
                infos = [({"TimeLimit.truncated": True, "tag": t[10]} if t[9] else {"tag": t[10]}) for t in row]
                buf.add(obs, nxt, enc(act_sp, [t[6] for t in row]), np.array([t[7] for t in row], dtype=np.float32),
                        np.array([bool(t[8]) for t in row]), infos)
            elif op["op"] == "trunc":
                import warnings

                with warnings.catch_warnings():
                    warnings.simplefilter("ignore")
                    buf.truncate_last_trajectory()
            elif op["op"] == "reset":
                buf.reset()
            elif op["op"] == "pickle":
                buf = pickle.loads(pickle.dumps(buf))
                if buf.env is not None:
                    out.setdefault("problems", []).append("pickled buffer kept an env")
                buf.set_env(venv)
            else:
                out["obs"].append(observe(buf, case, op, vn, o_rand, o_choice))
            if op["op"] != "obs":
                # what the buffer considers sampleable right now: (slot, env, ep_start, ep_length) of every cell with ep_length > 0
                vi, ve = np.nonzero(buf.ep_length > 0)
                out["states"].append([[int(i), int(e), int(buf.ep_start[i, e]), int(buf.ep_length[i, e])] for i, e in zip(vi, ve)])
    finally:
        np.random.randint, np.random.choice = o_rand, o_choice
    return out


def observe(buf, case, op, vn, o_rand, o_choice):
    import numpy as np

    n = case["n_envs"]
    rec = {"pos": int(buf.pos), "full": bool(buf.full), "cur": [int(x) for x in buf._current_ep_start], "problems": []}
    valid = np.flatnonzero(buf.ep_length > 0)
    rec["valid"] = [int(v) for v in valid]
    bi, ei = np.unravel_index(valid, buf.ep_length.shape)
    rec["cells"] = []
    if len(valid):
        real = tuples9(buf._get_real_samples(bi, ei))
        # phase 1: which range does the code pass to randint for every cell?
        calls = []

        def stub1(low, high=None, *a, **k):
            calls.append((np.array(low) + np.zeros(len(bi), dtype=np.int64), np.array(high)))
            return np.array(low) + np.zeros(len(bi), dtype=np.int64)

        np.random.randint = stub1
        try:
            v_lo = tuples9(buf._get_virtual_samples(bi, ei))
        finally:
            np.random.randint = o_rand
        if case["strategy"] == "final":
            if calls:
                rec["problems"].append("strategy 'final' drew random numbers")
            lo = [int(buf.ep_length[i, e]) - 1 for i, e in zip(bi, ei)]
            hi = [l + 1 for l in lo]
        else:
            if len(calls) != 1:
                rec["problems"].append(f"_sample_goals made {len(calls)} randint calls, expected 1")
            lo, hi = [int(x) for x in calls[0][0]], [int(x) for x in calls[0][1]]
        # phase 2: every admissible goal position of every cell
        xb, xe, xk = [], [], []
        for j in range(len(bi)):
            for kk in range(lo[j], hi[j]):
                xb.append(bi[j]); xe.append(ei[j]); xk.append(kk)   # noqa: E702
        virt = [[] for _ in bi]
        if xb and case["strategy"] != "final":
            xb_, xe_, xk_ = np.array(xb), np.array(xe), np.array(xk, dtype=np.int64)

            def stub2(low, high=None, *a, **k):
                return xk_

            np.random.randint = stub2
            try:
                allv = tuples9(buf._get_virtual_samples(xb_, xe_))
            finally:
                np.random.randint = o_rand
            pos = 0
            for j in range(len(bi)):
                cnt = max(hi[j] - lo[j], 0)
                virt[j] = allv[pos:pos + cnt]
                pos += cnt
        elif case["strategy"] == "final":
            virt = [[v] for v in v_lo]
        for j in range(len(bi)):
            rec["cells"].append({"i": int(bi[j]), "e": int(ei[j]), "st": int(buf.ep_start[bi[j], ei[j]]), "ln": int(buf.ep_length[bi[j], ei[j]]),
                                 "real": real[j], "lo": lo[j], "hi": hi[j], "virt": virt[j]})
    # ---- an ordinary sample() with recorded draws
    B = op["batch"]
    log = {"choice": [], "randint": []}

    def rec_choice(a, size=None, replace=True, p=None):
        r = o_choice(a, size=size, replace=replace, p=p)
        log["choice"].append(([int(x) for x in np.asarray(a).reshape(-1)], [int(x) for x in np.asarray(r).reshape(-1)], bool(replace)))
        return r

    def rec_randint(low, high=None, *a, **k):
        r = o_rand(low, high, *a, **k)
        log["randint"].append(([int(x) for x in np.asarray(low).reshape(-1)], [int(x) for x in np.asarray(high).reshape(-1)], [int(x) for x in np.asarray(r).reshape(-1)]))
        return r

    np.random.choice, np.random.randint = rec_choice, rec_randint
    state = np.random.get_state()
    try:
        try:
            s = buf.sample(B)
            rec["sample"] = tuples9(s)
        except RuntimeError as e:
            rec["sample_err"] = str(e)[:60]
        except ValueError as e:
            rec["sample_err"] = str(e)[:60]
            rec["problems"].append(f"sample({B}) raised ValueError: {e} (goal draw range of a sampleable cell is empty)")
        if vn is not None and "sample" in rec:
            log2 = {"choice": list(log["choice"]), "randint": list(log["randint"])}
            np.random.set_state(state)               # same draws again, now normalised
            s2 = buf.sample(B, env=vn)
            log["choice"], log["randint"] = log2["choice"], log2["randint"]
            rec["problems"] += check_norm(vn, s, s2)
    finally:
        np.random.choice, np.random.randint = o_choice, o_rand
    rec["log"] = log
    return rec


def check_norm(vn, raw, nrm):
    import numpy as np

    probs = []
    ro = {k: v.numpy() for k, v in raw.observations.items()}
    rn = {k: v.numpy() for k, v in raw.next_observations.items()}
    eo, en = vn.normalize_obs(ro), vn.normalize_obs(rn)
    for k in ro:
        if not np.array_equal(np.asarray(eo[k], dtype=np.float32), nrm.observations[k].numpy().astype(np.float32)):
            probs.append(f"VecNormalize: observations[{k}] != normalize_obs(raw relabelled sample)")
        if not np.array_equal(np.asarray(en[k], dtype=np.float32), nrm.next_observations[k].numpy().astype(np.float32)):
            probs.append(f"VecNormalize: next_observations[{k}] != normalize_obs(raw relabelled sample)")
    if not np.array_equal(vn.normalize_reward(raw.rewards.numpy()).astype(np.float32), nrm.rewards.numpy()):
        probs.append("VecNormalize: rewards != normalize_reward(raw)")
    if not np.array_equal(raw.actions.numpy(), nrm.actions.numpy()) or not np.array_equal(raw.dones.numpy(), nrm.dones.numpy()):
        probs.append("VecNormalize: actions or dones changed by normalisation")
    return probs


# ---------------------------------------------------------------- oracle (from the property text)

def reward_tag(info, ach, des):
    return info * 262144 + ach * 512 + des


def oracle(case, impl):
    probs = []
    n = case["n_envs"]
    cap = max(case["buffer_size"] // n, 1)
    strat = case["strategy"]
    by_act = {}                      # action tag -> transition record
    by_nach = {}                     # next-achieved-goal tag -> transition record
    running = [None] * n             # per env: list of records of the unfinished episode
    ep_no = [0] * n
    total = 0
    for p in impl.get("problems", []):
        probs.append(("oracle-pickle", p))
    it = iter(impl["obs"])
    states = iter(impl.get("states", []))
    slot_truth = [dict() for _ in range(n)]     # per env: slot -> record of the transition stored there now

    def check_segments(cells, when):
        """every cell the buffer considers sampleable must lie in a segment ep_start .. ep_start+ep_length-1 (mod cap)
        whose slots ALL still hold consecutive transitions of one finished episode (none overwritten since)"""
        for i, e, st_, ln_ in cells:
            here = slot_truth[e].get(i)
            where = f"{when}: cell (slot {i}, env {e}) with ep_start {st_}, ep_length {ln_}"
            if here is None:
                probs.append(("oracle-sampleable-slot-never-written", f"{where} has never been written"))
                return
            if not here["finished"]:
                probs.append(("oracle-sampleable-slot-of-unfinished-episode", f"{where} holds step {here['t']} of env {e}'s episode {here['ep']}, which has not ended"))
                return
            cur = (i - st_) % cap
            if not (0 < ln_ <= cap and cur < ln_):
                probs.append(("oracle-sampleable-slot-outside-its-episode", f"{where}: the slot is at position {cur} of a segment of length {ln_} (capacity {cap})"))
                return
            for j in range(ln_):
                q = (st_ + j) % cap
                r = slot_truth[e].get(q)
                if r is None or r["eplist"] is not here["eplist"] or r["t"] != here["t"] - cur + j:
                    got = "nothing" if r is None else f"step {r['t']} of episode {r['ep']}"
                    probs.append(("oracle-sampleable-slot-of-overwritten-episode",
                                  f"{where} holds step {here['t']} of episode {here['ep']}; position {j} of that segment (slot {q}) should hold step {here['t'] - cur + j} "
                                  f"of the same episode but holds {got}: the episode has been (partly) overwritten and is still sampleable"))
                    return
            if slot_truth[e][(st_ + ln_ - 1) % cap]["t"] != len(here["eplist"]) - 1:
                probs.append(("oracle-segment-does-not-end-at-episode-end", f"{where}: the last slot of the segment holds step {slot_truth[e][(st_ + ln_ - 1) % cap]['t']} of an episode of {len(here['eplist'])} steps"))
                return

    for op in case["ops"]:
        if op["op"] == "add":
            for e, t in enumerate(op["row"]):
                if running[e] is None:
                    running[e] = []
                r = {"e": e, "ep": ep_no[e], "t": len(running[e]), "f": t, "done": bool(t[8]), "to": bool(t[9]), "finished": False, "add": total, "eplist": running[e]}
                running[e].append(r)
                by_act[t[6]] = r
                by_nach[t[4]] = r
                slot_truth[e][total % cap] = r
                if t[8]:
                    for x in running[e]:
                        x["finished"] = True
                    running[e] = None
                    ep_no[e] += 1
            total += 1
            check_segments(next(states, []), f"after add #{total}")
            continue
        if op["op"] == "trunc":
            for e in range(n):
                if running[e]:
                    last = running[e][-1]
                    last["done"], last["to"] = True, (True if case["hto"] else last["to"])
                    for x in running[e]:
                        x["finished"] = True
                    running[e] = None
                    ep_no[e] += 1
            check_segments(next(states, []), f"after truncate_last_trajectory (after add #{total})")
            continue
        if op["op"] == "pickle":
            check_segments(next(states, []), f"after a pickle round trip (after add #{total})")
            continue
        if op["op"] == "reset":
            # reset() empties the buffer: nothing added before it is stored any more, the next add goes to slot 0
            for r in by_act.values():
                r["discarded"] = True
            for d_ in slot_truth:
                d_.clear()
            running, total = [None] * n, 0
            check_segments(next(states, []), "after reset()")
            continue
        rec = next(it)
        check_segments([[c["i"], c["e"], c["st"], c["ln"]] for c in rec["cells"]], f"at an observation point (after add #{total})")
        for p in rec["problems"]:
            probs.append(("oracle-sample-call", p))

        def check_real(tup, where):
            o, a, d, act, no, na, nd, dn, rw = tup
            r = by_act.get(act)
            if r is None:
                probs.append(("oracle-not-a-stored-transition", f"{where}: action tag {act} was never added"))
                return None
            f = r["f"]
            if r.get("discarded"):
                probs.append(("oracle-transition-from-before-reset-returned", f"{where}: transition #{act} was added before reset()"))
                return None
            if not r["finished"]:
                probs.append(("oracle-unfinished-episode-returned", f"{where}: transition #{act} of env {r['e']} belongs to an episode that has not ended"))
            if r["add"] < total - cap:
                probs.append(("oracle-overwritten-transition-returned", f"{where}: transition #{act} was added {total - r['add']} adds ago, capacity {cap}"))
            want_done = 1 if (r["done"] and not (case["hto"] and r["to"])) else 0
            bad = [nm for nm, got, want in (("obs", o, f[0]), ("achieved", a, f[1]), ("next_obs", no, f[3]), ("next_achieved", na, f[4]), ("done", dn, want_done)) if got != want]
            if bad:
                probs.append(("oracle-stored-fields-" + "-".join(bad), f"{where}: transition #{act} stored {f[:6]} done {want_done}, sample has {tup}"))
            return r

        def check_virtual(tup, where):
            r = check_real(tup, where)
            if r is None:
                return
            o, a, d, act, no, na, nd, dn, rw = tup
            if d != nd:
                probs.append(("oracle-goal-differs-between-obs-and-next-obs", f"{where}: desired goal {d} in obs, {nd} in next obs"))
            g = by_nach.get(d)
            if g is None:
                probs.append(("oracle-goal-not-an-achieved-goal", f"{where}: new desired goal {d} is not the next achieved goal of any stored transition"))
                return
            if g["e"] != r["e"] or g["eplist"] is not r["eplist"]:
                probs.append(("oracle-goal-from-another-episode", f"{where}: transition #{act} (env {r['e']} episode {r['ep']} step {r['t']}) relabelled with the goal of "
                                                                  f"env {g['e']} episode {g['ep']} step {g['t']}"))
                return
            if strat == "future" and g["t"] < r["t"]:
                probs.append(("oracle-future-goal-from-the-past", f"{where}: transition at step {r['t']} relabelled with the goal achieved at step {g['t']} of its episode"))
            if strat == "final" and g["t"] != len(r["eplist"]) - 1:
                probs.append(("oracle-final-goal-not-last", f"{where}: 'final' goal comes from step {g['t']} of an episode of {len(r['eplist'])} steps"))
            want = reward_tag(r["f"][10] if case["copy_info"] else 0, r["f"][4], d)
            if rw != want:
                probs.append(("oracle-reward-not-compute-reward", f"{where}: reward {rw}, compute_reward(next achieved {r['f'][4]}, goal {d}, info) = {want}"))

        for c in rec["cells"]:
            where = f"cell (slot {c['i']}, env {c['e']})"
            r = check_real(c["real"], where + " real")
            if r is not None:
                f = r["f"]
                o, a, d, act, no, na, nd, dn, rw = c["real"]
                if (d, nd, rw) != (f[2], f[5], f[7]):
                    probs.append(("oracle-real-sample-altered", f"{where}: real sample has goal/reward {(d, nd, rw)}, stored {(f[2], f[5], f[7])}"))
                if r["e"] != c["e"]:
                    probs.append(("oracle-env-column", f"{where}: returns a transition of env {r['e']}"))
            if c["hi"] <= c["lo"]:
                probs.append(("oracle-empty-goal-range", f"{where}: goal draw range [{c['lo']}, {c['hi']}) is empty"))
            for kk, v in zip(range(c["lo"], c["hi"]), c["virt"]):
                check_virtual(v, f"{where} goal position {kk}")
        if "sample" in rec:
            B = op["batch"]
            want_v = case["n_sampled_goal"] * B // (case["n_sampled_goal"] + 1)
            got = rec["sample"]
            if len(got) != B:
                probs.append(("oracle-batch-size", f"sample({B}) returned {len(got)} transitions"))
            n_rel = sum(1 for t in got if t[2] in by_nach)     # desired-goal tags and achieved-goal tags are disjoint
            if n_rel != want_v:
                probs.append(("oracle-relabelled-share", f"sample({B}) with n_sampled_goal={case['n_sampled_goal']} relabelled {n_rel} transitions, floor(n*B/(n+1)) = {want_v}"))
            for j, t in enumerate(got):
                if t[2] in by_nach:
                    check_virtual(t, f"sample() element {j}")
                else:
                    r = check_real(t, f"sample() element {j}")
                    if r is not None and (t[2], t[6], t[8]) != (r["f"][2], r["f"][5], r["f"][7]):
                        probs.append(("oracle-real-sample-altered", f"sample() element {j}: goal/reward {(t[2], t[6], t[8])}, stored {(r['f'][2], r['f'][5], r['f'][7])}"))
        elif rec["cells"]:
            probs.append(("oracle-sample-raises", f"sample() raised {rec.get('sample_err')} although {len(rec['cells'])} cells are sampleable"))
    return probs


# ---------------------------------------------------------------- model

def model_expr(case):
    def hin(t):
        return ("mkIn " + " ".join(coq_Z(t[j]) for j in range(8)) + f" {coq_bool(t[8])} {coq_bool(t[9])} {coq_Z(t[10])}")

    ops = []
    for op in case["ops"]:
        ops.append({"add": lambda: "HHAdd " + coq_list(op["row"], hin), "trunc": lambda: "HHTrunc", "pickle": lambda: "HHPickle", "obs": lambda: "HHObs", "reset": lambda: "HHReset"}[op["op"]]())
    return (f"hhrun {STRATS[case['strategy']]} {coq_bool(case['copy_info'])} "
            f"(her_create {coq_Z(case['buffer_size'])} {coq_Z(case['n_envs'])} {coq_bool(case['hto'])}) {coq_list(ops)}")


def compare_model(case, impl, mv):
    probs = []
    if len(mv) != len(impl["obs"]):
        return [("obs-count", f"{len(mv)} model observations vs {len(impl['obs'])}")]
    for j, (m, rec) in enumerate(zip(mv, impl["obs"])):
        mpos, mfull, mcur, mvalid, mtable = m
        if (mpos, mfull, list(mcur)) != (rec["pos"], rec["full"], rec["cur"]):
            probs.append(("cursor", f"obs #{j}: (pos, full, _current_ep_start) impl {(rec['pos'], rec['full'], rec['cur'])} model {(mpos, mfull, list(mcur))}"))
        if list(mvalid) != rec["valid"]:
            probs.append(("valid-set", f"obs #{j}: sampleable flat indices impl {rec['valid']} model {list(mvalid)}"))
            continue
        for mc, c in zip(mtable, rec["cells"]):
            mi, me, (mst, mln), mreal, (mlo, mhi), mvirt, _ghost = mc
            where = f"obs #{j} cell ({c['i']},{c['e']})"
            if (mi, me) != (c["i"], c["e"]):
                probs.append(("cell-order", f"{where}: model cell {(mi, me)}"))
                break
            if (mst, mln) != (c["st"], c["ln"]):
                probs.append(("episode-bookkeeping", f"{where}: (ep_start, ep_length) impl {(c['st'], c['ln'])} model {(mst, mln)}"))
            if list(mreal) != c["real"]:
                probs.append(("real-sample", f"{where}: impl {c['real']} model {list(mreal)}"))
            if (mlo, mhi) != (c["lo"], c["hi"]):
                probs.append(("goal-range", f"{where}: randint range impl {(c['lo'], c['hi'])} model {(mlo, mhi)}"))
            elif [list(v) for v in mvirt] != c["virt"]:
                k = next(k for k, (a, b) in enumerate(zip([list(v) for v in mvirt] + [None], c["virt"] + [None])) if a != b)
                probs.append(("virtual-sample", f"{where} goal position {c['lo'] + k}: impl {c['virt'][k] if k < len(c['virt']) else None} model {list(mvirt[k]) if k < len(mvirt) else None}"))
        # the recorded ordinary sample against the enumerated table (which the model has just been compared with)
        if "sample" in rec:
            table = {(c["i"], c["e"]): c for c in rec["cells"]}
            B, n = len(rec["sample"]), case["n_envs"]
            lg = rec["log"]
            if len(lg["choice"]) != 1 or lg["choice"][0][0] != rec["valid"] or not lg["choice"][0][2]:
                probs.append(("sample-choice", f"obs #{j}: np.random.choice called {len(lg['choice'])} times / not over the sampleable indices with replacement"))
                continue
            drawn = lg["choice"][0][1]
            nbv = case["n_sampled_goal"] * len(drawn) // (case["n_sampled_goal"] + 1)
            virt_cells, real_cells = drawn[:nbv], drawn[nbv:]
            if case["strategy"] == "final":
                kks = [table[(f // n, f % n)]["lo"] for f in virt_cells]
            else:
                kks = lg["randint"][0][2] if lg["randint"] else []
            exp = [table[(f // n, f % n)]["real"] for f in real_cells]
            for f, kk in zip(virt_cells, kks):
                c = table[(f // n, f % n)]
                exp.append(c["virt"][kk - c["lo"]] if 0 <= kk - c["lo"] < len(c["virt"]) else None)
            if exp != rec["sample"]:
                k = next((k for k, (a, b) in enumerate(zip(exp + [None], rec["sample"] + [None])) if a != b), None)
                probs.append(("sample-vs-table", f"obs #{j}: sample() element {k} = {rec['sample'][k] if k is not None and k < B else None}, table entry {exp[k] if k is not None and k < len(exp) else None} "
                                                 f"(drawn cells {drawn}, goal draws {kks})"))
        elif rec["valid"] and not any(c["hi"] <= c["lo"] for c in rec["cells"]):
            # (a sampleable cell with an empty goal range - which the model shows too - makes np.random.randint raise)
            probs.append(("sample-raises", f"obs #{j}: sample() raised although the model has sampleable cells"))
    return probs


def ghost_check(case, impl, mv):
    """the model's ghost (episode, index) of every sampleable cell against the harness's own episode log"""
    probs = []
    n = case["n_envs"]
    by_act = {}
    running, ep_no = [[] for _ in range(n)], [0] * n
    it = iter(zip(mv, impl["obs"]))
    for op in case["ops"]:
        if op["op"] == "add":
            for e, t in enumerate(op["row"]):
                by_act[t[6]] = (e, ep_no[e], len(running[e]))
                running[e].append(t[6])
                if t[8]:
                    running[e], ep_no[e] = [], ep_no[e] + 1
        elif op["op"] == "trunc":
            for e in range(n):
                if running[e]:
                    running[e], ep_no[e] = [], ep_no[e] + 1
        elif op["op"] == "obs":
            m, rec = next(it)
            seen = {}
            for mc, c in zip(m[4], rec["cells"]):
                gep, gix = mc[6]
                truth = by_act.get(c["real"][3])
                if truth is None:
                    continue
                key = (c["e"], gep)
                off = (truth[1], gix - truth[2])
                if seen.setdefault(key, off) != off:
                    probs.append(("ghost-episode", f"cell ({c['i']},{c['e']}): model ghost (episode {gep}, index {gix}) inconsistent with logged (episode {truth[1]}, step {truth[2]})"))
    return probs


# ---------------------------------------------------------------- driver

def run_cases(chk, cases, name="C16"):
    """every call into the implementation is guarded: an exception on a generated (legal) history is a concrete failing input"""
    import traceback

    impls = []
    for c in cases:
        try:
            impls.append(run_impl(c))
        except Exception as e:
            impls.append({"crash": f"{type(e).__name__}: {e}", "traceback": traceback.format_exc()[-2500:], "obs": []})
    vals = common.coq_eval_many(name, HEADER, [model_expr(c) for c in cases], shard=40, procs=4)
    results = []
    for c, im, mv in zip(cases, impls, vals):
        if im.get("crash"):
            results.append(([("oracle-implementation-raised", "add() / sample() / truncate / pickle raised on a legal history: " + im["crash"])], []))
            continue
        try:
            orc = oracle(c, im)
        except Exception as e:
            im["traceback"] = traceback.format_exc()[-2500:]
            orc = [("oracle-unexpected-value", f"the recorded samples contain a value the oracle cannot interpret: {type(e).__name__}: {e}")]
        try:
            mod = compare_model(c, im, mv)
            if not mod:
                mod = ghost_check(c, im, mv)
        except Exception as e:
            im["traceback"] = traceback.format_exc()[-2500:]
            mod = []
            orc = orc + [("oracle-unexpected-value", f"comparison with the model failed on the recorded values: {type(e).__name__}: {e}")]
        results.append((orc, mod))
    return impls, results


def share_check():
    """int(her_ratio * B) as the code evaluates it in floats == floor(n*B/(n+1)), n <= 64, B <= 2048"""
    import numpy as np
    from gymnasium import spaces

    from stable_baselines3.her.her_replay_buffer import HerReplayBuffer

    case = {"obs_kind": "box3", "goal_dim": 1, "act_kind": "box", "n_envs": 1}
    obs_sp, act_sp = make_spaces(case)
    venv = make_venv(case, obs_sp, act_sp)
    bad = []
    for n in range(1, 65):
        buf = HerReplayBuffer(2, obs_sp, act_sp, env=venv, device="cpu", n_envs=1, n_sampled_goal=n)
        for B in range(0, 2049):
            if int(buf.her_ratio * B) != n * B // (n + 1):
                bad.append((n, B, int(buf.her_ratio * B), n * B // (n + 1)))
    return bad


def api_guards():
    """constructor / set_env guards of the public API (fixed inputs): list of (signature, message)"""
    import pickle

    from stable_baselines3.her.her_replay_buffer import HerReplayBuffer

    probs = []
    case = {"obs_kind": "box3", "goal_dim": 1, "act_kind": "box", "n_envs": 1}
    obs_sp, act_sp = make_spaces(case)
    venv = make_venv(case, obs_sp, act_sp)
    try:
        HerReplayBuffer(4, obs_sp, act_sp, env=venv, device="cpu", optimize_memory_usage=True, handle_timeout_termination=False)
        probs.append(("oracle-guard-memopt-accepted", "HerReplayBuffer(optimize_memory_usage=True) was accepted (next observations would share the observation array)"))
    except (AssertionError, ValueError):
        pass
    try:
        HerReplayBuffer(4, obs_sp, act_sp, env=venv, device="cpu", goal_selection_strategy="nearest")
        probs.append(("oracle-guard-unknown-strategy-accepted", "an unknown goal_selection_strategy was accepted"))
    except (AssertionError, ValueError, KeyError):
        pass
    try:
        HerReplayBuffer(4, obs_sp, act_sp, env=venv, device="cpu", goal_selection_strategy=5)
        probs.append(("oracle-guard-unknown-strategy-accepted", "goal_selection_strategy=5 was accepted"))
    except (AssertionError, ValueError, KeyError, AttributeError):
        pass
    buf = HerReplayBuffer(4, obs_sp, act_sp, env=venv, device="cpu")
    try:
        buf.set_env(venv)
        probs.append(("oracle-guard-set-env-twice", "set_env() replaced the env of a buffer that already has one"))
    except ValueError:
        pass
    b2 = pickle.loads(pickle.dumps(buf))
    if b2.env is not None:
        probs.append(("oracle-guard-pickle-keeps-env", "a pickled buffer kept its env"))
    import numpy as np

    o = {k: enc(obs_sp[k], [1]) for k in ("observation", "achieved_goal", "desired_goal")}
    b2.add(o, o, enc(act_sp, [1]), np.array([1.0], dtype=np.float32), np.array([True]), [{}])
    try:
        b2.sample(2)
        probs.append(("oracle-guard-sample-without-env", "sample() relabelled transitions on an unpickled buffer that has no env"))
    except AssertionError:
        pass
    b2.set_env(venv)
    if b2.env is not venv:
        probs.append(("oracle-guard-set-env", "set_env() after unpickling did not install the env"))
    return probs


def nontrivial(case, impl):
    if impl.get("crash"):
        return False
    cap = max(case["buffer_size"] // case["n_envs"], 1)
    adds = sum(1 for o in case["ops"] if o["op"] == "add")
    return adds > cap and any(len(r["cells"]) > 0 for r in impl["obs"])


def load_corpus():
    p = os.path.join(common.VERIF, "corpus", "C16.jsonl")
    return [json.loads(l) for l in open(p) if l.strip()] if os.path.exists(p) else []


def main():
    chk = Check("C16", groups=["her", "replay"])
    chk.build_props()
    from harness import linecov

    _cov = linecov.maybe_start(COV_FUNCS)
    n_cases = 550 if chk.tier == "quick" else 6000
    cases = load_corpus()
    n_corpus = len(cases)
    for i in range(n_cases):
        cases.append(gen_case(chk.rng, i))
    import traceback

    try:
        guards = api_guards()
    except Exception as e:
        guards = [("oracle-implementation-raised", f"constructing / pickling / adding to / sampling a 4-slot HerReplayBuffer raised {type(e).__name__}: {e}")]
        chk.notes["api_guards_traceback"] = traceback.format_exc()[-2500:]
    for sig, msg in guards:
        chk.violation(sig, msg, {"fixed_input": "harness/c16.py api_guards()", "traceback": chk.notes.get("api_guards_traceback")}, found_input=True)
    try:
        bad = share_check()
    except Exception as e:
        bad = []
        chk.violation("oracle-implementation-raised", f"HerReplayBuffer(2 slots, n_sampled_goal=1..64) construction raised {type(e).__name__}: {e}",
                      {"fixed_input": "harness/c16.py share_check()", "traceback": traceback.format_exc()[-2500:]}, found_input=True)
    if bad:
        chk.violation("oracle-relabelled-share-float", f"int(her_ratio * B) != floor(n*B/(n+1)) for (n, B, code, law) = {bad[:5]}", {"mismatches": bad[:50]}, found_input=True)
    new, model_only = 0, []
    distinct = set()
    hist = {"strategy": {}, "capacity": {}, "n_envs": {}, "hto": 0, "copy_info": 0, "vecnorm": 0, "observation_points": 0, "sampleable_cells": 0,
            "virtual_samples_enumerated": 0, "pickle_ops": 0, "trunc_ops": 0, "episodes_longer_than_ring": 0, "sample_raises_no_valid": 0, "adds": 0}
    CH = 400
    for s in range(0, len(cases), CH):
        part = cases[s:s + CH]
        impls, results = run_cases(chk, part, name=f"C16_{s // CH}")
        for c, im, (orc, mod) in zip(part, impls, results):
            cap = max(c["buffer_size"] // c["n_envs"], 1)
            for k, v in (("strategy", c["strategy"]), ("capacity", cap), ("n_envs", c["n_envs"])):
                hist[k][v] = hist[k].get(v, 0) + 1
            hist["hto"] += int(c["hto"]); hist["copy_info"] += int(c["copy_info"]); hist["vecnorm"] += int(bool(c.get("vecnorm")))  # noqa: E702
            run = [0] * c["n_envs"]
            for o in c["ops"]:
                hist["pickle_ops"] += int(o["op"] == "pickle")
                hist["trunc_ops"] += int(o["op"] == "trunc")
                if o["op"] == "add":
                    hist["adds"] += 1
                    for e, t in enumerate(o["row"]):
                        run[e] += 1
                        if t[8]:
                            hist["episodes_longer_than_ring"] += int(run[e] > cap)
                            run[e] = 0
            for rec in im["obs"]:
                hist["observation_points"] += 1
                hist["sampleable_cells"] += len(rec["cells"])
                hist["virtual_samples_enumerated"] += sum(len(x["virt"]) for x in rec["cells"])
                hist["sample_raises_no_valid"] += int("sample_err" in rec)
            if nontrivial(c, im):
                distinct.add((c["buffer_size"], c["n_envs"], c["strategy"], c["hto"], c["copy_info"], c["n_sampled_goal"]))
            if orc:
                # a concrete failing input: reported at once (at most 3)
                chk.violation(orc[0][0], "; ".join(m for _, m in orc[:3]), {"case": c, "problems": orc[:10], "model_disagreements": mod[:5], "traceback": im.get("traceback")}, found_input=True)
                new += 1
            elif mod and len(model_only) < 3:
                model_only.append((c, mod))        # not confirmed by the oracle: reported AFTER the concrete inputs
            if new >= 3:
                break
        if new >= 3:
            break
    for c, mod in model_only[:max(0, 3 - new)]:
        chk.violation("model-correspondence-" + mod[0][0], "; ".join(m for _, m in mod[:3]),
                      {"case": c, "problems": mod[:10], "correspondence": "harness/c16.py run_impl (real HerReplayBuffer tables) vs Model.Her.hhrun"}, found_input=False)
    chk.coverage["evaluations"] = len(cases)
    chk.coverage["traces_validated_against_impl"] = hist["observation_points"]
    chk.coverage["distinct_nontrivial"] = len(distinct)
    chk.coverage["rule"] = ("op lists of add / truncate_last_trajectory / pickle round trip / observe on HerReplayBuffer, capacity 1-12, n_envs 1-3, episode lengths 1..2*cap+3 "
                            "(styles: short, mixed, long, exact multiples of the capacity), 3 strategies, n_sampled_goal 1-8, batch 1-40, copy_info_dict, VecNormalize; every observation point "
                            "enumerates all sampleable cells x all admissible goal positions; non-trivial = more adds than the capacity and at least one sampleable cell; "
                            "distinct = distinct (buffer_size, n_envs, strategy, timeout handling, copy_info, n_sampled_goal) among non-trivial cases")
    chk.notes["input_distribution"] = hist
    chk.notes["corpus_cases"] = n_corpus
    chk.notes["share_float_check"] = "int(her_ratio*B) == n*B//(n+1) for n in 1..64, B in 0..2048: " + ("ok" if not bad else f"{len(bad)} mismatches")
    chk.add_samples([{k: cases[i][k] for k in ("buffer_size", "n_envs", "strategy", "n_sampled_goal", "hto", "copy_info", "vecnorm")} | {"n_ops": len(cases[i]["ops"])}
                     for i in (n_corpus, n_corpus + 1) if i < len(cases)])
    chk.assumptions += [
        "numpy fancy / negative indexing, np.arange, np.flatnonzero / unravel_index, VecEnv.env_method and pickle are tied to the model by this correspondence only",
        "np.random.choice / randint are replaced in the harness process to enumerate the ranges the code itself passes; the distribution of the real generator is not examined",
        "lost data (over-invalidation) is not a violation of the property and is not reported; BaseBuffer.reset() on a HER buffer is outside the quantifier and never called by the generators or the corpus",
    ]
    linecov.finish(_cov, chk)
    return chk.finish()


def replay(path):
    d = json.load(open(path))
    case = d["replay"]["case"]
    chk = Check("C16", groups=["her", "replay"])
    impls, results = run_cases(chk, [case], name="C16_replay")
    orc, mod = results[0]
    print(json.dumps({"oracle": orc[:10], "model_disagreements": mod[:10]}, indent=1))
    return 1 if orc or mod else 0
