"""C06 - on-policy collection records what happened and bootstraps time-limit truncations.

Proof side:  Props/C06.v (slot law for every script / step count / oracle, carried state across rollouts, bootstrap iff
             truncated and not terminated, last values follow the last step, env action in bounds; fragments of
             on_policy_algorithm.py / policies.py / dummy_vec_env.py).
Tie:         real PPO / A2C .learn() on scripted envs; the rollout buffer is snapshotted in on_rollout_end, policy.forward /
             predict_values are recorded (oracle inputs of the model), env-side logs give received actions; every env
             column is compared with Model.OnPolicyCollect.check_col.
Oracle:      written from the property text, from the envs' own logs: observation the policy saw, previous done, reward +
             gamma*V(terminal obs) exactly when truncated and not terminated (V recomputed on the frozen policy),
             values/log-probs recomputed with evaluate_actions, clipped/unsquashed action received, last values.
"""
from __future__ import annotations

import json
import os
from fractions import Fraction

from harness import common
from harness.common import Check, coq_Q, coq_Z, coq_bool, coq_list

REGISTRY = dict(
    text=("Proof (unbounded): for every episode script, action kind, gamma, number of steps / rollouts / learn() calls and every policy oracle, slot g of an env column holds the observation "
          "the policy saw, the action/value/log-prob of that forward call, episode_start = previous done (1 after a reset; carried across rollouts), the env's reward plus gamma*V(terminal obs) "
          "exactly when the step was truncated and not terminated; the env receives the clipped / unsquashed / unchanged action, in bounds; the last values are taken at the observation following "
          "the last step. Bootstrap condition and formula, unscale_action and the DummyVecEnv flag formulas are regenerated from the source. Tie: correspondence on real PPO/A2C runs."),
    note=("Trusted: Coq 8.16.1 kernel (vm_compute, no native_compute), translate/py2coq.py + specs/onpolicy.py, harness/c06.py, Python/numpy/torch/gymnasium. "
          "Modelled, not verified: the policy forward pass (oracle inputs recorded from the run; recomputed with evaluate_actions/predict_values at tolerance 1e-4 by the oracle), float32 rounding "
          "(rewards and unsquashed actions compared at rel 1e-5), numpy vectorisation over envs (the model is per env column; tied by this correspondence). Under VecNormalize (norm_reward, optionally norm_obs; obs clipping off) normalised observations are mapped back to tags by array identity with what "
          "the wrapper handed out, and the model is compared on (buffer reward - normalised reward + raw reward). Known finding of C06: callback-stop-loses-transition-then-stale-last-obs (F20, Refuted/C06_callback_stop.v). Model/OnPolicyCollect.vstep1 restates the auto-reset step of Model/VecEnv.v (proved equal to its per-env projection in Proofs/VecEnvTieProofs.v). All C06 theorems are closed under the global context."),
    technique="machine-checked proof in Coq (induction over the step list) + regenerated-fragment interface lemmas + differential correspondence on real PPO/A2C runs",
)

STOP_SIG = "callback-stop-loses-transition-then-stale-last-obs"

COV_TARGETS = {
    "stable_baselines3/common/on_policy_algorithm.py": ["OnPolicyAlgorithm.collect_rollouts", "OnPolicyAlgorithm.learn"],
    "stable_baselines3/common/buffers.py": ["RolloutBuffer.add", "RolloutBuffer.reset", "RolloutBuffer.compute_returns_and_advantage", "DictRolloutBuffer.add", "DictRolloutBuffer.reset"],
    "stable_baselines3/common/policies.py": ["ActorCriticPolicy.forward", "ActorCriticPolicy.predict_values", "ActorCriticPolicy.extract_features",
                                             "ActorCriticPolicy._get_action_dist_from_latent", "BasePolicy.unscale_action"],
}

HEADER = """From Coq Require Import List ZArith QArith Bool.
From SB3V Require Import Model.Script Model.OnPolicyCollect Model.Pipeline.
Import ListNotations.
"""

ACT_KINDS = ["box", "box_asym", "discrete", "multidiscrete", "multibinary", "box_squash", "box_sde"]
OBS_KINDS = ["box1", "box2", "dictc", "disc", "dictd"]


def gen_case(rng, i):
    from harness import scripted_envs as se

    n_envs = rng.choice([1, 1, 2, 3])
    calls = [{"total": rng.randint(1, 3 * 6), "reset": rng.random() < 0.5} for _ in range(rng.choice([1, 2, 2]))]
    obs_kind = rng.choice(OBS_KINDS)
    vecnorm = rng.random() < 0.25
    if vecnorm:
        obs_kind = rng.choice(["box1", "box2", "dictc"])     # VecNormalize needs Box observations (or a Dict of them, with norm_obs_keys)
    elif i % 9 == 4:
        obs_kind = rng.choice(["image", "dictimg"])
    if i % 12 == 7:
        # a callback asks to stop at some step of the first learn(); training is continued without counter reset
        ns_ = rng.randint(1, 5)
        return {"id": i, "stop": {"call": 0, "step": rng.randint(1, 7)}, "lam": rng.choice([0.9, 1.0]), "sde_freq": -1, "vecnorm": False, "vn_obs": False, "split_fe": False,
                "algo": rng.choice(["PPO", "A2C"]), "n_envs": n_envs, "n_steps": ns_, "act": rng.choice(["discrete", "box", "multibinary"]), "obs": rng.choice(["box1", "box2", "disc"]),
                "gamma": rng.choice([0.5, 0.9]), "calls": [{"total": 40, "reset": True}, {"total": rng.randint(1, 2) * ns_ * n_envs, "reset": False}], "seed": rng.randint(0, 10**6),
                "scripts": [se.gen_script(rng, max_len=5, tag_base=1000 * e, p_both=0.2, p_trunc=0.45) for e in range(n_envs)]}
    split_fe = rng.random() < 0.4                   # separate actor / critic feature extractors (with parameters)
    return {"id": i, "vn_frozen": vecnorm and rng.random() < 0.5, "lam": rng.choice([0.5, 0.9, 0.95, 1.0]), "sde_freq": rng.choice([-1, 1, 2, 3]), "vecnorm": vecnorm, "vn_obs": rng.random() < 0.6, "split_fe": split_fe, "algo": rng.choice(["PPO", "A2C"]), "n_envs": n_envs, "n_steps": rng.randint(1, 6),
            "act": ACT_KINDS[i % len(ACT_KINDS)], "obs": obs_kind, "gamma": rng.choice([0.5, 0.9, 0.99]),
            "calls": calls, "seed": rng.randint(0, 10**6),
            "scripts": [se.gen_script(rng, max_len=5, tag_base=1000 * e, tag_cap=250 if obs_kind in ("image", "dictimg") else se.MAXTAG - 1, p_both=0.2, p_trunc=0.45) for e in range(n_envs)]}


# ---------------------------------------------------------------- implementation run

def run_impl(case):
    import warnings

    warnings.simplefilter("ignore")
    import numpy as np
    import torch as th
    from gymnasium import spaces

    th.set_num_threads(1)
    import stable_baselines3 as sb3
    from stable_baselines3.common.callbacks import BaseCallback
    from stable_baselines3.common.utils import obs_as_tensor
    from stable_baselines3.common.vec_env import DummyVecEnv, VecEnvWrapper

    from harness import scripted_envs as se

    ne, ns = case["n_envs"], case["n_steps"]
    M = float(se.MAXTAG)
    obs_space = {"box1": None, "box2": None,
                 "dictc": spaces.Dict({"a": spaces.Box(-M, M, (2,), dtype=np.float32), "b": spaces.Box(-M, M, (1, 3), dtype=np.float32)}),
                 "image": spaces.Box(0, 255, (36, 36, 3), dtype=np.uint8),
                 "dictimg": spaces.Dict({"img": spaces.Box(0, 255, (36, 36, 1), dtype=np.uint8), "a": spaces.Box(-M, M, (2,), dtype=np.float32)}),
                 "dictd": spaces.Dict({"a": spaces.Box(-M, M, (2,), dtype=np.float32), "k": spaces.Discrete(4096)}),     # a Discrete key in a Dict
                 "disc": spaces.Discrete(4096)}[case["obs"]]
    act = case["act"]
    act_kind = {"box_squash": "box_asym", "box_sde": "box_asym"}.get(act, act)

    class LoggedEnv(se.ScriptedEnv):
        def __init__(self, *a, **k):
            super().__init__(*a, **k)
            self.gt = []

        def reset(self, **k):
            o, i = super().reset(**k)
            self.gt.append(["reset", se.decode(self.observation_space, o)])
            return o, i

        def step(self, action):
            o, r, te, tr, i = super().step(action)
            self.gt.append(["step", se.decode(self.observation_space, o), float(r), bool(te), bool(tr), np.asarray(action, dtype=np.float64).reshape(-1).tolist()])
            return o, r, te, tr, i

    def mk(e):
        return lambda: LoggedEnv(case["scripts"][e], obs_kind=case["obs"] if obs_space is None else "box1", act_kind=act_kind, obs_space=obs_space, env_id=e)

    base = DummyVecEnv([mk(e) for e in range(ne)])
    ospace = base.observation_space
    vn = bool(case.get("vecnorm"))
    vn_obs = vn and bool(case.get("vn_obs"))

    def cp(o):
        return {k: np.array(v, copy=True) for k, v in o.items()} if isinstance(o, dict) else np.array(o, copy=True)

    def eq(a, b):
        if isinstance(a, dict) or isinstance(b, dict):
            return isinstance(a, dict) and isinstance(b, dict) and a.keys() == b.keys() and all(eq(a[k], b[k]) for k in a)
        a, b = np.asarray(a), np.asarray(b)
        return a.shape == b.shape and np.array_equal(a, b)

    def row(o, i):
        return {k: np.asarray(v)[i] for k, v in o.items()} if isinstance(o, dict) else np.asarray(o)[i]

    def nrows(o):
        return len(next(iter(o.values()))) if isinstance(o, dict) else len(o)

    def close_obs(a, b):
        if isinstance(a, dict):
            return all(np.allclose(a[k], b[k], rtol=1e-6, atol=1e-6) for k in a)
        return np.allclose(a, b, rtol=1e-6, atol=1e-6)

    def first(o):
        o = next(iter(o.values())) if isinstance(o, dict) else o
        return float(np.asarray(o).reshape(-1)[0])

    class RecWrap(VecEnvWrapper):
        """outermost wrapper over VecNormalize: remembers exactly what the algorithm was handed (normalised arrays) together with
        the raw tags, so that normalised observations can be mapped back to tags by array identity"""

        def __init__(self, v):
            super().__init__(v)
            self.last_obs, self.last_tags, self.last_term = None, None, {}
            self.before, self.seen_r, self.term_bad = [], [], []

        def _note(self, obs):
            self.last_obs = cp(obs)
            self.last_tags = se.decode_batch(ospace, self.venv.get_original_obs(), ne)

        def reset(self):
            obs = self.venv.reset()
            self._note(obs)
            self.last_term = {}
            return obs

        def step_wait(self):
            self.before.append((self.last_obs, self.last_tags))
            obs, r, d, infos = self.venv.step_wait()
            self._note(obs)
            self.seen_r.append([float(x) for x in r])
            self.last_term = {e: (cp(infos[e]["terminal_observation"]), [x for x in base.envs[e].gt if x[0] == "step"][-1][1])
                              for e in range(ne) if d[e]}
            for e, (tobs, tag) in self.last_term.items():
                # the terminal observation must reach the algorithm the way every observation does (normalised with the statistics in force)
                raw = se.encode(ospace, tag)
                exp = self.venv.normalize_obs(cp(raw) if isinstance(raw, dict) else np.asarray(raw))
                if not close_obs(tobs, exp):
                    self.term_bad.append([len(self.seen_r) - 1, e, first(tobs), first(exp)])
            return obs, r, d, infos

    if vn:
        from stable_baselines3.common.vec_env import VecNormalize

        vkw = dict(norm_obs_keys=["a"]) if case["obs"] == "dictc" and vn_obs else {}     # Dict observations: only the listed keys are normalised
        vnorm = VecNormalize(base, norm_obs=vn_obs, norm_reward=True, clip_obs=1e9, gamma=case["gamma"], **vkw)
        if case.get("vn_frozen"):
            # evaluation-style use: statistics loaded from elsewhere and frozen (training=False); non-trivial values so that raw and
            # normalised observations differ
            rms = {} if not vn_obs else (vnorm.obs_rms if isinstance(vnorm.obs_rms, dict) else {None: vnorm.obs_rms})
            for r_ in rms.values():
                r_.mean = np.full_like(r_.mean, 700.0)
                r_.var = np.full_like(r_.var, 9.0e4)
                r_.count = 1000.0
            vnorm.ret_rms.var = np.asarray(4.0)
            vnorm.ret_rms.count = 1000.0
            vnorm.training = False
        venv = RecWrap(vnorm)
    else:
        venv = base

    def lookup(arr):
        """normalised batch -> tags, by identity with what the env wrapper handed out"""
        if not isinstance(arr, dict):
            arr = np.asarray(arr)
        if venv.last_obs is not None and eq(arr, venv.last_obs):
            return list(venv.last_tags)
        if nrows(arr) == 1:
            for e, (tobs, tag) in venv.last_term.items():
                if eq(row(arr, 0), tobs):
                    return [tag]
        return ["unmatched-normalised-observation"] * nrows(arr)
    pk = dict(net_arch=[8])
    kw = {}
    if act == "box_squash":
        kw["use_sde"] = True
        kw["sde_sample_freq"] = case.get("sde_freq", -1)
        pk["squash_output"] = True
    if act == "box_sde":
        kw["use_sde"] = True
        kw["sde_sample_freq"] = case.get("sde_freq", 2)
    policy = {"dictc": "MultiInputPolicy", "dictd": "MultiInputPolicy", "dictimg": "MultiInputPolicy", "image": "CnnPolicy"}.get(case["obs"], "MlpPolicy")
    if case["obs"] == "image":
        pk["features_extractor_kwargs"] = dict(features_dim=8)
    if case["obs"] == "dictimg":
        pk["features_extractor_kwargs"] = dict(cnn_output_dim=8)
    if case.get("split_fe"):
        pk["share_features_extractor"] = False
        if policy == "MlpPolicy":
            from stable_baselines3.common.preprocessing import get_flattened_obs_dim
            from stable_baselines3.common.torch_layers import BaseFeaturesExtractor

            class TinyExtractor(BaseFeaturesExtractor):
                """a features extractor WITH parameters, so that actor and critic extractors differ when not shared"""

                def __init__(self, observation_space, features_dim=6):
                    super().__init__(observation_space, features_dim)
                    self.net = th.nn.Sequential(th.nn.Flatten(), th.nn.Linear(get_flattened_obs_dim(observation_space), features_dim), th.nn.Tanh())

                def forward(self, observations):
                    return self.net(observations)

            pk["features_extractor_class"] = TinyExtractor
    th.manual_seed(case["seed"])
    if case["algo"] == "PPO":
        model = sb3.PPO(policy, venv, n_steps=ns, batch_size=max(1, ns * ne), n_epochs=1, normalize_advantage=False, gamma=case["gamma"], gae_lambda=case.get("lam", 0.95),
                        policy_kwargs=pk, device="cpu", seed=case["seed"], **kw)
    else:
        model = sb3.A2C(policy, venv, n_steps=ns, gamma=case["gamma"], gae_lambda=case.get("lam", 1.0), policy_kwargs=pk, device="cpu", seed=case["seed"], **kw)
    pol = model.policy
    dspace = model.get_env().observation_space      # what the policy is handed (images: channel-first)
    events = []  # ("fwd", tags, actions, values, logps) / ("pv", tags, values, values by an independent path)

    def tags_of(obs_t):
        if isinstance(obs_t, dict):
            arr = {k: v.detach().cpu().numpy() for k, v in obs_t.items()}
            n = len(next(iter(arr.values())))
        else:
            arr = obs_t.detach().cpu().numpy()
            n = len(arr)
        if vn_obs:
            return lookup(arr)
        try:
            return se.decode_batch(dspace, arr, n)
        except se.MixedObservation as ex:
            return [f"mixed:{ex}"] * n

    o_fwd, o_pv = pol.forward, pol.predict_values

    def fwd(obs, deterministic=False):
        a, v, lp = o_fwd(obs, deterministic)
        events.append(["fwd", tags_of(obs), a.detach().cpu().numpy().astype(np.float64).reshape(len(v), -1).tolist(),
                       v.detach().cpu().numpy().astype(np.float64).reshape(-1).tolist(), lp.detach().cpu().numpy().astype(np.float64).reshape(-1).tolist()])
        return a, v, lp

    def pv(obs):
        v = o_pv(obs)
        # oracle side: the value the policy's critic assigns to the same observation, through a path that does not use
        # predict_values (policy.forward), on the policy as it is right now; RNG state restored so that the run is unaffected
        rng_state = th.get_rng_state()
        with th.no_grad():
            v_ind = o_fwd(obs)[1]
        th.set_rng_state(rng_state)
        events.append(["pv", tags_of(obs), v.detach().cpu().numpy().astype(np.float64).reshape(-1).tolist(),
                       v_ind.detach().cpu().numpy().astype(np.float64).reshape(-1).tolist()])
        return v

    pol.forward = fwd
    pol.predict_values = pv
    sde_resets, in_train = [], [False]
    if getattr(model, "use_sde", False):
        o_rn, o_train = pol.reset_noise, model.train

        def reset_noise(*a, **k):
            if not in_train[0]:
                sde_resets.append(sum(1 for e in events if e[0] == "fwd"))
            return o_rn(*a, **k)

        def train_(*a, **k):
            in_train[0] = True
            try:
                return o_train(*a, **k)
            finally:
                in_train[0] = False

        pol.reset_noise = reset_noise
        model.train = train_
    snaps = []

    dropped, stops = [], []

    class Snap(BaseCallback):
        def __init__(self, stop_at=None):
            super().__init__()
            self.stop_at, self.k, self.rs = stop_at, 0, 0

        def _on_rollout_start(self):
            self.rs = len(events)

        def _on_step(self):
            self.k += 1
            if self.stop_at is not None and self.k == self.stop_at:
                stops.append(sum(1 for e_ in events if e_[0] == "fwd") - 1)    # env step whose callback returns False
                dropped.append([self.rs, len(events)])                           # records of the rollout that is abandoned
                return False
            return True

        def _on_rollout_end(self):
            rb = self.model.rollout_buffer
            T = rb.buffer_size
            obs_tags = []
            for t in range(T):
                if isinstance(rb.observations, dict):
                    batch = {k: v[t] for k, v in rb.observations.items()}
                else:
                    batch = rb.observations[t]
                    if isinstance(ospace, spaces.Discrete):
                        batch = batch.reshape(ne)
                if vn_obs:
                    g = len(snaps) * T + t
                    ok = g < len(venv.before) and eq(batch, venv.before[g][0])
                    obs_tags.append(list(venv.before[g][1]) if ok else ["unmatched-normalised-observation"] * ne)
                    continue
                try:
                    obs_tags.append(se.decode_batch(dspace, batch, ne))
                except se.MixedObservation as ex:
                    obs_tags.append([f"mixed:{ex}"] * ne)
            # independent recomputation on the frozen policy (oracle side)
            with th.no_grad():
                if isinstance(rb.observations, dict):
                    flat_obs = {k: th.as_tensor(v.reshape((T * ne, *v.shape[2:]))) for k, v in rb.observations.items()}
                else:
                    flat_obs = th.as_tensor(rb.observations.reshape((T * ne, *rb.observations.shape[2:])))
                acts = th.as_tensor(rb.actions.reshape(T * ne, -1))
                if isinstance(self.model.action_space, spaces.Discrete):
                    acts = acts.long().flatten()
                v2, lp2, _ = pol.evaluate_actions(flat_obs, acts)
                lv2 = o_pv(obs_as_tensor(self.locals["new_obs"], "cpu"))
            snaps.append({
                "obs_tags": obs_tags, "actions": rb.actions.astype(np.float64).reshape(T, ne, -1).tolist(), "rewards": rb.rewards.astype(np.float64).tolist(),
                "starts": rb.episode_starts.astype(np.float64).tolist(), "values": rb.values.astype(np.float64).tolist(), "logps": rb.log_probs.astype(np.float64).tolist(),
                "advantages": rb.advantages.astype(np.float64).tolist(), "returns": rb.returns.astype(np.float64).tolist(), "lam": float(rb.gae_lambda),
                "full": bool(rb.full), "re_values": v2.numpy().astype(np.float64).reshape(T, ne).tolist(), "re_logps": lp2.numpy().astype(np.float64).reshape(T, ne).tolist(),
                "last_values": self.locals["values"].detach().cpu().numpy().astype(np.float64).reshape(-1).tolist(), "re_last_values": lv2.numpy().astype(np.float64).reshape(-1).tolist(),
                "dones": [bool(d) for d in self.locals["dones"]], "new_obs_tags": lookup(self.locals["new_obs"]) if vn_obs else se.decode_batch(dspace, self.locals["new_obs"], ne),
                "n_events": len(events), "call": len(call_bounds),
            })

    call_bounds = []
    for c in case["calls"]:
        call_bounds.append(len(snaps))
        st_cfg = case.get("stop") or {}
        model.learn(total_timesteps=c["total"], callback=Snap(st_cfg.get("step") if st_cfg.get("call") == len(call_bounds) - 1 else None),
                    reset_num_timesteps=c["reset"])
    # V(terminal obs) recomputed is only valid before train(): recompute from recorded pv calls instead (same params within a rollout)
    space = base.action_space
    sp = {"low": np.asarray(space.low, dtype=np.float64).reshape(-1).tolist(), "high": np.asarray(space.high, dtype=np.float64).reshape(-1).tolist()} if isinstance(space, spaces.Box) else {}
    return {"events": events, "snaps": snaps, "gt": [base.envs[e].gt for e in range(ne)], "space": sp, "squash": bool(pol.squash_output),
            "seen_r": venv.seen_r if vn else None, "term_bad": venv.term_bad if vn else [],
            "use_sde": bool(getattr(model, "use_sde", False)), "sde_resets": sde_resets,
            "sde_freq": int(getattr(model, "sde_sample_freq", -1)), "dropped": dropped, "stops": stops}


def _worker(case):
    from harness import cov_collect as branchcov

    try:
        if branchcov.enabled():
            branchcov.start(list(COV_TARGETS))
            try:
                res = run_impl(case)
            finally:
                cov = branchcov.stop()
            res["cov"] = cov
            return res
        return run_impl(case)
    except Exception:  # noqa: BLE001
        import traceback

        return {"error": traceback.format_exc()[-2500:]}


# ---------------------------------------------------------------- reconstruction of the oracle inputs

def structure(case, impl):
    """align forward / predict_values records with rollouts; returns (rollouts, problems).
    rollouts[r] = {"call", "fwd": [event per step], "boot": [ {env: (tag, value)} per step ], "last": pv event}"""
    ne, ns = case["n_envs"], case["n_steps"]
    probs, out = [], []
    ev = impl["events"]
    gone = set()
    for a_, b_ in impl.get("dropped", []):
        gone.update(range(a_, b_))
    nfwd_before = []        # number of forward calls (= env steps) before event index i
    cnt = 0
    for e_ in ev:
        nfwd_before.append(cnt)
        cnt += int(e_[0] == "fwd")
    pos = 0
    for r, sn in enumerate(impl["snaps"]):
        idxs = [i for i in range(pos, sn["n_events"]) if i not in gone]
        seg = [ev[i] for i in idxs]
        pos = sn["n_events"]
        fw = [j for j, e in enumerate(seg) if e[0] == "fwd"]
        if len(fw) != ns:
            probs.append(("oracle-steps-per-rollout", f"rollout {r}: {len(fw)} policy forward calls for n_steps={ns}"))
            return out, probs
        ro = {"call": sn["call"], "fwd": [], "pv": [], "last": None, "g0": nfwd_before[idxs[fw[0]]]}
        for q, j in enumerate(fw):
            nxt = fw[q + 1] if q + 1 < len(fw) else len(seg)
            pvs = seg[j + 1:nxt]
            if q == len(fw) - 1:
                if not pvs:
                    probs.append(("oracle-last-values-missing", f"rollout {r}: no value call after the last step"))
                    return out, probs
                ro["last"] = pvs[-1]
                pvs = pvs[:-1]
            ro["fwd"].append(seg[j])
            ro["pv"].append(pvs)
        out.append(ro)
    return out, probs


def ground_truth(case, impl):
    """per env: every env step in order with what the policy should have seen before it ("saw"), whether an episode
    started there ("start": previous done, or an env reset issued by learn()), and what the vec env returned after it
    ("returned": the step's observation, or the auto-reset observation when done)"""
    cols = []
    for e in range(case["n_envs"]):
        steps, cur_obs, start, pending = [], None, True, False
        for rec in impl["gt"][e]:
            if rec[0] == "reset":
                if pending:          # DummyVecEnv's auto-reset right after a done step
                    pending = False
                    steps[-1]["returned"] = rec[1]
                    cur_obs = rec[1]
                else:                # reset issued by learn()
                    cur_obs, start = rec[1], True
                continue
            _, tag, r, te, tr, action = rec[:6]
            done = te or tr
            steps.append({"saw": cur_obs, "start": start, "tag": tag, "r": r, "term": te, "trunc": tr, "done": done, "action": action,
                          "returned": tag, "info": rec[6] if len(rec) > 6 else None})
            start, pending = done, done
            if not done:
                cur_obs = tag
        cols.append(steps)
    return cols


def close(a, b, rel=1e-5, ab=1e-5):
    return abs(a - b) <= ab + rel * max(abs(a), abs(b))


def oracle(case, impl, ros):
    import numpy as np

    probs = []
    ne, ns, gamma = case["n_envs"], case["n_steps"], case["gamma"]
    gt = ground_truth(case, impl)
    act = case["act"]
    lo, hi = impl["space"].get("low"), impl["space"].get("high")
    for g, e, got, exp in impl.get("term_bad", []):
        probs.append(("oracle-terminal-observation-not-normalised", f"step {g} env {e}: the terminal observation handed over under VecNormalize starts with {got}, "
                                                                    f"the observations the policy is trained on are normalised ({exp})"))
    # the env is reset by learn() only on the first call and when the counters are reset: otherwise the last observation is carried over
    want_resets = 1 + sum(1 for c in case["calls"][1:] if c["reset"])
    for e in range(ne):
        ext, pending = 0, False
        for rec in impl["gt"][e]:
            if rec[0] == "reset":
                if pending:
                    pending = False
                else:
                    ext += 1
            else:
                pending = bool(rec[3] or rec[4])
        if ext != want_resets:
            probs.append(("oracle-env-reset-between-learn-calls", f"env {e} was reset from outside {ext} times, expected {want_resets} "
                                                                  f"(calls: {[c['reset'] for c in case['calls']]}; reset_num_timesteps=False must continue from the last observation)"))
    if impl.get("use_sde") and not case.get("stop"):
        f = impl["sde_freq"]
        for r in range(len(impl["snaps"])):
            got = [p - r * ns for p in impl["sde_resets"] if r * ns <= p < (r + 1) * ns]
            want = [0] + [j for j in range(ns) if f > 0 and j % f == 0]
            if got != want:
                probs.append(("oracle-sde-resample-cadence", f"rollout {r} ({ns} steps, sde_sample_freq {f}): reset_noise at step indices {got}, expected {want}"))
                break
    for r, (ro, sn) in enumerate(zip(ros, impl["snaps"])):
        if not sn["full"]:
            probs.append(("oracle-buffer-not-full", f"rollout {r}: buffer not full at rollout end"))
        for t in range(ns):
            g = ro["g0"] + t
            f = ro["fwd"][t]
            boot_envs = [e for e in range(ne) if g < len(gt[e]) and gt[e][g]["trunc"] and not gt[e][g]["term"]]
            pvs = ro["pv"][t]
            if len(pvs) != len(boot_envs):
                kind = "oracle-bootstrap-missing" if len(pvs) < len(boot_envs) else "oracle-bootstrap-unexpected"
                probs.append((kind, f"rollout {r} step {t}: {len(pvs)} terminal-value calls, envs truncated-and-not-terminated: {boot_envs} "
                                    f"(flags {[(gt[e][g]['term'], gt[e][g]['trunc']) for e in range(ne)]})"))
            for e in range(ne):
                if g >= len(gt[e]):
                    probs.append(("oracle-env-steps", f"env {e} made {len(gt[e])} steps, buffer has step {g}"))
                    continue
                s = gt[e][g]
                where = f"rollout {r} step {t} env {e}"
                if sn["obs_tags"][t][e] != s["saw"]:
                    probs.append(("oracle-observation", f"{where}: buffer observation {sn['obs_tags'][t][e]}, the env had shown {s['saw']}"))
                if f[1][e] != s["saw"]:
                    probs.append(("oracle-policy-input", f"{where}: policy was evaluated on {f[1][e]}, the env had shown {s['saw']}"))
                if bool(sn["starts"][t][e]) != s["start"]:
                    probs.append(("oracle-episode-start", f"{where}: episode_start {sn['starts'][t][e]}, previous done/reset says {s['start']}"))
                if sn["actions"][t][e] != f[2][e]:
                    probs.append(("oracle-action", f"{where}: buffer action {sn['actions'][t][e]} != sampled {f[2][e]}"))
                if sn["values"][t][e] != f[3][e] or sn["logps"][t][e] != f[4][e]:
                    probs.append(("oracle-value-logprob", f"{where}: buffer value/log-prob differ from the forward call's"))
                if not close(sn["values"][t][e], sn["re_values"][t][e], 1e-4, 1e-4) or not close(sn["logps"][t][e], sn["re_logps"][t][e], 1e-4, 1e-4):
                    probs.append(("oracle-value-logprob-recomputed", f"{where}: value {sn['values'][t][e]} / log-prob {sn['logps'][t][e]} but evaluate_actions gives "
                                                                      f"{sn['re_values'][t][e]} / {sn['re_logps'][t][e]}"))
                base_r = impl["seen_r"][g][e] if impl.get("seen_r") else s["r"]   # under VecNormalize: the normalised reward it was handed
                want = base_r
                if e in boot_envs and len(pvs) == len(boot_envs):
                    pvrec = pvs[boot_envs.index(e)]
                    if len(pvrec) > 3 and not close(pvrec[2][0], pvrec[3][0], 1e-4, 1e-4):
                        probs.append(("oracle-bootstrap-value-not-critic-value", f"{where}: the bootstrap used V(terminal obs) = {pvrec[2][0]}, but the policy's critic "
                                                                                 f"(policy.forward on the same observation) gives {pvrec[3][0]}"))
                    if pvrec[1] != [s["tag"]]:
                        probs.append(("oracle-bootstrap-observation", f"{where}: bootstrap value taken at {pvrec[1]}, terminal observation is {s['tag']}"))
                    want = base_r + gamma * pvrec[2][0]
                if not close(sn["rewards"][t][e], want):
                    probs.append(("oracle-reward", f"{where}: buffer reward {sn['rewards'][t][e]}, expected {want} (env reward {s['r']}, terminated={s['term']}, truncated={s['trunc']})"))
                a = np.asarray(f[2][e], dtype=np.float64)
                if act in ("box", "box_asym", "box_sde"):
                    exp = np.clip(a, lo, hi)
                elif act == "box_squash":
                    exp = np.asarray(lo) + 0.5 * (a + 1.0) * (np.asarray(hi) - np.asarray(lo))
                else:
                    exp = a
                if not np.allclose(np.asarray(s["action"]), exp, rtol=1e-5, atol=1e-5):
                    probs.append(("oracle-env-action", f"{where}: env received {s['action']}, sampled {a.tolist()} -> expected {exp.tolist()}"))
                if lo is not None and not (np.all(np.asarray(s["action"]) >= np.asarray(lo) - 1e-6) and np.all(np.asarray(s["action"]) <= np.asarray(hi) + 1e-6)):
                    probs.append(("oracle-env-action-out-of-bounds", f"{where}: env received {s['action']} outside [{lo}, {hi}]"))
        # end to end: the advantage in the buffer is the discounted sum of the definition over the env-side log and the policy's values
        lam = sn.get("lam", 1.0)
        for e in range(ne):
            cells = []
            for t in range(ns):
                g = ro["g0"] + t
                if g >= len(gt[e]):
                    break
                s = gt[e][g]
                base_r = impl["seen_r"][g][e] if impl.get("seen_r") else s["r"]
                rew = base_r
                if s["trunc"] and not s["term"]:
                    cand = [p for p in ro["pv"][t] if p[1] == [s["tag"]]]
                    if cand:
                        rew = base_r + gamma * (cand[0][3][0] if len(cand[0]) > 3 else cand[0][2][0])
                nv = ro["fwd"][t + 1][3][e] if t + 1 < ns else (ro["last"][3][e] if len(ro["last"]) > 3 else ro["last"][2][e])
                cells.append((rew, ro["fwd"][t][3][e], nv, 0.0 if s["done"] else 1.0))
            if len(cells) == ns:
                for t in range(ns):
                    acc, coef = 0.0, 1.0
                    for k in range(t, ns):
                        rw, v, nv, nnt = cells[k]
                        acc += coef * (rw + gamma * nv * nnt - v)
                        coef *= gamma * lam * nnt
                        if nnt == 0.0:
                            break
                    got = sn["advantages"][t][e]
                    if not close(got, acc, 1e-4, 1e-4):
                        probs.append(("oracle-pipeline-advantage", f"rollout {r} step {t} env {e}: buffer advantage {got}, discounted sum over the env log and the policy's values {acc} "
                                                                   f"(gamma {gamma}, lambda {lam}, cells (reward', V, next V, non-terminal) {cells[t:]})"))
                        break
                    if not close(sn["returns"][t][e], got + cells[t][1], 1e-4, 1e-4):
                        probs.append(("oracle-pipeline-return", f"rollout {r} step {t} env {e}: return {sn['returns'][t][e]} != advantage + value {got + cells[t][1]}"))
                        break
        # last values
        g_last = ro["g0"] + ns - 1
        for e in range(ne):
            if g_last >= len(gt[e]):
                continue
            s = gt[e][g_last]
            if ro["last"][1][e] != s["returned"]:
                probs.append(("oracle-last-values-observation", f"rollout {r} env {e}: last values computed at {ro['last'][1][e]}, observation after the last step is {s['returned']}"))
            if sn["new_obs_tags"][e] != s["returned"]:
                probs.append(("oracle-last-values-observation", f"rollout {r} env {e}: new_obs {sn['new_obs_tags'][e]} but the env returned {s['returned']}"))
            if sn["dones"][e] != s["done"]:
                probs.append(("oracle-last-dones", f"rollout {r} env {e}: dones {sn['dones'][e]} vs env {s['done']}"))
            if len(ro["last"]) > 3 and not close(ro["last"][2][e], ro["last"][3][e], 1e-4, 1e-4):
                probs.append(("oracle-last-values-not-critic-value", f"rollout {r} env {e}: last value {ro['last'][2][e]}, but the policy's critic (policy.forward on new_obs) gives {ro['last'][3][e]}"))
            if sn["last_values"][e] != ro["last"][2][e] or not close(sn["last_values"][e], sn["re_last_values"][e], 1e-4, 1e-4):
                probs.append(("oracle-last-values", f"rollout {r} env {e}: last value {sn['last_values'][e]} vs recomputed {sn['re_last_values'][e]}"))
    if impl.get("stops"):
        # finding: the slot written first after a stop request (learn() continued with reset_num_timesteps=False) is built from the stale
        # _last_obs / _last_episode_starts.  Classified precisely: only that slot, only observation / policy input / episode start
        resumed = {g + 1 for g in impl["stops"]}
        out = []
        for sg, msg in probs:
            hit = None
            if sg in ("oracle-observation", "oracle-policy-input", "oracle-episode-start") and not case["calls"][-1]["reset"]:
                for r, ro in enumerate(ros):
                    for t in range(ns):
                        if ro["g0"] + t in resumed and msg.startswith(f"rollout {r} step {t} env"):
                            hit = ro["g0"] + t
            out.append((STOP_SIG, f"first slot after the stop request at env step {hit - 1} (learn() continued with reset_num_timesteps=False): " + msg) if hit is not None else (sg, msg))
        probs = out
    return probs


# ---------------------------------------------------------------- model

def fq(x):
    return coq_Q(Fraction(float(x)))


def model_exprs(case, impl, ros):
    """one expression per env column"""
    from harness import scripted_envs as se

    ne, ns = case["n_envs"], case["n_steps"]
    lo, hi = impl["space"].get("low"), impl["space"].get("high")
    act = case["act"]
    if act in ("box", "box_asym", "box_sde"):
        ak = f"(ActClip {coq_list(lo, fq)} {coq_list(hi, fq)})"
    elif act == "box_squash":
        ak = f"(ActSquash {coq_list(lo, fq)} {coq_list(hi, fq)})"
    else:
        ak = "ActId"
    gt = ground_truth(case, impl)
    exprs = []
    PIPE_CALLS = {}
    ncalls = len(case["calls"])
    for e in range(ne):
        calls, impls = [], []
        for ci in range(ncalls):
            rs, ims = [], []
            for r, (ro, sn) in enumerate(zip(ros, impl["snaps"])):
                if ro["call"] != ci + 1:
                    continue
                ps, im = [], []
                for t in range(ns):
                    f = ro["fwd"][t]
                    g = r * ns + t
                    tv = 0.0
                    # the terminal-value calls of this step, in env order, belong to the envs the MODEL bootstraps; the model
                    # cannot know them before it runs, so hand every env the value of the call whose observation is its terminal obs
                    for pvrec in ro["pv"][t]:
                        if g < len(gt[e]) and pvrec[1] == [gt[e][g]["tag"]]:
                            tv = pvrec[2][0]
                    ps.append(f"mkP {coq_Z(r * ns + t)} {coq_list(f[2][e], fq)} {fq(f[3][e])} {fq(f[4][e])} {fq(tv)}")
                    envact = gt[e][g]["action"] if g < len(gt[e]) else []
                    rew = Fraction(float(sn["rewards"][t][e]))
                    if impl.get("seen_r") and g < len(gt[e]):
                        rew = rew - Fraction(float(impl["seen_r"][g][e])) + Fraction(gt[e][g]["r"])
                    im.append(f"({coq_Q(rew)}, {coq_list(envact, fq)})")
                rs.append(coq_list(ps))
                ims.append(coq_list(im))
            eff_reset = case["calls"][ci]["reset"] or ci == 0
            calls.append(f"({coq_bool(eff_reset)}, {coq_list(rs)})")
            impls.append(coq_list(ims))
        PIPE_CALLS[e] = coq_list(calls)
        exprs.append(f"check_col (1 # 100000)%Q (1 # 100000)%Q {ak} {fq(case['gamma'])} {se.coq_script(case['scripts'][e])} {coq_list(calls)} {coq_list(impls)}")
    if impl.get("use_sde"):
        exprs.append(f"sde_calls true {coq_Z(impl['sde_freq'])} {common.coq_nat(ns)}")
    if not case.get("vecnorm"):
        lam = impl["snaps"][0].get("lam", 1.0) if impl["snaps"] else 1.0
        for e in range(ne):
            lvss, advss = [], []
            for ci in range(ncalls):
                lvs, advs = [], []
                for r, (ro, sn) in enumerate(zip(ros, impl["snaps"])):
                    if ro["call"] != ci + 1:
                        continue
                    lvs.append(fq(ro["last"][2][e]))
                    advs.append(coq_list([sn["advantages"][t][e] for t in range(ns)], fq))
                lvss.append(coq_list(lvs))
                advss.append(coq_list(advs))
            exprs.append(f"check_pipeline (1 # 10000)%Q (1 # 10000)%Q {ak} {fq(case['gamma'])} {fq(lam)} {se.coq_script(case['scripts'][e])} {PIPE_CALLS[e]} {coq_list(lvss)} {coq_list(advss)}")
    return exprs


def compare(case, impl, ros, vals):
    probs = []
    ne, ns = case["n_envs"], case["n_steps"]
    if not case.get("vecnorm"):
        base = ne + (1 if impl.get("use_sde") else 0)
        for e in range(ne):
            flat = [ro for call in vals[base + e] for ro in call]
            for r, oks in enumerate(flat):
                if len(oks) != ns or not all(oks):
                    probs.append(("pipeline-advantage", f"rollout {r} env {e}: buffer advantages {impl['snaps'][r]['advantages'] if r < len(impl['snaps']) else None} differ from "
                                                        f"Model.Pipeline.pipeline_adv (agreement per step: {oks})"))
                    break
    if impl.get("use_sde"):
        for r in range(len(impl["snaps"])):
            got = [p - r * ns for p in impl["sde_resets"] if r * ns <= p < (r + 1) * ns]
            if got != vals[ne]:
                probs.append(("sde-resample-positions", f"rollout {r}: impl reset_noise positions {got}, model {vals[ne]}"))
                break
    for e in range(ne):
        flat = [ro for call in vals[e] for ro in call]
        if len(flat) != len(impl["snaps"]):
            probs.append(("rollout-count", f"env {e}: model has {len(flat)} rollouts, impl {len(impl['snaps'])}"))
            continue
        for r, ((slots, last_obs, dones), sn, ro) in enumerate(zip(flat, impl["snaps"], ros)):
            for t, (obs, pid, start, boot, bootobs, rew_ok, act_ok) in enumerate(slots):
                where = f"rollout {r} step {t} env {e}"
                if sn["obs_tags"][t][e] != obs:
                    probs.append(("slot-observation", f"{where}: impl {sn['obs_tags'][t][e]} model {obs}"))
                if ro["fwd"][t][1][e] != obs:
                    probs.append(("policy-input", f"{where}: policy saw {ro['fwd'][t][1][e]} model {obs}"))
                if bool(sn["starts"][t][e]) != start:
                    probs.append(("slot-episode-start", f"{where}: impl {sn['starts'][t][e]} model {start}"))
                if not rew_ok:
                    probs.append(("slot-reward", f"{where}: impl reward {sn['rewards'][t][e]}; model bootstraps={boot} at {bootobs}"))
                if not act_ok:
                    probs.append(("env-action", f"{where}: env action differs from the model's"))
                nboot = len(ro["pv"][t])
                if boot and not any(p[1] == [bootobs[1] if isinstance(bootobs, tuple) else bootobs] for p in ro["pv"][t]):
                    probs.append(("bootstrap-observation", f"{where}: model bootstraps at {bootobs}, impl value calls at {[p[1] for p in ro['pv'][t]]}"))
            if ro["last"][1][e] != last_obs:
                probs.append(("last-values-observation", f"rollout {r} env {e}: impl {ro['last'][1][e]} model {last_obs}"))
            if sn["dones"][e] != dones:
                probs.append(("last-dones", f"rollout {r} env {e}: impl {sn['dones'][e]} model {dones}"))
        # number of bootstraps per step must agree as well
    flats = [[ro for call in vals[e] for ro in call] for e in range(ne)]
    if all(len(f) == len(ros) for f in flats):
        for r, ro in enumerate(ros):
            for t in range(ns):
                nb = sum(1 for e in range(ne) if flats[e][r][0][t][3])
                if nb != len(ro["pv"][t]):
                    probs.append(("bootstrap-count", f"rollout {r} step {t}: model bootstraps {nb} envs, impl made {len(ro['pv'][t])} terminal-value calls"))
    return probs


def stop_exprs(case, impl):
    """stop cases: the stop-aware model of every env column over ALL env steps (flag = the callback returned False there)"""
    from harness import scripted_envs as se

    stops = set(impl["stops"])
    fw = [e for e in impl["events"] if e[0] == "fwd"]
    ex = []
    for e in range(case["n_envs"]):
        ps = [f"(mkP {coq_Z(g)} {coq_list(f[2][e], fq)} {fq(f[3][e])} {fq(f[4][e])} 0, {coq_bool(g in stops)})" for g, f in enumerate(fw)]
        ex.append(f"show_collect_s ActId {fq(case['gamma'])} {se.coq_script(case['scripts'][e])} {coq_list(ps)}")
    return ex


def compare_stop(case, impl, ros, vals):
    probs = []
    ns = case["n_steps"]
    stops = sorted(impl["stops"])
    for e in range(case["n_envs"]):
        by_id = {pid: (obs, start) for obs, start, pid in vals[e]}
        for r, (ro, sn) in enumerate(zip(ros, impl["snaps"])):
            for t in range(ns):
                g = ro["g0"] + t
                if g not in by_id:
                    probs.append(("stop-slots", f"rollout {r} step {t} env {e}: the model writes no slot for env step {g}"))
                    continue
                obs, start = by_id[g]
                if sn["obs_tags"][t][e] != obs or bool(sn["starts"][t][e]) != start:
                    probs.append(("stop-slots", f"rollout {r} step {t} env {e} (env step {g}): impl (obs, episode_start) {(sn['obs_tags'][t][e], bool(sn['starts'][t][e]))}, "
                                                f"Model.OnPolicyCollect.collect_s {(obs, start)}"))
    return probs


def run_cases(chk, cases, procs=4):
    import multiprocessing as mp

    ctx = mp.get_context("fork")
    with ctx.Pool(min(procs, max(1, len(cases)))) as pool:
        impls = pool.map(_worker, cases, chunksize=1)
    results = [None] * len(cases)
    exprs, spans, structs = [], {}, {}
    for i, (c, im) in enumerate(zip(cases, impls)):
        if im.get("error"):
            results[i] = [("impl-exception", im["error"][-800:])]
            continue
        ros, probs = structure(c, im)
        if probs:
            results[i] = probs
            continue
        structs[i] = ros
        try:
            ex = stop_exprs(c, im) if c.get("stop") else model_exprs(c, im, ros)
        except Exception as exn:  # noqa: BLE001
            results[i] = [("oracle-structure", f"cannot align records: {exn!r}")]
            continue
        spans[i] = (len(exprs), len(exprs) + len(ex))
        exprs += ex
    vals = common.coq_eval_many(chk.pid, HEADER, exprs, shard=30, procs=4) if exprs else []
    for i, (a, b) in spans.items():
        o = oracle(cases[i], impls[i], structs[i])
        m = (compare_stop if cases[i].get("stop") else compare)(cases[i], impls[i], structs[i], vals[a:b])
        results[i] = o + [("model-correspondence-" + s, msg) for s, msg in m]
    return impls, results


def nontrivial(case, impl):
    gt = impl.get("gt") or []
    flags = {(s[3], s[4]) for col in gt for s in col if s[0] == "step"}
    return (False, True) in flags and (True, False) in flags and len(impl.get("snaps", [])) >= 2


def oracle_first(cases, impls, results):
    """reporting order: cases whose statement-level oracle fails (concrete input) before cases where only model and implementation
    disagree, so that the cap on reported violations never hides a concrete input behind a model-correspondence line"""
    def rank(i):
        pr = results[i] or []
        if any(not sg.startswith("model-correspondence-") and sg != "impl-exception" for sg, _ in pr):
            return 0
        return 1 if pr else 2
    order = sorted(range(len(cases)), key=rank)
    return [(cases[i], impls[i], results[i]) for i in order]


def main():
    chk = Check("C06", groups=["onpolicy"])
    chk.build_props()
    n_cases = 84 if chk.tier == "quick" else 1200
    cases = []
    corpus = os.path.join(common.VERIF, "corpus", "C06.jsonl")
    if os.path.exists(corpus):
        cases += [json.loads(l) for l in open(corpus) if l.strip()]
    n_corpus = len(cases)
    for i in range(n_cases):
        cases.append(gen_case(chk.rng, i))
    impls, results = run_cases(chk, cases)
    distinct = set()
    hist = {"split_extractors": 0, "vecnorm": 0, "vecnorm_obs": 0, "algo": {}, "act": {}, "obs": {}, "n_envs": {}, "n_steps": {}, "calls": {}, "bootstraps": 0, "both_flags_steps": 0, "rollouts": 0}
    for c, im, probs in oracle_first(cases, impls, results):
        for k in ("algo", "act", "obs", "n_envs", "n_steps"):
            hist[k][c[k]] = hist[k].get(c[k], 0) + 1
        hist["calls"][len(c["calls"])] = hist["calls"].get(len(c["calls"]), 0) + 1
        hist["vecnorm"] += int(bool(c.get("vecnorm")))
        hist["split_extractors"] += int(bool(c.get("split_fe")))
        hist["vecnorm_obs"] += int(bool(c.get("vecnorm")) and bool(c.get("vn_obs")))
        if not im.get("error"):
            hist["rollouts"] += len(im["snaps"])
            hist["bootstraps"] += sum(1 for e in im["events"] if e[0] == "pv") - len(im["snaps"])
            hist["both_flags_steps"] += sum(1 for col in im["gt"] for s in col if s[0] == "step" and s[3] and s[4])
            if nontrivial(c, im):
                distinct.add(json.dumps({k: c[k] for k in c if k != "id"}, sort_keys=True))
        if any(sg == STOP_SIG for sg, _ in probs) and not any(v["signature"] == STOP_SIG for v in chk.violations):
            chk.violation(STOP_SIG, "; ".join(m for sg, m in probs if sg == STOP_SIG)[:700], {"case": c, "problems": [q for q in probs if q[0] == STOP_SIG][:6]}, found_input=True)
        probs = [q for q in probs if q[0] != STOP_SIG]
        if probs and len([v for v in chk.violations if v["signature"] != STOP_SIG]) < 3:
            oracle_bad = [s for s, _ in probs if s.startswith("oracle-")]
            sig = oracle_bad[0] if oracle_bad else probs[0][0]
            chk.violation(sig, "; ".join(m for s, m in probs if s == sig)[:700],
                          {"case": c, "problems": probs[:10], "correspondence": "harness/c06.py vs Model.OnPolicyCollect.check_col"},
                          found_input=bool(oracle_bad) or sig == "impl-exception")
    chk.coverage["evaluations"] = len(cases)
    chk.coverage["traces_validated_against_impl"] = sum(1 for im in impls if not im.get("error"))
    chk.coverage["distinct_nontrivial"] = len(distinct)
    chk.coverage["rule"] = ("real PPO/A2C learn() (1-2 calls, with/without counter reset) on scripted envs: n_envs 1-3, n_steps 1-6, Box (clipped, asymmetric, squashed gSDE, unsquashed gSDE) / Discrete / "
                            "MultiDiscrete / MultiBinary actions, Box rank 1-2 / Dict / Discrete observations, gamma 0.5/0.9/0.99; every (rollout, step, env) cell compared; "
                            "non-trivial = the run contains a truncated-not-terminated step and a terminated step and at least two rollouts; distinct = distinct case description")
    chk.notes["input_distribution"] = hist
    chk.notes["corpus_cases"] = n_corpus
    chk.add_samples([{k: cases[i][k] for k in ("algo", "n_envs", "n_steps", "act", "obs", "gamma", "calls")} for i in (n_corpus, n_corpus + 1) if i < len(cases)])
    chk.assumptions += [
        "policy outputs (actions, values, log-probs, V(terminal obs), last values) are oracle inputs of the model, recorded from the run; the oracle recomputes them with evaluate_actions / predict_values on the frozen policy (1e-4)",
        "float32 rounding is not modelled: rewards and unsquashed actions are compared at rel/abs 1e-5",
        "VecNormalize runs: the reward/observation the algorithm is handed is taken from a recording wrapper around VecNormalize (its statistics are C15's subject)",
        "a learn() stopped by a callback is exercised; the step whose callback returned False is not added (known finding F20)",
    ]
    from harness import cov_collect as branchcov

    if branchcov.enabled():
        executed = {tuple(x) for im in impls for x in (im.get("cov") or [])}
        chk.notes["branchcov"] = {"targets": {k: v for k, v in COV_TARGETS.items()}, "never_executed": branchcov.report(COV_TARGETS, executed)}
    return chk.finish()


def replay(path):
    d = json.load(open(path))
    case = d["replay"]["case"]
    chk = Check("C06", groups=["onpolicy"])
    impls, results = run_cases(chk, [case], procs=1)
    print(json.dumps({"problems": results[0]}, indent=1)[:4000])
    return 1 if results[0] else 0
