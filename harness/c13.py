"""C13 - callback event protocol.

Proof side:  Props/C13.v (trace grammar of learn() for every callback tree / run length / fuel; CallbackList
             forwarding; cadence of Checkpoint / Eval / EveryNTimesteps / StopTrainingOnMaxEpisodes over the
             conditions regenerated from callbacks.py), Refuted/C13_everyN.v (finding F8).
Tie:         real PPO / A2C / SAC / DQN / TD3 .learn() with random callback trees (real CallbackList,
             EveryNTimesteps, EvalCallback, CheckpointCallback, StopTrainingOnMaxEpisodes, recording leaves) on
             scripted envs; the events delivered to the root, every recorder's log, every node's counters and
             ghost logs are compared with Model.Callbacks.run_case fed with the run's own `dones` counts and
             evaluation means (oracles).
Oracle:      written from the property text (independent of the model): grammar of the root trace with the
             env-step counter, locals of that very step, stop halts before the next env step, list children see
             every event, cadence of checkpoint / eval / every-N.
"""
from __future__ import annotations

import json
import os

from harness import common
from harness.common import Check, coq_Z, coq_bool, coq_list

REGISTRY = dict(
    text=("Proof (unbounded): for every callback tree, rollout kind, n_envs, fuel and dones oracle the events learn() delivers to the root callback form "
          "TS (RS (env-step Step)^k RE)* (RS (env-step Step)^j with the last Step returning False)? TE with num_timesteps growing by n_envs and the step counter by one per Step; "
          "after a Step that returned False only training-end follows; every CallbackList child (through any nesting of lists) is delivered exactly the root's events, also after a sibling returned False, "
          "and the list returns the conjunction; Checkpoint/Eval fire exactly when n_calls mod freq = 0 counted across learn() calls, EveryNTimesteps fires iff num_timesteps - last_trigger >= n and, "
          "when last_trigger <= num_timesteps, every gap lies in [n, n+n_envs); StopTrainingOnMaxEpisodes stops iff cumulated dones >= max_episodes*n_envs. "
          "Cadence conditions and loop guards are regenerated from callbacks.py / on_policy_algorithm.py / off_policy_algorithm.py / utils.py / base_class.py. "
          "Known findings of C13: everyN-stale-trigger-after-counter-reset (F8: a Refuted theorem, reproduced on the implementation) and nested-callbacklist-loses-parent "
          "(F24: StopTrainingOnRewardThreshold / StopTrainingOnNoModelImprovement two CallbackLists deep below an EvalCallback assert on the first learn())."),
    note=("Trusted: Coq 8.16.1 kernel (vm_compute, no native_compute), translate/py2coq.py + specs/callbacks.py, harness/c13.py, Python/numpy/torch/gymnasium. "
          "Modelled, not verified: evaluate_policy inside EvalCallback (its mean reward is an oracle input; most runs stub it, some run the real one), file writing of checkpoints, "
          "ProgressBarCallback / LogEveryNTimesteps (not modelled); forwarding for ALL histories is proved for CallbackList paths, the children of EveryNTimesteps / EvalCallback have one-step theorems plus the all-history cadence of their parent. All C13 theorems are closed under the global context."),
    technique="machine-checked proof in Coq (induction over loop fuel and over callback trees) + regenerated-fragment interface lemmas + differential trace correspondence",
)

COV_TARGETS = {
    "stable_baselines3/common/callbacks.py": ["BaseCallback", "EventCallback", "CallbackList", "CheckpointCallback", "ConvertCallback", "EvalCallback",
                                              "StopTrainingOnRewardThreshold", "EveryNTimesteps", "StopTrainingOnMaxEpisodes", "StopTrainingOnNoModelImprovement"],
    "stable_baselines3/common/on_policy_algorithm.py": ["OnPolicyAlgorithm.collect_rollouts", "OnPolicyAlgorithm.learn"],
    "stable_baselines3/common/off_policy_algorithm.py": ["OffPolicyAlgorithm.collect_rollouts", "OffPolicyAlgorithm.learn"],
    "stable_baselines3/common/base_class.py": ["BaseAlgorithm._init_callback", "BaseAlgorithm._setup_learn"],
}

HEADER = """From Coq Require Import List ZArith Bool.
From SB3V Require Import Model.Callbacks.
Import ListNotations.
Local Open Scope Z_scope.
"""

F8_SIG = "everyN-stale-trigger-after-counter-reset"
NESTED_SIG = "nested-callbacklist-loses-parent"


def nested_parent_users(tree):
    """StopTrainingOnRewardThreshold / NoModelImprovement nodes that sit at least two CallbackLists deep below an EvalCallback
    child slot: CallbackList._init_callback initialises a child list BEFORE handing it its own parent, so on the first learn()
    the inner list passes parent=None on"""
    out = []

    def walk(t, depth, under_eval):
        if t is None:
            return
        k = t["t"]
        if k in ("thresh", "noimp") and under_eval and depth >= 2:
            out.append(k)
        if k == "list":
            for c in t["ch"]:
                walk(c, depth + 1, under_eval)
        elif k in ("everyn", "event"):
            walk(t["c"], 0, False)
        elif k == "eval":
            walk(t["ob"], 0, True)
            walk(t["af"], 0, True)

    walk(tree, 0, False)
    return out
ALGOS = ["PPO", "A2C", "SAC", "DQN", "TD3"]


# ---------------------------------------------------------------- generators

def gen_tree(rng, depth, under_best=False, top=False, evp=False):
    """evp: the node's `parent` attribute is an EvalCallback (directly or through CallbackLists), so
    StopTrainingOnRewardThreshold / StopTrainingOnNoModelImprovement may be placed here"""
    kinds = ["rec", "rec", "list", "everyn", "everyn", "event", "eval", "ckpt", "maxep", "conv"]
    if depth <= 0:
        kinds = ["rec", "rec", "ckpt", "maxep", "conv"]
    if evp:
        kinds += ["thresh", "thresh", "noimp", "noimp"]
    if under_best:
        kinds = [k for k in kinds if k != "maxep"]  # locals are never delivered below callback_on_new_best
    k = "list" if top and rng.random() < 0.7 else rng.choice(kinds)
    if k == "rec":
        return {"t": "rec", "stop": rng.choice([0, 0, 0, rng.randint(1, 14), rng.randint(1, 8)]), "ret": rng.choice(["bool", "np", "th"])}
    if k == "list":
        n = rng.choice([0, 1, 2, 2, 3, 4])
        return {"t": "list", "ch": [gen_tree(rng, depth - 1, under_best, evp=evp) for _ in range(n)]}
    if k == "everyn":
        # callback=None is accepted by EventCallback: the trigger then just returns True
        return {"t": "everyn", "n": rng.choice([1, 2, 3, 4, 5, 7, 9, rng.randint(1, 12)]), "c": None if rng.random() < 0.15 else gen_tree(rng, depth - 1, under_best)}
    if k == "event":
        # a plain EventCallback: forwards training-start and locals to its child, never steps it, always continues
        return {"t": "event", "c": None if rng.random() < 0.2 else gen_tree(rng, depth - 1, under_best)}
    if k == "eval":
        return {"t": "eval", "freq": rng.choice([0, 1, 2, 2, 3, 5]), "evals": [rng.randint(-6, 6) for _ in range(rng.randint(0, 12))],
                "n_eval": rng.choice([1, 2, 3]), "raw_env": rng.random() < 0.3, "log": rng.random() < 0.4, "best": rng.random() < 0.4, "verbose": rng.choice([0, 0, 1]),
                "ob": None if rng.random() < 0.3 else ({"t": "rec", "stop": rng.randint(1, 3)} if rng.random() < 0.25 else gen_tree(rng, depth - 1, True, evp=True)),
                "af": None if rng.random() < 0.3 else gen_tree(rng, depth - 1, under_best, evp=True)}
    if k == "ckpt":
        return {"t": "ckpt", "freq": rng.randint(1, 7), "rb": rng.random() < 0.5, "vn": rng.random() < 0.5, "verbose": rng.choice([0, 2])}
    if k == "conv":
        return {"t": "conv", "stop": rng.choice([0, 0, 0, rng.randint(1, 14)]), "ret": rng.choice(["bool", "np", "th"])}
    if k == "thresh":
        return {"t": "thresh", "thr": rng.randint(-4, 6), "verbose": rng.choice([0, 1])}
    if k == "noimp":
        return {"t": "noimp", "mx": rng.randint(0, 3), "me": rng.randint(0, 3), "verbose": rng.choice([0, 1])}
    return {"t": "maxep", "m": rng.randint(1, 4), "verbose": rng.choice([0, 1])}


def gen_case(rng, i):
    from harness import scripted_envs as se

    algo = ALGOS[i % 4] if rng.random() < 0.9 else "TD3"
    n_envs = rng.choice([1, 1, 2, 3])
    if algo in ("PPO", "A2C"):
        rk = ["onpol", rng.randint(1, 6)]
    elif n_envs == 1 and rng.random() < 0.4:
        rk = ["epis", rng.randint(1, 3)]
    else:
        rk = ["step", rng.randint(1, 5)]
    calls = [{"total": rng.randint(1, 26), "reset": rng.random() < 0.5} for _ in range(rng.choice([1, 2, 2, 3]))]
    tree = gen_tree(rng, rng.randint(1, 4), top=True)
    # how the callback is handed to learn(): the object itself, a plain Python list of callbacks (learn() builds the CallbackList),
    # a plain function (learn() builds a ConvertCallback), or None
    root_mode = "object"
    u = rng.random()
    if u < 0.05:
        tree, root_mode = None, "none"
    elif u < 0.15:
        tree, root_mode = {"t": "conv", "stop": rng.choice([0, 0, rng.randint(1, 14)]), "ret": rng.choice(["bool", "np", "th"])}, "function"
    elif tree["t"] == "list" and tree["ch"] and rng.random() < 0.3:
        root_mode = "list"
    has_eval = any(t["t"] == "eval" for t in preorder(tree))
    vecnorm = rng.random() < 0.3
    if vecnorm and has_eval:
        for t in preorder(tree):
            if t["t"] == "eval":
                t["raw_env"] = False          # the eval env must be wrapped like the training env
    return {"id": i, "root_mode": root_mode, "algo": algo, "n_envs": n_envs, "rk": rk, "calls": calls, "tree": tree,
            "scripts": [se.gen_script(rng, max_len=5, tag_base=1000 * e) for e in range(n_envs)],
            "real_eval": rng.random() < 0.12, "vecnorm": vecnorm, "learning_starts": rng.choice([0, 3, 1000]), "seed": rng.randint(0, 10**6)}


def coq_tree(t, ne):
    if t is None:
        return "Nop"
    k = t["t"]
    if k == "rec":
        return f"(rec_ {coq_Z(t['stop'])})"
    if k == "list":
        return f"(clist {coq_list([coq_tree(c, ne) for c in t['ch']])})"
    if k == "everyn":
        return f"(everyn {coq_Z(t['n'])} {coq_tree(t['c'], ne)})"
    if k == "event":
        return f"(everyn {coq_Z(10**9)} {coq_tree(t['c'], ne)})"       # never triggers
    if k == "eval":
        return f"(eval_ {coq_Z(t['freq'])} {coq_list(t['evals_used'], coq_Z)} {coq_tree(t['ob'], ne)} {coq_tree(t['af'], ne)})"
    if k == "ckpt":
        return f"(checkpoint {coq_Z(t['freq'])})"
    if k == "maxep":
        return f"(maxep {coq_Z(t['m'])} {coq_Z(ne)})"
    if k == "conv":
        return f"(conv {coq_Z(t['stop'])})"
    if k == "thresh":
        return f"(thresh {coq_Z(t['thr'] * t.get('scale', 1))})"
    if k == "noimp":
        return f"(noimp {coq_Z(t['mx'])} {coq_Z(t['me'])})"
    raise ValueError(k)


def coq_rk(rk):
    return {"onpol": "OnPol", "step": "OffStep", "epis": "OffEpis"}[rk[0]] + f" {coq_Z(rk[1])}"


# ---------------------------------------------------------------- implementation run

def run_impl(case):
    """runs the real learn() calls; returns everything observed (JSON-able)"""
    import tempfile
    import warnings

    import numpy as np
    import torch as th

    th.set_num_threads(1)
    import stable_baselines3 as sb3
    from stable_baselines3.common import callbacks as cbm
    from stable_baselines3.common.vec_env import DummyVecEnv, VecEnvWrapper

    from harness import scripted_envs as se

    ne = case["n_envs"]
    algo = case["algo"]
    act_kind = {"PPO": "discrete", "A2C": "box", "SAC": "box_asym", "DQN": "discrete", "TD3": "box"}[algo]

    class Stamp(VecEnvWrapper):
        def __init__(self, venv):
            super().__init__(venv)
            self.count = 0
            self.steps = []  # (count, ndones)
            self.last = None
            self.last_actions = None
            self.roll_pos = 0        # env steps since the last rollout-start event at the root

        def reset(self):
            return self.venv.reset()

        def step_async(self, actions):
            self.last_actions = np.array(actions, copy=True)
            self.venv.step_async(actions)

        def step_wait(self):
            obs, rews, dones, infos = self.venv.step_wait()
            self.count += 1
            self.roll_pos += 1
            for inf in infos:
                inf["vstep"] = self.count
            self.steps.append((self.count, int(np.sum(dones))))
            self.last = (np.array(obs, copy=True), np.array(rews, copy=True), np.array(dones, copy=True))
            return obs, rews, dones, infos

    venv = Stamp(DummyVecEnv([se.make_env_fn(case["scripts"][e], obs_kind="box1", act_kind=act_kind, env_id=e) for e in range(ne)]))
    train_env = venv
    if case.get("vecnorm"):
        from stable_baselines3.common.vec_env import VecNormalize

        train_env = VecNormalize(venv, norm_obs=True, norm_reward=False, clip_obs=1e9)
    aux_saves = []   # (kind, file name) of replay-buffer / VecNormalize checkpoints
    tmp = tempfile.mkdtemp(prefix="c13_")
    nodes = []  # pre-order (spec, object)
    save_log = []
    fired_log = {}
    eval_log = {}

    stop_requests = []     # env-step counter at every falsy answer of a recorder / function callback

    def answer(go_on, kind):
        """the value a user callback returns: a Python bool, a numpy bool (what `np.mean(x) < thr` gives) or a 0-dim torch tensor;
        its truthiness is the stop bit"""
        if not go_on:
            stop_requests.append(int(venv.count))
        return {"bool": bool(go_on), "np": np.bool_(go_on), "th": th.tensor(bool(go_on))}[kind]

    class Recorder(cbm.BaseCallback):
        def __init__(self, stop_at, ret="bool"):
            super().__init__()
            self.stop_at = stop_at
            self.ret = ret
            self.log = []
            self.locals_ok = True
            self.has_locals = True           # False below callback_on_new_best (never handed training-start / locals by EvalCallback)
            self.delivered = None            # env step of the last update_locals() call delivered to THIS object
            self.loc_problems = []

        def update_locals(self, locals_):
            infos = locals_.get("infos")
            self.delivered = int(infos[0]["vstep"]) if infos else -1
            super().update_locals(locals_)

        def _entry(self, kind):
            infos = self.locals.get("infos")
            stamp = int(infos[0]["vstep"]) if infos else -1
            self.log.append([kind, int(self.n_calls), int(self.num_timesteps), stamp])
            return stamp

        def _on_training_start(self):
            self._entry(0)

        def _on_rollout_start(self):
            self._entry(1)

        def _on_step(self):
            stamp = self._entry(2)
            if self.has_locals and len(self.loc_problems) < 3:
                c_ = venv.count
                if self.delivered != c_:
                    self.loc_problems.append(["oracle-locals-not-forwarded", f"step event during env step {c_}: the last update_locals() delivered to this callback was for env step {self.delivered}"])
                if stamp != c_:
                    self.loc_problems.append(["oracle-locals-not-of-this-step", f"step event during env step {c_}: self.locals describe env step {stamp}"])
                else:
                    lo = self.locals
                    sent = lo.get("clipped_actions") if "clipped_actions" in lo else lo.get("actions")
                    if sent is None or not np.array_equal(np.asarray(sent).reshape(np.asarray(venv.last_actions).shape), venv.last_actions):
                        self.loc_problems.append(["oracle-locals-not-of-this-step", f"env step {c_}: the actions in self.locals are not the ones the env received"])
                    pos = lo.get("n_steps") + 1 if "n_steps" in lo else lo.get("num_collected_steps")
                    if pos != venv.roll_pos:
                        self.loc_problems.append(["oracle-locals-not-of-this-step", f"env step {c_}: step counter in self.locals says {pos}, it is step {venv.roll_pos} of the rollout"])
            if stamp >= 0 and stamp == venv.count:
                o, r, d = venv.last
                lo = self.locals
                if case.get("vecnorm"):
                    o = train_env.normalize_obs(o)     # statistics are those in force since this very step
                if not (np.allclose(np.asarray(lo["new_obs"]), o, rtol=0, atol=0) and np.array_equal(np.asarray(lo["dones"]), d)
                        and np.array_equal(np.asarray(lo["rewards"]), r)):
                    self.locals_ok = False
            return answer(self.n_calls != self.stop_at, self.ret)

        def _on_rollout_end(self):
            self._entry(3)

        def _on_training_end(self):
            self._entry(4)

    def build(t, nolocals=False):
        if t is None:
            return None
        k = t["t"]
        idx = len(nodes)
        nodes.append([t, None])
        if k == "rec":
            o = Recorder(t["stop"], t.get("ret", "bool"))
            o.has_locals = not nolocals
        elif k == "list":
            o = cbm.CallbackList([build(c, nolocals) for c in t["ch"]])
        elif k == "everyn":
            o = cbm.EveryNTimesteps(n_steps=t["n"], callback=build(t["c"], nolocals))
            fired_log[idx] = []
            orig = o._on_event

            def on_event(o=o, orig=orig, idx=idx):
                fired_log[idx].append(int(o.num_timesteps))
                return orig()

            o._on_event = on_event
        elif k == "event":
            o = cbm.EventCallback(build(t["c"], nolocals))
        elif k == "eval":
            from stable_baselines3.common.monitor import Monitor

            ev_script = {"episodes": [{"reset_tag": 1, "reset_info": 0, "steps": [{"tag": 2, "r4": 4 * ((j % 5) - 2), "term": True, "trunc": False, "info": 0,
                                                                                      "is_success": j % 2 == 0}]} for j in range(7)]}
            raw = Monitor(se.ScriptedEnv(ev_script, obs_kind="box1", act_kind=act_kind))
            if t.get("raw_env") and not case.get("vecnorm"):
                eval_env = raw                                      # a plain gym.Env: EvalCallback wraps it in a DummyVecEnv itself
            elif case.get("vecnorm"):
                from stable_baselines3.common.vec_env import VecNormalize

                class Pass(VecEnvWrapper):                          # same wrapper depth as the training env (Stamp)
                    def reset(self):
                        return self.venv.reset()

                    def step_wait(self):
                        return self.venv.step_wait()

                eval_env = VecNormalize(Pass(DummyVecEnv([lambda: raw])), training=False, norm_obs=True, norm_reward=False, clip_obs=1e9)
            else:
                eval_env = DummyVecEnv([lambda: raw])
            ob = build(t["ob"], True)
            af = build(t["af"], nolocals)
            o = cbm.EvalCallback(eval_env, callback_on_new_best=ob, callback_after_eval=af, n_eval_episodes=t.get("n_eval", 2), eval_freq=t["freq"],
                                 verbose=t.get("verbose", 0), warn=False,
                                 log_path=os.path.join(tmp, f"evallog{idx}") if t.get("log") else None,
                                 best_model_save_path=os.path.join(tmp, f"best{idx}") if t.get("best") else None)
            o._verif_idx = idx
            o._verif_queue = list(t["evals"])
            eval_log[idx] = {"at": [], "means": [], "n_eval": []}
        elif k == "ckpt":
            o = cbm.CheckpointCallback(save_freq=t["freq"], save_path=tmp, name_prefix=f"ck{idx}x", save_replay_buffer=bool(t.get("rb")),
                                       save_vecnormalize=bool(t.get("vn")), verbose=t.get("verbose", 0))
        elif k == "conv":
            clog = []

            def fn(locals_, globals_, clog=clog, idx=idx):
                infos = locals_.get("infos")
                # a plain function only sees locals / globals: it keeps its own call count; the timestep counter is the model's
                clog.append([2, len(clog) + 1, int(model.num_timesteps), int(infos[0]["vstep"]) if infos else -1])
                return answer(len(clog) != nodes[idx][0]["stop"], nodes[idx][0].get("ret", "bool"))

            o = cbm.ConvertCallback(fn)
            o._verif_log = clog
            o._verif_fn = fn
        elif k == "thresh":
            o = cbm.StopTrainingOnRewardThreshold(reward_threshold=float(t["thr"]), verbose=t.get("verbose", 0))
        elif k == "noimp":
            o = cbm.StopTrainingOnNoModelImprovement(max_no_improvement_evals=t["mx"], min_evals=t["me"], verbose=t.get("verbose", 0))
        elif k == "maxep":
            o = cbm.StopTrainingOnMaxEpisodes(max_episodes=t["m"], verbose=t.get("verbose", 0))
        else:
            raise ValueError(k)
        nodes[idx][1] = o
        return o

    root = build(case["tree"])

    real_eval = cbm.evaluate_policy

    def eval_stub(model, env, n_eval_episodes=10, callback=None, **kw):
        owner = callback.__self__
        rec = eval_log[owner._verif_idx]
        rec["at"].append([int(owner.n_calls), int(owner.num_timesteps)])
        rec["n_eval"].append(int(n_eval_episodes))
        rec.setdefault("env", []).append(int(venv.count))
        if case.get("vecnorm"):
            rec.setdefault("sync", []).append(bool(np.allclose(owner.eval_env.obs_rms.mean, train_env.obs_rms.mean) and np.allclose(owner.eval_env.obs_rms.var, train_env.obs_rms.var)))
        if case["real_eval"]:
            rews, lens = real_eval(model, env, n_eval_episodes=n_eval_episodes, callback=callback, **kw)
            m8 = float(np.mean(rews)) * 24
            assert abs(m8 - round(m8)) < 1e-6, rews
            m8 = round(m8)
            rec["means"].append(int(m8))
            return rews, lens
        q = owner._verif_queue
        mean = q.pop(0) if q else 0
        rec["means"].append(int(mean))
        return [float(mean)] * n_eval_episodes, [1] * n_eval_episodes

    # root-level observation: the algorithm calls these six methods on the root object
    root_trace = []
    envcount = []

    def wrap_root(obj):
        o_ts, o_rs, o_ul, o_st, o_re, o_te = obj.on_training_start, obj.on_rollout_start, obj.update_locals, obj.on_step, obj.on_rollout_end, obj.on_training_end

        def ts(l, g):
            root_trace[-1].append([0, int(model.num_timesteps), 0, True]); envcount[-1].append(venv.count); return o_ts(l, g)

        def rs():
            venv.roll_pos = 0
            root_trace[-1].append([1, 0, 0, True]); envcount[-1].append(venv.count); return o_rs()

        def ul(l):
            infos = l.get("infos")
            root_trace[-1].append([9, int(infos[0]["vstep"]) if infos else -1, int(np.sum(l["dones"])) if "dones" in l else -1, True])
            envcount[-1].append(venv.count)
            return o_ul(l)

        def st():
            r = o_st()
            root_trace[-1].append([2, int(model.num_timesteps), 0, bool(r)]); envcount[-1].append(venv.count)
            return r

        def re_():
            root_trace[-1].append([3, 0, 0, True]); envcount[-1].append(venv.count); return o_re()

        def te():
            root_trace[-1].append([4, 0, 0, True]); envcount[-1].append(venv.count); return o_te()

        obj.on_training_start, obj.on_rollout_start, obj.update_locals, obj.on_step, obj.on_rollout_end, obj.on_training_end = ts, rs, ul, st, re_, te

    root_mode = case.get("root_mode", "object")
    if root_mode == "object":
        wrap_root(root)
        cb_arg = root
    else:
        cb_arg = {"list": lambda: list(root.callbacks), "function": lambda: root._verif_fn, "none": lambda: None}[root_mode]()

    th.manual_seed(case["seed"])
    pk = dict(net_arch=[8])
    rk = case["rk"]
    if algo == "PPO":
        model = sb3.PPO("MlpPolicy", train_env, n_steps=rk[1], batch_size=max(2, rk[1] * ne), n_epochs=1, normalize_advantage=False, policy_kwargs=pk, device="cpu", seed=case["seed"])
    elif algo == "A2C":
        model = sb3.A2C("MlpPolicy", train_env, n_steps=rk[1], policy_kwargs=pk, device="cpu", seed=case["seed"])
    else:
        tf = (rk[1], "step" if rk[0] == "step" else "episode")
        cls = getattr(sb3, algo)
        model = cls("MlpPolicy", train_env, train_freq=tf, learning_starts=case["learning_starts"], batch_size=4, buffer_size=200, gradient_steps=1,
                    policy_kwargs=pk, device="cpu", seed=case["seed"])
    made_roots = []
    mcls = type(model)
    o_ic = mcls._init_callback
    if root_mode != "object":
        def init_cb(self_, callback, progress_bar=False):
            r = o_ic(self_, callback, progress_bar)       # learn() builds the root itself (CallbackList / ConvertCallback) at every call
            wrap_root(r)
            made_roots.append(r)
            return r

        mcls._init_callback = init_cb                    # class-level patch (an instance attribute would be pickled by model.save)
    orig_save = mcls.save

    def rec_save(self_, path, *a, **k):
        base = os.path.basename(str(path))
        if base.startswith("ck"):
            idx = int(base[2:].split("x")[0])
            o = nodes[idx][1]
            save_log.append([idx, int(o.n_calls), int(o.num_timesteps), base])
        return orig_save(self_, path, *a, **k)

    mcls.save = rec_save
    orig_srb = getattr(mcls, "save_replay_buffer", None)
    if orig_srb is not None:
        def rec_srb(self_, path, *a, **k):
            aux_saves.append(["rb", os.path.basename(str(path))])
            return orig_srb(self_, path, *a, **k)

        mcls.save_replay_buffer = rec_srb
    from stable_baselines3.common.vec_env import VecNormalize as _VN
    orig_vns = _VN.save

    def rec_vns(self_, path):
        aux_saves.append(["vn", os.path.basename(str(path))])
        return orig_vns(self_, path)

    _VN.save = rec_vns
    cbm.evaluate_policy = eval_stub
    call_info = []
    err = None
    try:
        with warnings.catch_warnings():
            warnings.simplefilter("ignore")
            for c in case["calls"]:
                root_trace.append([])
                envcount.append([])
                n0 = len(venv.steps)
                last_before = {i: int(o.last_time_trigger) for i, (t, o) in enumerate(nodes) if t["t"] == "everyn"}
                fired_before = {i: len(fired_log[i]) for i in fired_log}
                import contextlib
                import io

                with contextlib.redirect_stdout(io.StringIO()):
                    model.learn(total_timesteps=c["total"], callback=cb_arg, reset_num_timesteps=c["reset"])
                call_info.append({"dones": [d for _, d in venv.steps[n0:]], "nt_end": int(model.num_timesteps), "last_before": last_before,
                                  "fired": {i: fired_log[i][fired_before[i]:] for i in fired_log}})
    except Exception as e:  # noqa: BLE001
        import traceback

        err = traceback.format_exc()[-1500:]
    finally:
        cbm.evaluate_policy = real_eval
        mcls.save = orig_save
        mcls._init_callback = o_ic
        _VN.save = orig_vns
        if orig_srb is not None:
            mcls.save_replay_buffer = orig_srb
    files = sorted(os.listdir(tmp))
    eval_files = {}
    for i, (t, o) in enumerate(nodes):
        if t["t"] == "eval":
            ef = {}
            if t.get("log"):
                pth = os.path.join(tmp, f"evallog{i}", "evaluations.npz")
                if os.path.exists(pth):
                    z = np.load(pth)
                    ef["timesteps"] = [int(x) for x in z["timesteps"]]
                    ef["n_results"] = [int(np.asarray(r).size) for r in z["results"]]
                else:
                    ef["timesteps"] = None
            if t.get("best"):
                ef["best_exists"] = os.path.exists(os.path.join(tmp, f"best{i}", "best_model.zip"))
            eval_files[str(i)] = ef
    import shutil

    shutil.rmtree(tmp, ignore_errors=True)
    obs_nodes = []
    for i, (t, o) in enumerate(nodes):
        k = t["t"]
        ent = []
        if k == "rec":
            code, ent = 0, o.log
        elif k == "list":
            code = 1
        elif k == "everyn":
            code, ent = 2, [[5, 0, int(o.last_time_trigger), 0]] + [[5, 0, nt, 0] for nt in fired_log[i]]
        elif k == "event":
            code, ent = 2, [[5, 0, 0, 0]]
        elif k == "eval":
            code = 3
            b = o.best_mean_reward
            scale = 24 if case["real_eval"] else 1
            ent = [[6, 0, 0, 0] if b == -np.inf else [6, 0, int(round(b * scale)), 1]] + [[6, c_, nt, 0] for c_, nt in eval_log[i]["at"]]
        elif k == "ckpt":
            code, ent = 4, [[7, c_, nt, 0] for j, c_, nt, _ in save_log if j == i]
        elif k == "maxep":
            code, ent = 5, [[8, 0, 0, int(o.n_episodes)]]
        elif k == "conv":
            code, ent = 6, o._verif_log
            if case.get("root_mode") == "function":
                obs_nodes.append([code, len(ent), ent[-1][2] if ent else 0, ent])
                continue
        elif k == "thresh":
            code = 7
        else:
            code = 8
            lb = o.last_best_mean_reward
            scale = 24 if case["real_eval"] else 1
            ent = [[12, 0, 0, int(o.no_improvement_evals)] if lb == -np.inf else [12, 1, int(round(lb * scale)), int(o.no_improvement_evals)]]
        obs_nodes.append([code, int(o.n_calls), int(o.num_timesteps), ent])
    return {"error": err, "root_trace": root_trace, "envcount": envcount, "nodes": obs_nodes, "calls": call_info,
            "eval_means": {str(i): eval_log[i]["means"] for i in eval_log}, "files": files,
            "saves": save_log, "stop_requests": stop_requests,
            "locals_problems": [[i] + pr for i, (t, o) in enumerate(nodes) if t["t"] == "rec" for pr in o.loc_problems], "eval_files": eval_files, "eval_sync": {str(i): eval_log[i].get("sync", []) for i in eval_log},
            "made_roots": [[type(r).__name__, int(r.n_calls), int(r.num_timesteps)] for r in made_roots], "aux_saves": aux_saves, "eval_n": {str(i): eval_log[i]["n_eval"] for i in eval_log}, "eval_env": {str(i): eval_log[i].get("env", []) for i in eval_log},
            "off_policy": algo not in ("PPO", "A2C"), "locals_ok": [bool(o.locals_ok) for t, o in nodes if t["t"] == "rec"],
            "final": [int(model.num_timesteps), int(venv.count)]}


def _worker(case):
    import warnings

    warnings.simplefilter("ignore")
    from harness import cov_collect as branchcov

    try:
        if branchcov.enabled():
            branchcov.start(list(COV_TARGETS))
            try:
                res = run_impl(case)
            finally:
                cov = branchcov.stop()
            res["cov"] = cov
            return res
        return run_impl(case)
    except Exception:  # noqa: BLE001
        import traceback

        return {"error": traceback.format_exc()[-2000:]}


# ---------------------------------------------------------------- oracle (from the property text)

def list_reachable(tree):
    """pre-order indices of nodes reached from the root through CallbackLists only"""
    out, idx = [], [0]

    def walk(t, reach):
        if t is None:
            return
        i = idx[0]
        idx[0] += 1
        if reach:
            out.append(i)
        k = t["t"]
        if k == "list":
            for c in t["ch"]:
                walk(c, reach)
        elif k in ("everyn", "event"):
            walk(t["c"], False)
        elif k == "eval":
            walk(t["ob"], False)
            walk(t["af"], False)

    walk(tree, True)
    return out


def preorder(tree):
    out = []

    def walk(t):
        if t is None:
            return
        out.append(t)
        k = t["t"]
        if k == "list":
            for c in t["ch"]:
                walk(c)
        elif k in ("everyn", "event"):
            walk(t["c"])
        elif k == "eval":
            walk(t["ob"])
            walk(t["af"])

    walk(tree)
    return out


def oracle(case, impl):
    """list of (signature, message)"""
    probs = []
    ne = case["n_envs"]
    specs = preorder(case["tree"])
    reach = list_reachable(case["tree"])
    env_before = 0
    cum_time = 0  # env timesteps over all calls
    for ci, (tr, ec) in enumerate(zip(impl["root_trace"], impl["envcount"])):
        tag = f"learn#{ci}"
        if not tr or tr[0][0] != 0 or tr[-1][0] != 4:
            probs.append(("oracle-grammar-start-end", f"{tag}: trace does not start with training-start and end with training-end"))
            continue
        if any(e[0] in (0, 4) for e in tr[1:-1]):
            probs.append(("oracle-grammar-start-end", f"{tag}: training-start/end occurs more than once"))
        nt = tr[0][1]
        want_nt0 = 0 if case["calls"][ci]["reset"] or ci == 0 else None
        if want_nt0 is not None and nt != want_nt0:
            probs.append(("oracle-counter-at-start", f"{tag}: num_timesteps at training start = {nt}"))
        env = ec[0]
        if env != env_before:
            probs.append(("oracle-env-step-outside-learn", f"{tag}: env step counter moved between learn() calls"))
        state = "idle"  # idle | rollout | stopped
        pending_ul = None
        for j in range(1, len(tr) - 1):
            k, a, b, r = tr[j]
            if state == "stopped":
                probs.append(("oracle-event-after-stop", f"{tag}: event {tr[j]} after a step event returned False"))
                break
            if k == 1:
                if state != "idle":
                    probs.append(("oracle-grammar-rollout", f"{tag}: rollout-start inside a rollout at {j}"))
                state = "rollout"
            elif k == 9:
                if state != "rollout":
                    probs.append(("oracle-grammar-rollout", f"{tag}: update_locals outside a rollout at {j}"))
                if ec[j] == env + 1:          # a new env step happened just before
                    env += 1
                    pending_ul = a
                    if a != env:
                        probs.append(("oracle-locals-not-of-this-step", f"{tag}: locals at event {j} are of env step {a}, env has made {env}"))
                elif ec[j] == env and tr[j + 1][0] == 3 and a == env:
                    pass                      # on-policy refresh of locals before rollout-end, same step
                else:
                    probs.append(("oracle-env-steps-per-event", f"{tag}: env counter {ec[j]} at update_locals {j}, expected {env + 1}"))
                    env = ec[j]
            elif k == 2:
                if state != "rollout" or pending_ul is None:
                    probs.append(("oracle-step-without-env-step", f"{tag}: step event {j} not preceded by exactly one env step + update_locals"))
                pending_ul = None
                if ec[j] != env:
                    probs.append(("oracle-env-steps-per-event", f"{tag}: env counter {ec[j]} at step event {j}, expected {env}"))
                nt += ne
                cum_time += ne
                if a != nt:
                    probs.append(("oracle-num-timesteps", f"{tag}: step event {j} has num_timesteps {a}, expected {nt}"))
                if not r:
                    state = "stopped"
            elif k == 3:
                if state != "rollout":
                    probs.append(("oracle-grammar-rollout", f"{tag}: rollout-end outside a rollout at {j}"))
                state = "idle"
            else:
                probs.append(("oracle-grammar-rollout", f"{tag}: unexpected event {tr[j]}"))
        if state == "rollout":
            probs.append(("oracle-unfinished-rollout-without-stop", f"{tag}: last rollout has no rollout-end although no step returned False"))
        if ec[-1] != env:
            probs.append(("oracle-env-step-after-stop", f"{tag}: env stepped to {ec[-1]} before training-end, last step event saw {env}"))
        env_before = ec[-1]
        # every-N starvation / early firing for nodes that receive every step
        info = impl["calls"][ci] if ci < len(impl["calls"]) else None
        if info:
            steps_nt = [e[1] for e in tr if e[0] == 2]
            for i in reach:
                if specs[i]["t"] != "everyn":
                    continue
                n = specs[i]["n"]
                fired = info["fired"].get(i, info["fired"].get(str(i), []))
                marks = [tr[0][1]] + list(fired) + ([steps_nt[-1]] if steps_nt else [])
                starving = any(marks[q + 1] - marks[q] >= n + ne for q in range(len(marks) - 1))
                if starving:
                    lb = info["last_before"].get(i, info["last_before"].get(str(i), 0))
                    # F8 class, precisely: the trigger time kept from an earlier learn() lies in the future of the
                    # (reset) counter when this learn() starts
                    first_stretch = (marks[1] - marks[0]) >= n + ne and all(marks[q + 1] - marks[q] < n + ne for q in range(1, len(marks) - 1))
                    stale = ci > 0 and lb > tr[0][1] and first_stretch    # only the stretch from learn() start up to the first trigger / the end of the call
                    probs.append((F8_SIG if stale else "oracle-everyN-starved",
                                  f"{tag}: EveryNTimesteps(n={n}) node {i} let {max(marks[q + 1] - marks[q] for q in range(len(marks) - 1))} timesteps pass without firing "
                                  f"(fired at {fired}, last_time_trigger was {lb} when learn() started at num_timesteps {tr[0][1]})"))
                if any(fired[q + 1] - fired[q] < n for q in range(len(fired) - 1)):
                    probs.append(("oracle-everyN-too-early", f"{tag}: EveryNTimesteps(n={n}) node {i} fired at {fired}"))
    # list children see every event
    root_events = [[e for e in tr if e[0] != 9] for tr in impl["root_trace"]]
    flat = [e for tr in root_events for e in tr]
    for i in reach:
        if specs[i]["t"] == "rec":
            log = impl["nodes"][i][3]
            if [e[0] for e in log] != [e[0] for e in flat]:
                probs.append(("oracle-list-child-missed-event", f"recorder node {i} saw kinds {[e[0] for e in log][:40]} but the root received {[e[0] for e in flat][:40]}"))
            else:
                nsteps = 0
                for e, re_ in zip(log, flat):
                    if e[0] == 2:
                        nsteps += 1
                        if e[1] != nsteps or e[2] != re_[1]:
                            probs.append(("oracle-list-child-counters", f"recorder node {i}: step entry {e} but root step {re_} (#{nsteps})"))
                            break
                    if e[0] == 0 and e[2] != re_[1]:
                        probs.append(("oracle-list-child-counters", f"recorder node {i}: training-start entry {e} but the model's num_timesteps was {re_[1]}"))
                        break
    # StopTrainingOnMaxEpisodes / recorder stop requests that receive every step: the root must return False
    for i in reach:
        if specs[i]["t"] == "maxep":
            cum, nd = 0, 0
            for tr in impl["root_trace"]:
                for e in tr:
                    if e[0] == 9 and e[1] >= 0:
                        nd = e[2]
                    elif e[0] == 2:
                        cum += nd
                        if cum >= specs[i]["m"] * ne and e[3]:
                            probs.append(("oracle-maxep-not-stopped", f"StopTrainingOnMaxEpisodes({specs[i]['m']}) node {i}: {cum} episodes ended on {ne} envs but the step event at num_timesteps {e[1]} returned True"))
                            break
        if specs[i]["t"] == "rec" and specs[i]["stop"] > 0:
            k = 0
            for tr in impl["root_trace"]:
                for e in tr:
                    if e[0] == 2:
                        k += 1
                        if k == specs[i]["stop"] and e[3]:
                            probs.append(("oracle-stop-request-ignored", f"recorder node {i} returned False at its call {k} but the root step event returned True"))
    if not all(impl["locals_ok"]):
        probs.append(("oracle-locals-not-of-this-step", "a recorder's locals (new_obs/rewards/dones) differ from what env.step just returned"))
    # cadence of checkpoint / eval nodes: exactly the calls with n_calls % freq == 0
    for i, t in enumerate(specs):
        calls = impl["nodes"][i][1]
        if t["t"] == "ckpt":
            got = [e[1] for e in impl["nodes"][i][3]]
            want = [c for c in range(1, calls + 1) if c % t["freq"] == 0]
            if got != want:
                probs.append(("oracle-checkpoint-cadence", f"checkpoint node {i} freq {t['freq']}: saved at calls {got}, expected {want}"))
            for e in impl["nodes"][i][3]:
                pass
        if t["t"] == "eval":
            got = [e[1] for e in impl["nodes"][i][3][1:]]
            want = [c for c in range(1, calls + 1) if t["freq"] > 0 and c % t["freq"] == 0]
            if got != want:
                probs.append(("oracle-eval-cadence", f"eval node {i} freq {t['freq']}: evaluated at calls {got}, expected {want}"))
    # checkpoint files carry the timestep of the save
    want_files = sorted({s[3] for s in impl["saves"]})
    if want_files != [f for f in impl["files"] if f.endswith(".zip")]:
        probs.append(("oracle-checkpoint-files", f"files {impl['files']} vs saves {want_files}"))
    want_aux = []
    for idx, c_, nt, base in impl["saves"]:
        if base != f"ck{idx}x_{nt}_steps.zip":
            probs.append(("oracle-checkpoint-files", f"checkpoint file {base} does not name num_timesteps {nt}"))
        # replay buffer / VecNormalize statistics are saved at the same instants, when asked for and present
        if specs[idx].get("rb") and impl.get("off_policy"):
            want_aux.append(["rb", f"ck{idx}x_replay_buffer_{nt}_steps.pkl"])
        if specs[idx].get("vn") and case.get("vecnorm"):
            want_aux.append(["vn", f"ck{idx}x_vecnormalize_{nt}_steps.pkl"])
    if sorted(map(tuple, want_aux)) != sorted(map(tuple, impl.get("aux_saves", []))):
        probs.append(("oracle-checkpoint-aux-files", f"replay-buffer / VecNormalize checkpoints {impl.get('aux_saves')} expected {want_aux}"))
    if sorted({f for _, f in want_aux}) != [f for f in impl["files"] if f.endswith(".pkl")]:
        probs.append(("oracle-checkpoint-aux-files", f"pkl files {[f for f in impl['files'] if f.endswith('.pkl')]} expected {sorted({f for _, f in want_aux})}"))
    # children of EvalCallback, from the documented rules (every False propagates to the root: lists conjoin, event callbacks
    # return their child's result)
    ret_at = {}
    for tr in impl["root_trace"]:
        for j, e in enumerate(tr):
            if e[0] == 9 and j + 1 < len(tr) and tr[j + 1][0] == 2:
                ret_at[e[1]] = tr[j + 1][3]
    for i, sg, msg in impl.get("locals_problems", []):
        probs.append((sg, f"recorder node {i}: " + msg))
    if not any(t["t"] in ("maxep", "thresh", "noimp") for t in specs):
        # only recorders / functions can ask to stop in this tree: a falsy root answer needs such a request at that very env step
        asked = set(impl.get("stop_requests", []))
        for ec, ret in sorted(ret_at.items()):
            if not ret and ec not in asked:
                probs.append(("oracle-stopped-without-request", f"the root step event of env step {ec} returned a falsy value although no callback in the tree asked to stop"))
                break
    for ec in impl.get("stop_requests", []):
        if ret_at.get(ec, False):
            probs.append(("oracle-stop-request-ignored", f"a callback answered with a falsy value (False / np.bool_(False) / th.tensor(False)) at env step {ec}, "
                                                        f"but the root step event returned a truthy value and training went on"))
            break
    scale = 24 if case["real_eval"] else 1
    for i, t in enumerate(specs):
        if t["t"] != "eval":
            continue
        means = impl["eval_means"].get(str(i), [])
        envs = impl.get("eval_env", {}).get(str(i), [])
        best, new_best = None, []
        for m in means:
            nb = best is None or m > best
            new_best.append(nb)
            if nb:
                best = m
        ob, af = t["ob"], t["af"]
        if ob is not None and ob["t"] in ("rec", "conv"):
            calls = impl["nodes"][i + 1][1]
            if calls != sum(new_best):
                probs.append(("oracle-on-new-best-count", f"eval node {i}: callback_on_new_best was stepped {calls} times, the means {means} contain {sum(new_best)} strict improvements"))
        if ob is not None and ob["t"] == "thresh":
            for m, nb, ec in zip(means, new_best, envs):
                if nb and m >= ob["thr"] * scale and ret_at.get(ec, False):
                    probs.append(("oracle-reward-threshold-not-stopped", f"eval node {i}: new best mean {m / scale} >= threshold {ob['thr']} at env step {ec}, but the step event returned True"))
        if ob is None and af is not None and af["t"] == "noimp":
            last, cnt, bestk = None, 0, None
            for k, (m, ec) in enumerate(zip(means, envs), 1):
                bestk = m if bestk is None or m > bestk else bestk
                stop = False
                if k > af["me"]:
                    if last is None or bestk > last:
                        cnt = 0
                    else:
                        cnt += 1
                        stop = cnt > af["mx"]
                last = bestk
                got_stop = not ret_at.get(ec, True)
                only_stopper = not any((x["t"] in ("rec", "conv") and x["stop"] > 0) or x["t"] in ("maxep", "thresh") or (x["t"] == "noimp" and x is not af) for x in specs)
                if stop and not got_stop:
                    probs.append(("oracle-no-improvement-not-stopped", f"eval node {i}: {cnt} consecutive evaluations without a new best (max {af['mx']}, min_evals {af['me']}) at env step {ec}, "
                                                                       f"but the step event returned True (means {means})"))
                if got_stop and not stop and only_stopper:
                    probs.append(("oracle-no-improvement-stopped-early", f"eval node {i}: training stopped at env step {ec} after {cnt} consecutive evaluations without a new best "
                                                                         f"(max {af['mx']}, min_evals {af['me']}, means {means}); nothing else in the tree can stop training"))
    for i, t in enumerate(specs):
        if t["t"] != "eval":
            continue
        ef = impl.get("eval_files", {}).get(str(i), {})
        at = impl["nodes"][i][3][1:]
        if t.get("log"):
            want_ts = [e[2] for e in at]
            if (ef.get("timesteps") or []) != want_ts and (want_ts or ef.get("timesteps")):
                probs.append(("oracle-eval-log-file", f"eval node {i}: evaluations.npz timesteps {ef.get('timesteps')}, evaluations happened at num_timesteps {want_ts}"))
            if ef.get("n_results") and any(n != t.get("n_eval", 2) for n in ef["n_results"]):
                probs.append(("oracle-eval-log-file", f"eval node {i}: evaluations.npz rows hold {ef['n_results']} episode rewards, n_eval_episodes = {t.get('n_eval', 2)}"))
        if t.get("best") and ef.get("best_exists") != bool(at):
            probs.append(("oracle-eval-best-model-file", f"eval node {i}: best_model.zip exists = {ef.get('best_exists')}, {len(at)} evaluations happened (the first one always improves on -inf)"))
        if not all(impl.get("eval_sync", {}).get(str(i), [])):
            probs.append(("oracle-eval-normalisation-not-synced", f"eval node {i}: the eval env's VecNormalize statistics differ from the training env's at an evaluation"))
    for i, t in enumerate(specs):
        if t["t"] == "eval" and any(n != t.get("n_eval", 2) for n in impl.get("eval_n", {}).get(str(i), [])):
            probs.append(("oracle-eval-n-episodes", f"eval node {i}: evaluate_policy was asked for {impl['eval_n'][str(i)]} episodes, configured {t.get('n_eval', 2)}"))
    return probs


# ---------------------------------------------------------------- model

def model_expr(case, impl):
    ne = case["n_envs"]
    tree = json.loads(json.dumps(case["tree"]))
    means = impl["eval_means"]
    for i, t in enumerate(preorder(tree)):
        if t["t"] == "eval":
            t["evals_used"] = means.get(str(i), [])
        if t["t"] == "thresh":
            t["scale"] = 24 if case["real_eval"] else 1
    calls = []
    for c, info in zip(case["calls"], impl["calls"]):
        calls.append(f"mkCall {coq_Z(c['total'])} {coq_bool(c['reset'])} {coq_list(info['dones'], coq_Z)}")
    return f"run_case {coq_Z(ne)} ({coq_rk(case['rk'])}) {coq_list(calls)} {coq_tree(tree, ne)}"


def canon_trace(tr):
    """drop the on-policy refresh of locals right before rollout-end (same env step: idempotent)"""
    out = []
    for j, e in enumerate(tr):
        if e[0] == 9 and j + 1 < len(tr) and tr[j + 1][0] == 3 and out and out[-1][0] == 2:
            continue
        out.append(e)
    return out


def compare(case, impl, mv):
    probs = []
    traces, nodes, (nt, stamp, exh) = mv
    if exh:
        probs.append(("model-fuel", "model ran out of fuel"))
    real = [[tuple(e) for e in canon_trace(tr)] for tr in impl["root_trace"]]
    modl = [[tuple(e) for e in tr] for tr in traces]
    if real != modl:
        for ci, (a, b) in enumerate(zip(real, modl)):
            if a != b:
                j = next((q for q in range(min(len(a), len(b))) if a[q] != b[q]), min(len(a), len(b)))
                probs.append(("root-trace", f"learn#{ci}: first difference at event {j}: impl {a[j:j + 3]} model {b[j:j + 3]} (lengths {len(a)}/{len(b)})"))
                break
        else:
            probs.append(("root-trace", f"number of learn() traces {len(real)} vs {len(modl)}"))
    rn = [(k, c, t, [tuple(e) for e in ent]) for k, c, t, ent in impl["nodes"]]
    mn = [(k, c, t, [tuple(e) for e in ent]) for k, c, t, ent in nodes]
    if case.get("root_mode") == "list" and rn and mn:
        rn[0] = mn[0]          # learn() built its own CallbackList from the Python list at every call: the spec's root object is never used
    if case.get("root_mode") == "function" and rn and mn:
        rn[0] = (rn[0][0], rn[0][1], mn[0][2], rn[0][3])   # a plain function has no num_timesteps attribute of its own
    if rn != mn:
        for i, (a, b) in enumerate(zip(rn, mn)):
            if a != b:
                probs.append(("node-state", f"node {i} ({preorder(case['tree'])[i]['t']}): impl {str(a)[:300]} model {str(b)[:300]}"))
                break
        else:
            probs.append(("node-state", f"node count {len(rn)} vs {len(mn)}"))
    if impl["final"] != [nt, stamp]:
        probs.append(("final-counters", f"impl (num_timesteps, env steps) {impl['final']} model {[nt, stamp]}"))
    return probs


def run_cases(chk, cases, procs=4):
    import multiprocessing as mp

    ctx = mp.get_context("fork")
    with ctx.Pool(min(procs, max(1, len(cases)))) as pool:
        impls = pool.map(_worker, cases, chunksize=1)
    ok = [i for i, im in enumerate(impls) if not im.get("error")]
    exprs = [model_expr(cases[i], impls[i]) for i in ok]
    vals = common.coq_eval_many(chk.pid, HEADER, exprs, shard=25, procs=4) if exprs else []
    results = [None] * len(cases)
    for i, v in zip(ok, vals):
        results[i] = oracle(cases[i], impls[i]) + [("model-correspondence-" + s, m) for s, m in compare(cases[i], impls[i], v)]
    for i, im in enumerate(impls):
        if im.get("error"):
            if "must be used with an ``EvalCallback``" in im["error"] and nested_parent_users(cases[i]["tree"]):
                results[i] = [(NESTED_SIG, "a StopTrainingOnRewardThreshold / StopTrainingOnNoModelImprovement placed two CallbackLists deep below an EvalCallback "
                                           "raises on the first learn(): AssertionError ... must be used with an ``EvalCallback`` (its parent is None: "
                                           "CallbackList._init_callback initialises the inner list before giving it its parent); tree: " + json.dumps(cases[i]["tree"])[:300])]
            else:
                results[i] = [("impl-exception", im["error"][-600:])]
    return impls, results


def nontrivial(case, impl):
    stopped = any(e[0] == 2 and not e[3] for tr in impl.get("root_trace", []) for e in tr)
    kinds = {t["t"] for t in preorder(case["tree"])}
    return len(case["calls"]) >= 2 and len(kinds) >= 3 and (stopped or len(kinds) >= 4)


def report(chk, case, impl, probs):
    sig = probs[0][0]
    oracle_bad = [s for s, _ in probs if not s.startswith("model-correspondence-") and s != "impl-exception"]
    if oracle_bad:
        sig = oracle_bad[0]
    chk.violation(sig, "; ".join(m for s, m in probs if s == sig)[:600] or probs[0][1][:600],
                  {"case": case, "problems": probs[:8], "impl_root_trace": impl.get("root_trace"),
                   "correspondence": "harness/c13.py vs Model.Callbacks.run_case"},
                  found_input=bool(oracle_bad) or sig == "impl-exception")


def oracle_first(cases, impls, results):
    """reporting order: cases whose statement-level oracle fails (concrete input) before cases where only model and implementation
    disagree, so that the cap on reported violations never hides a concrete input behind a model-correspondence line"""
    def rank(i):
        pr = results[i] or []
        if any(not sg.startswith("model-correspondence-") and sg != "impl-exception" for sg, _ in pr):
            return 0
        return 1 if pr else 2
    order = sorted(range(len(cases)), key=rank)
    return [(cases[i], impls[i], results[i]) for i in order]


def main():
    chk = Check("C13", groups=["callbacks"])
    chk.build_props()
    n_cases = 160 if chk.tier == "quick" else 1500
    cases = []
    corpus = os.path.join(common.VERIF, "corpus", "C13.jsonl")
    if os.path.exists(corpus):
        cases += [json.loads(l) for l in open(corpus) if l.strip()]
    n_corpus = len(cases)
    for i in range(n_cases):
        cases.append(gen_case(chk.rng, i))
    impls, results = run_cases(chk, cases)
    distinct = set()
    hist = {"algo": {}, "rk": {}, "n_envs": {}, "calls": {}, "node_kinds": {}, "stopped_runs": 0, "real_eval": 0}
    reported = set()
    for c, im, probs in oracle_first(cases, impls, results):
        hist["algo"][c["algo"]] = hist["algo"].get(c["algo"], 0) + 1
        hist["rk"][c["rk"][0]] = hist["rk"].get(c["rk"][0], 0) + 1
        hist["n_envs"][c["n_envs"]] = hist["n_envs"].get(c["n_envs"], 0) + 1
        hist["calls"][len(c["calls"])] = hist["calls"].get(len(c["calls"]), 0) + 1
        hist["real_eval"] += int(bool(c.get("real_eval")))
        for t in preorder(c["tree"]):
            hist["node_kinds"][t["t"]] = hist["node_kinds"].get(t["t"], 0) + 1
        if any(e[0] == 2 and not e[3] for tr in im.get("root_trace", []) for e in tr):
            hist["stopped_runs"] += 1
        if not im.get("error") and nontrivial(c, im):
            distinct.add(json.dumps({k: c[k] for k in ("algo", "n_envs", "rk", "calls", "tree")}, sort_keys=True))
        if probs:
            sigs = []
            for s, _ in probs:
                if s not in sigs:
                    sigs.append(s)
            # a known finding and something else in the same case are reported separately
            for s in sigs:
                if s in (F8_SIG, NESTED_SIG) and s not in reported:
                    reported.add(s)
                    chk.violation(s, "; ".join(m for s2, m in probs if s2 == s)[:600], {"case": c, "impl_root_trace": im.get("root_trace")}, found_input=True)
            rest = [(s, m) for s, m in probs if s not in (F8_SIG, NESTED_SIG)]
            if rest and len([v for v in chk.violations if v["signature"] not in (F8_SIG, NESTED_SIG)]) < 3:
                report(chk, c, im, rest)
    chk.coverage["evaluations"] = len(cases)
    chk.coverage["traces_validated_against_impl"] = sum(1 for im in impls if not im.get("error"))
    chk.coverage["distinct_nontrivial"] = len(distinct)
    chk.coverage["rule"] = ("random callback trees (depth <= 4; recorder / CallbackList / EveryNTimesteps / EvalCallback / CheckpointCallback / StopTrainingOnMaxEpisodes; "
                            "stop requests at random call counts) x PPO/A2C/SAC/DQN/TD3 x n_envs 1-3 x rollout sizes x 1-3 learn() calls with/without counter reset; "
                            "non-trivial = at least two learn() calls and three node kinds and (a stop request fired or four node kinds); distinct = distinct case description")
    chk.notes["input_distribution"] = hist
    chk.notes["corpus_cases"] = n_corpus
    chk.add_samples([{k: cases[i][k] for k in ("algo", "n_envs", "rk", "calls", "tree")} for i in (n_corpus, n_corpus + 1) if i < len(cases)])
    chk.assumptions += [
        "evaluate_policy inside EvalCallback is an oracle (stubbed in most runs, real in some); checkpoint file contents are not inspected (C09)",
        "the second update_locals of on-policy collect_rollouts (same env step, before rollout-end) is dropped from the compared trace: it is idempotent on every callback's state",
        "ProgressBarCallback and LogEveryNTimesteps are not modelled; cadence theorems are about positive frequencies (save_freq / eval_freq / n_steps >= 1): a zero frequency raises ZeroDivisionError in the code and is never generated; evaluation means are an oracle list that the harness makes long enough",
    ]
    from harness import cov_collect as branchcov

    if branchcov.enabled():
        executed = {tuple(x) for im in impls for x in (im.get("cov") or [])}
        chk.notes["branchcov"] = {"targets": {k: v for k, v in COV_TARGETS.items()}, "never_executed": branchcov.report(COV_TARGETS, executed)}
    return chk.finish()


def replay(path):
    d = json.load(open(path))
    case = d["replay"]["case"]
    chk = Check("C13", groups=["callbacks"])
    impls, results = run_cases(chk, [case], procs=1)
    print(json.dumps({"problems": results[0]}, indent=1)[:4000])
    return 1 if results[0] else 0
