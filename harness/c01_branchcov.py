"""Line coverage of the anchored source files while a check runs (round 4 audit). Enabled by VERIF_BRANCHCOV=1.
Only frames of the listed files are traced; forked SubprocVecEnv workers dump their own lines when `_worker` returns."""
from __future__ import annotations

import glob
import json
import os
import sys
import tempfile


class BranchCov:
    def __init__(self, rel_files):
        from harness import common

        self.files = {os.path.realpath(os.path.join(common.REPO, f)): f for f in rel_files}
        self.hit = set()
        self.dir = tempfile.mkdtemp(prefix="verif_cov_")
        self.pid = os.getpid()

    @staticmethod
    def enabled():
        return os.environ.get("VERIF_BRANCHCOV") == "1"

    def _global(self, frame, event, arg):
        fn = frame.f_code.co_filename
        if fn in self.files or os.path.realpath(fn) in self.files:
            return self._local
        return None

    def _local(self, frame, event, arg):
        if event == "line":
            self.hit.add((os.path.realpath(frame.f_code.co_filename), frame.f_lineno))
        elif event == "return" and frame.f_code.co_name == "_worker" and os.getpid() != self.pid:
            try:
                with open(os.path.join(self.dir, f"{os.getpid()}.json"), "w") as fh:
                    json.dump(sorted(self.hit), fh)
            except OSError:
                pass
        return self._local

    def start(self):
        sys.settrace(self._global)

    def stop(self):
        sys.settrace(None)
        for p in glob.glob(os.path.join(self.dir, "*.json")):
            try:
                self.hit |= {tuple(x) for x in json.load(open(p))}
            except (OSError, ValueError):
                pass

    def report(self):
        """{file: {function: {"missed": [lines], "executable": n}}} for functions with at least one executed or missed line"""
        out = {}
        for path, rel in self.files.items():
            src = open(path).read()
            code = compile(src, path, "exec")
            funcs = {}

            def walk(co, qual):
                for c in co.co_consts:
                    if hasattr(c, "co_code"):
                        q = f"{qual}.{c.co_name}" if qual else c.co_name
                        lines = {ln for _, _, ln in c.co_lines() if ln is not None and ln != c.co_firstlineno}
                        # lines of nested code objects belong to them
                        nested = set()
                        for d in c.co_consts:
                            if hasattr(d, "co_code"):
                                nested |= {ln for _, _, ln in d.co_lines() if ln is not None}
                        if c.co_name not in ("<listcomp>", "<dictcomp>", "<genexpr>", "<lambda>", "<setcomp>"):
                            funcs[q] = lines - (nested - lines)
                        walk(c, q)

            walk(code, "")
            rep = {}
            for q, lines in funcs.items():
                if not lines:
                    continue
                missed = sorted(ln for ln in lines if (path, ln) not in self.hit)
                rep[q] = {"missed": missed, "executable": len(lines)}
            out[rel] = rep
        return out


def summarize(report, src_root):
    """compact text: per file, functions never entered and missed lines (with source text) of entered functions"""
    rows = []
    for rel, funcs in report.items():
        src = open(os.path.join(src_root, rel)).read().split("\n")
        for q, r in funcs.items():
            if not r["missed"]:
                continue
            if len(r["missed"]) == r["executable"]:
                rows.append(f"{rel}::{q}: never executed")
            else:
                rows.append(f"{rel}::{q}: " + "; ".join(f"{ln}: {src[ln - 1].strip()[:70]}" for ln in r["missed"]))
    return rows
