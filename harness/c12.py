"""C12 - learn() step, update and schedule accounting.

Proof side:  Props/C12.v (progress in [0,1] and non-increasing from the regenerated
             _update_current_progress_remaining; counters of _setup_learn; loop guards, train gate,
             gradient-step selection; first-boundary law; no update before learning_starts; callback
             stop is immediate).
Tie:         real A2C / PPO / DQN / SAC / TD3 / DDPG learn() calls (1-3 per model, with / without
             counter reset, totals that are not multiples of the rollout size, optional callback stop)
             with counting wrappers: a per-step callback (num_timesteps), a wrapped train() (count at the
             call, gradient_steps, progress), a wrapped optimizer.step (number of updates and the lr in
             force), user schedules that record their argument.  Every learn() call is also evaluated
             by Model.LearnLoop.learn_call inside coqc and compared (train events, final count, stopped).
Oracle:      from the property text, written independently of the model.
"""
from __future__ import annotations

import json
import os
from fractions import Fraction

from harness import common
from harness.common import Check, coq_Q, coq_Z, coq_bool, coq_list, coq_nat

REGISTRY = dict(
    text=("Proof (unbounded): the progress value regenerated from _update_current_progress_remaining lies in [0,1], never increases when num_timesteps grows, equals 1 - num/total up to the target and 0 beyond "
          "(F4 repaired in /repo); along any learn() the progress at consecutive train() calls is in [0,1] and non-increasing; num_timesteps advances by n_envs per vectorised step; a callback stop ends the rollout "
          "at that very step and no train() follows; with equal rollouts learn() ends at the first rollout boundary at or after the target and on-policy trains once per rollout; reset_num_timesteps semantics "
          "from the regenerated _setup_learn statements; minibatches per pass = ceil(N/b) and PPO's truncated-minibatch warning law; DQN exploration schedule range/monotonicity; off-policy: no train() at or before learning_starts, gradient steps = configured value or (for -1) the timesteps of that rollout, never 0. "
          "Tie: guards, increments, gate and selection expressions are regenerated from /repo on every run + counting correspondence on the six algorithms."),
    note=("No open finding; F4 (progress_remaining negative when the last rollout overshoots the total) is repaired in /repo (fixed: 78bdd54) and guarded by corpus inputs. "
          "Trusted: Coq 8.16.1 kernel (vm_compute, no native_compute), translate/py2coq.py + specs/learnloop.py, harness/c12.py, Python/numpy/torch. "
          "CORRESPONDENCE-ONLY (no theorem; partial): each update uses the schedule value as learning rate (lr read on every optimizer and parameter group at every update, two user schedules, one non-linear), the value of approx_kl_div that triggers the early stop of PPO (loops, test and break are modelled and regenerated, its argument is an oracle), rollout lengths under an episodic train_freq. Not verified: float evaluation of 1 - num/total (compared with the rational model at 1e-12), the optimizer and autograd, PPO's early stop by target_kl (only the upper bound on updates is checked then), "
          "the rollout length under an episodic train_freq (computed by the harness from the scripted episode length, n_envs = 1). 'each update uses the schedule's value' is tied by correspondence only "
          "(lr recorded at every optimizer.step). All C12 theorems are closed under the global context (no axioms)."),
    technique="machine-checked proof in Coq (loop invariants by induction, rational arithmetic) + regenerated-fragment interface lemmas + counting correspondence on real learn() calls",
)

COV_FUNCS = ['stable_baselines3.common.base_class:BaseAlgorithm._update_current_progress_remaining',
             'stable_baselines3.common.base_class:BaseAlgorithm._setup_learn',
             'stable_baselines3.common.base_class:BaseAlgorithm._update_learning_rate',
             'stable_baselines3.common.on_policy_algorithm:OnPolicyAlgorithm.learn',
             'stable_baselines3.common.on_policy_algorithm:OnPolicyAlgorithm.collect_rollouts',
             'stable_baselines3.common.off_policy_algorithm:OffPolicyAlgorithm.learn',
             'stable_baselines3.common.off_policy_algorithm:OffPolicyAlgorithm.collect_rollouts',
             'stable_baselines3.common.off_policy_algorithm:OffPolicyAlgorithm._setup_learn',
             'stable_baselines3.common.off_policy_algorithm:OffPolicyAlgorithm._convert_train_freq',
             'stable_baselines3.common.utils:should_collect_more_steps',
             'stable_baselines3.common.utils:get_linear_fn',
             'stable_baselines3.common.utils:get_schedule_fn',
             'stable_baselines3.common.utils:update_learning_rate',
             'stable_baselines3.ppo.ppo:PPO.train',
             'stable_baselines3.a2c.a2c:A2C.train',
             'stable_baselines3.dqn.dqn:DQN._on_step']

HEADER = """From Coq Require Import List ZArith QArith Bool.
From SB3V Require Import Lib.QUtil Model.LearnLoop Gen.Frag_learnloop.
Import ListNotations.
Local Open Scope Z_scope.
"""

ON = ("A2C", "PPO")


def lr_of(p, kind="linear"):
    """the user-supplied learning-rate schedules of the campaign: linear, or a non-linear (discontinuous) one"""
    if kind == "const":
        return 7e-4                      # learning_rate given as a plain float: get_schedule_fn wraps it in a constant function
    return 1e-3 * (1.0 + p) if kind == "linear" else 1e-3 * (1.0 + p * p) + 2e-4 * (p > 0.5)


# ---------------------------------------------------------------- generator

def gen_run(rng, i):
    algo = rng.choice(["A2C", "PPO", "PPO", "DQN", "DQN", "SAC", "TD3", "DDPG"])
    n_envs = rng.choice([1, 1, 2, 3])
    cfg = {"id": i, "algo": algo, "n_envs": n_envs, "ep_len": rng.choice([3, 4, 5, 7]), "sched": rng.choice(["linear", "quad", "const"]), "vecnorm": rng.random() < 0.2}
    if algo in ON:
        cfg["n_steps"] = rng.choice([2, 3, 4, 5, 8])
        N = cfg["n_steps"] * n_envs
        cfg["batch_size"] = rng.choice([2, 3, 4, N, max(2, N // 2), N + 3])
        cfg["n_epochs"] = rng.choice([1, 2, 3])
        cfg["target_kl"] = rng.choice([None, None, None, 1e-12])
        cfg["discrete_actions"] = rng.random() < 0.35
        cfg["use_sde"] = (not cfg["discrete_actions"]) and rng.random() < 0.3
        cfg["clip_range_vf"] = rng.random() < 0.4          # PPO: a second clip schedule (value function)
        cfg["normalize_advantage"] = rng.random() < 0.5
        R = N
    else:
        tf = rng.choice([1, 2, 3, 4, 5, 8, "episode"])
        if tf == "episode" and n_envs > 1:
            tf = 2
        cfg["train_freq"] = tf
        cfg["gradient_steps"] = rng.choice([-1, -1, 0, 1, 2, 3])
        cfg["learning_starts"] = rng.choice([0, 3, 7, 10, 16])
        cfg["action_noise"] = rng.choice([None, None, "normal", "ou"]) if algo != "DQN" else None
        cfg["memopt"] = rng.random() < 0.25
        cfg["use_sde"] = algo == "SAC" and rng.random() < 0.4
        R = (tf if tf != "episode" else cfg["ep_len"]) * n_envs
    calls = []
    for c in range(rng.choice([1, 1, 2, 3])):
        total = rng.choice([R * rng.randint(1, 4) + rng.randint(1, max(1, R - 1)), R * rng.randint(1, 3), rng.randint(3, 30), 20])
        call = {"total": total, "reset": (c == 0) or rng.random() < 0.4, "stop_at": None}
        if rng.random() < 0.2:
            call["stop_at_step"] = rng.randint(1, max(1, total // n_envs))      # the k-th vectorised step of this call
        calls.append(call)
    cfg["calls"] = calls
    return cfg


# ---------------------------------------------------------------- implementation run

def run_impl(cfg):
    import warnings

    import gymnasium as gym
    import numpy as np
    import torch as th
    from gymnasium import spaces

    import stable_baselines3 as sb3
    from stable_baselines3.common.callbacks import BaseCallback
    from stable_baselines3.common.vec_env import DummyVecEnv

    warnings.filterwarnings("ignore", category=UserWarning)
    th.set_num_threads(1)
    algo = cfg["algo"]
    discrete = algo in ("DQN",) or bool(cfg.get("discrete_actions"))
    ep_len = cfg["ep_len"]

    class Env(gym.Env):
        observation_space = spaces.Box(-1.0, 1.0, (3,), dtype=np.float32)
        action_space = spaces.Discrete(3) if discrete else spaces.Box(-1.0, 1.0, (2,), dtype=np.float32)

        def __init__(self):
            self.t, self.rs = 0, np.random.RandomState(cfg["id"])

        def reset(self, *, seed=None, options=None):
            self.t = 0
            return self.rs.uniform(-1, 1, 3).astype(np.float32), {}

        def step(self, a):
            self.t += 1
            return self.rs.uniform(-1, 1, 3).astype(np.float32), float(self.rs.uniform(-1, 1)), False, self.t >= ep_len, {}

    rec = {"lr_args": [], "clip_args": []}

    def lr_fn(p):
        rec["lr_args"].append(float(p))
        return lr_of(float(p), cfg.get("sched", "linear"))

    def clip_fn(p):
        rec["clip_args"].append(float(p))
        return 0.1 + 0.1 * float(p)

    venv = DummyVecEnv([Env] * cfg["n_envs"])
    if cfg.get("vecnorm"):
        from stable_baselines3.common.vec_env import VecNormalize

        venv = VecNormalize(venv)
    lr_arg = lr_of(0.0, "const") if cfg.get("sched") == "const" else lr_fn
    kw = dict(policy_kwargs=dict(net_arch=[8]), device="cpu", seed=cfg["id"] % 1000, learning_rate=lr_arg, verbose=0)
    sde = dict(use_sde=True, sde_sample_freq=2) if cfg.get("use_sde") else {}
    if algo == "A2C":
        model = sb3.A2C("MlpPolicy", venv, n_steps=cfg["n_steps"], normalize_advantage=bool(cfg.get("normalize_advantage")), **sde, **kw)
    elif algo == "PPO":
        model = sb3.PPO("MlpPolicy", venv, n_steps=cfg["n_steps"], batch_size=cfg["batch_size"], n_epochs=cfg["n_epochs"],
                        target_kl=cfg["target_kl"], clip_range=clip_fn, clip_range_vf=clip_fn if cfg.get("clip_range_vf") else None,
                        normalize_advantage=bool(cfg.get("normalize_advantage", True)), **sde, **kw)
    else:
        tf = cfg["train_freq"] if cfg["train_freq"] != "episode" else (1, "episode")
        okw = dict(train_freq=tf, gradient_steps=cfg["gradient_steps"], learning_starts=cfg["learning_starts"], batch_size=4, buffer_size=200, **kw)
        if cfg.get("action_noise"):
            from stable_baselines3.common.noise import NormalActionNoise, OrnsteinUhlenbeckActionNoise

            cls = NormalActionNoise if cfg["action_noise"] == "normal" else OrnsteinUhlenbeckActionNoise
            okw["action_noise"] = cls(np.zeros(2), 0.1 * np.ones(2))          # with n_envs > 1 the algorithm wraps it in a VectorizedActionNoise
        if cfg.get("memopt"):
            okw.update(optimize_memory_usage=True, replay_buffer_kwargs=dict(handle_timeout_termination=False))
        if algo == "SAC" and cfg.get("use_sde"):
            okw.update(use_sde=True, sde_sample_freq=2)
        model = {"DQN": sb3.DQN, "SAC": sb3.SAC, "TD3": sb3.TD3, "DDPG": sb3.DDPG}[algo]("MlpPolicy", venv, **okw)
    tick_opt = model.policy.optimizer if algo in ("A2C", "PPO", "DQN") else model.critic.optimizer
    all_opts = [model.policy.optimizer] if algo in ("A2C", "PPO", "DQN") else [model.actor.optimizer, model.critic.optimizer]
    if algo == "SAC" and model.ent_coef_optimizer is not None:
        all_opts.append(model.ent_coef_optimizer)
    cur = {"train": None}
    orig_step = tick_opt.step

    def step(*a, **k):
        if cur["train"] is not None:
            cur["train"]["opt_lrs"].append(float(tick_opt.param_groups[0]["lr"]))
            lrs = [float(g["lr"]) for o in all_opts for g in o.param_groups]
            cur["train"]["lr_spread"].append([min(lrs), max(lrs)])
        return orig_step(*a, **k)

    tick_opt.step = step
    orig_train = model.train
    trains = []

    def train(*a, **k):
        t = {"num": int(model.num_timesteps), "gs": k.get("gradient_steps", a[0] if a else None),
             "progress": float(model._current_progress_remaining), "opt_lrs": [], "lr_spread": [], "lr_args_before": len(rec["lr_args"])}
        cur["train"] = t
        try:
            return orig_train(*a, **k)
        finally:
            cur["train"] = None
            trains.append(t)

    model.train = train

    class CB(BaseCallback):
        def __init__(self, stop_step):
            super().__init__()
            self.nums, self.k, self.stop_step, self.progress, self.eps = [], 0, stop_step, [], []

        def _on_step(self):
            self.k += 1
            self.nums.append(int(self.model.num_timesteps))
            self.progress.append(float(self.model._current_progress_remaining))
            self.eps.append(float(getattr(self.model, "exploration_rate", -1.0)))
            return not (self.stop_step is not None and self.k == self.stop_step)

    out = {"calls": [], "init_lr_args": list(rec["lr_args"])}
    for call in cfg["calls"]:
        start_num = int(model.num_timesteps)
        trains.clear()
        a0, c0 = len(rec["lr_args"]), len(rec["clip_args"])
        cb = CB(call.get("stop_at_step"))
        model.learn(call["total"], callback=cb, reset_num_timesteps=call["reset"])
        out["calls"].append({"start_num": start_num, "nums": cb.nums, "cb_progress": cb.progress, "cb_eps": cb.eps, "final": int(model.num_timesteps),
                             "trains": [dict(t) for t in trains], "lr_args": rec["lr_args"][a0:], "clip_args": rec["clip_args"][c0:],
                             "total_used": int(model._total_timesteps), "end_progress": float(model._current_progress_remaining)})
    return out


# ---------------------------------------------------------------- expectations shared by oracle and model input

def rollout_lens(cfg, call, phase, K):
    """lengths (vectorised steps) of the successive rollouts of one learn() call; `phase` = steps since the env's last reset"""
    if cfg["algo"] in ON:
        return [cfg["n_steps"]] * K, phase
    tf = cfg["train_freq"]
    if tf != "episode":
        return [tf] * K, phase
    lens, ph = [], phase
    for _ in range(K):
        s = cfg["ep_len"] - (ph % cfg["ep_len"])       # steps until the running episode ends (n_envs = 1)
        lens.append(s)
        ph += s
    return lens, phase


def eps_checkable(cfg, impl):
    """per learn() call: the callback indices at which DQN._on_step has already run at least once
    (before that the exploration rate still has its initial value 0.0)"""
    ran, out = False, []
    for call, rc in zip(cfg["calls"], impl["calls"]):
        ks = []
        for k in range(len(rc["nums"])):
            if ran:
                ks.append(k)
            if call.get("stop_at_step") != k + 1:
                ran = True                      # the step was not aborted by the callback: _on_step ran
        out.append(ks)
    return out


# ---------------------------------------------------------------- oracle (from the property text)

def oracle(cfg, impl):
    probs = []
    n = cfg["n_envs"]
    on = cfg["algo"] in ON
    for p in impl["init_lr_args"]:
        if not 0.0 <= p <= 1.0:
            probs.append(("oracle-schedule-argument-outside-unit-interval", f"schedule called with {p} at construction"))
    num = 0
    phase = 0          # vectorised steps since the env's last reset (episodic train_freq only)
    first = True
    for ci, (call, rc) in enumerate(zip(cfg["calls"], impl["calls"])):
        where = f"learn() call #{ci}"
        start = 0 if call["reset"] else num
        target = call["total"] + (0 if call["reset"] else num)
        if call["reset"] or first:
            phase = 0
        first = False
        # (1) the counter advances by n_envs per vectorised step
        want_nums = [start + (k + 1) * n for k in range(len(rc["nums"]))]
        if rc["nums"] != want_nums:
            probs.append(("oracle-timesteps-advance", f"{where}: num_timesteps seen by the per-step callback {rc['nums'][:8]}..., expected start {start} + k*{n}"))
            return probs
        # (2) where it stops
        lens, _ = rollout_lens(cfg, call, phase, 400)
        bounds, b = [], start
        for s in lens:
            if b >= target:
                break
            b += s * n
            bounds.append((b, s * n))
        stop_step = call.get("stop_at_step")
        natural_steps = (bounds[-1][0] - start) // n if bounds else 0
        stopped = stop_step is not None and stop_step <= natural_steps
        want_final = start + stop_step * n if stopped else (bounds[-1][0] if bounds else start)
        if rc["final"] != want_final or len(rc["nums"]) != (want_final - start) // n:
            probs.append(("oracle-final-timesteps", f"{where}: start {start}, target {target}, rollout boundaries {[x for x, _ in bounds][:6]}, callback stop at step {stop_step if stopped else None}: "
                                                    f"learn() ended at {rc['final']} after {len(rc['nums'])} steps, expected {want_final}"))
        if rc["total_used"] != target:
            probs.append(("oracle-reset-semantics", f"{where}: reset_num_timesteps={call['reset']}: target {rc['total_used']}, expected {target}"))
        # (3) updates
        done_bounds = [(x, r) for x, r in bounds if x <= want_final and not (stopped and x == want_final and False)]
        if stopped:
            done_bounds = [(x, r) for x, r in bounds if x < want_final or (x == want_final and False)]
        exp_trains = []
        for x, r in done_bounds:
            if on:
                exp_trains.append((x, None))
            else:
                g = cfg["gradient_steps"] if cfg["gradient_steps"] >= 0 else r
                if x > 0 and x > cfg["learning_starts"] and g > 0:
                    exp_trains.append((x, g))
        got_trains = [(t["num"], t["gs"] if not on else None) for t in rc["trains"]]
        if got_trains != exp_trains:
            early = [t for t in got_trains if not on and t[0] <= cfg.get("learning_starts", -1)]
            sig = "oracle-update-before-learning-starts" if early else "oracle-train-calls"
            probs.append((sig, f"{where}: train() calls (num_timesteps, gradient_steps) {got_trains[:8]}, expected {exp_trains[:8]}"))
        for t in rc["trains"]:
            k = len(t["opt_lrs"])
            if on:
                N = cfg["n_steps"] * n
                want_k = 1 if cfg["algo"] == "A2C" else cfg["n_epochs"] * -(-N // cfg["batch_size"])
                ok = (k == want_k) if (cfg["algo"] == "A2C" or cfg["target_kl"] is None) else (k <= want_k)
            else:
                want_k, ok = t["gs"], k == t["gs"]
            if not ok:
                probs.append(("oracle-update-count", f"{where}: train() at {t['num']} made {k} optimizer steps, expected {want_k}"))
            # (4) schedule value in force at every update
            want_p = max(0.0, 1.0 - t["num"] / target)
            if abs(t["progress"] - want_p) > 1e-12:
                probs.append(("oracle-progress-value", f"{where}: progress at train() = {t['progress']!r} with num_timesteps {t['num']} of {target}, expected {want_p!r}"))
            want_lr = lr_of(t["progress"], cfg.get("sched", "linear"))
            seen = [lr for lo_hi in t["lr_spread"] for lr in lo_hi] + list(t["opt_lrs"])
            bad = [lr for lr in seen if abs(lr - want_lr) > 1e-15 + 2e-15]
            if bad:
                probs.append(("oracle-lr-not-schedule-value", f"{where}: an optimizer has lr {bad[0]!r} at an update, schedule(progress={t['progress']!r}) = {want_lr!r} "
                                                              f"(every optimizer and parameter group is read)"))
        # (5) progress handed to schedules: in [0,1], never increasing during the call
        seqs = [("learning-rate schedule", rc["lr_args"]), ("clip-range schedule", rc["clip_args"]),
                ("progress at train()", [t["progress"] for t in rc["trains"]] + ([rc["end_progress"]] if rc["nums"] else []))]
        if not on:
            seqs.append(("progress after env steps", rc["cb_progress"][1:] + ([rc["end_progress"]] if rc["nums"] else [])))   # [0] is the previous call's value
        for nm, seq in seqs:
            out = [p for p in seq if not 0.0 <= p <= 1.0]
            if out:
                probs.append(("oracle-schedule-argument-outside-unit-interval", f"{where}: {nm} received {out[0]!r} (total {target}, rollout ends {[x for x, _ in bounds][:5]})"))
            inc = [(a, b) for a, b in zip(seq, seq[1:]) if b > a + 1e-15]
            if inc:
                probs.append(("oracle-progress-increases-during-call", f"{where}: {nm} went from {inc[0][0]!r} to {inc[0][1]!r}"))
        # (6) DQN: exploration_rate = linear schedule (1.0 -> 0.05 over the first 10 %) of the progress, after every env step
        if cfg["algo"] == "DQN":
            for k in eps_checkable(cfg, impl)[ci]:
                p, eps = rc["cb_progress"][k], rc["cb_eps"][k]
                want = 0.05 if (1 - p) > 0.1 else 1.0 + (1 - p) * (0.05 - 1.0) / 0.1
                if abs(eps - want) > 1e-12:
                    probs.append(("oracle-exploration-rate-not-schedule-of-progress", f"{where}: env step {k}: exploration_rate {eps!r} with progress {p!r}, schedule gives {want!r}"))
                    break
        num = rc["final"]
        phase += len(rc["nums"])
    return probs


# ---------------------------------------------------------------- model

def model_exprs(cfg, impl):
    """one expression per learn() call (plus progress comparisons); start counters are the model's own"""
    n = cfg["n_envs"]
    on = cfg["algo"] in ON
    mode = "OnPolicy" if on else f"(OffPolicy {coq_Z(cfg['learning_starts'])} {coq_Z(cfg['gradient_steps'])})"
    exprs = []
    num, phase, first = 0, 0, True
    for ci, (call, rc) in enumerate(zip(cfg["calls"], impl["calls"])):
        if call["reset"] or first:
            phase = 0
        first = False
        lens, _ = rollout_lens(cfg, call, phase, 60)
        start = 0 if call["reset"] else num
        st = call.get("stop_at_step")
        stop = f"(fun n => Z.eqb n {coq_Z(start + st * n)})" if st is not None else "(fun _ => false)"
        exprs.append(f"learn_call {mode} {coq_Z(n)} {stop} {coq_list(lens, coq_nat)} {coq_bool(call['reset'])} {coq_Z(num)} 0 {coq_Z(call['total'])}")
        target = call["total"] + (0 if call["reset"] else num)
        ps = [Fraction(t["progress"]) for t in rc["trains"]]
        ns = [t["num"] for t in rc["trains"]]
        exprs.append(f"qclose_list 0 (1 # 1000000000000)%Q (map (fun n => progress n {coq_Z(target)}) {coq_list(ns, coq_Z)}) {coq_list(ps, coq_Q)}")
        if cfg["algo"] == "DQN":
            pe = [(rc["cb_progress"][k], rc["cb_eps"][k]) for k in eps_checkable(cfg, impl)[ci]][:12]
            exprs.append(f"qclose_list 0 (1 # 1000000000)%Q (map (fun p => linear_fn p 1 (1 # 20) (1 # 10)) {coq_list([Fraction(p) for p, _ in pe], coq_Q)}) {coq_list([Fraction(e) for _, e in pe], coq_Q)}")
        num = rc["final"]            # the next call starts from where the implementation is (compared above)
        phase += len(rc["nums"])
    if cfg["algo"] == "PPO":
        exprs.append(f"on_train_steps {coq_Z(cfg['n_epochs'])} {coq_Z(cfg['n_steps'] * n)} {coq_Z(cfg['batch_size'])}")
    return exprs


def compare_model(cfg, impl, vals):
    probs = []
    on = cfg["algo"] in ON
    k = 0
    for ci, rc in enumerate(impl["calls"]):
        evs, fin, stopped, total_used = vals[k]
        pcs = vals[k + 1]
        k += 2
        if cfg["algo"] == "DQN":
            if not all(vals[k]):
                probs.append(("exploration-rate", f"call #{ci}: exploration_rate differs from the regenerated linear schedule of the progress: {vals[k]}"))
            k += 1
        got = [(t["num"], 0 if on else t["gs"]) for t in rc["trains"]]
        if [tuple(e) for e in evs] != got:
            probs.append(("train-events", f"call #{ci}: impl {got[:8]} model {[tuple(e) for e in evs][:8]}"))
        if fin != rc["final"]:
            probs.append(("final-count", f"call #{ci}: impl {rc['final']} model {fin}"))
        if total_used != rc["total_used"]:
            probs.append(("total", f"call #{ci}: impl target {rc['total_used']} model {total_used}"))
        st = cfg["calls"][ci].get("stop_at_step")
        start = 0 if cfg["calls"][ci]["reset"] else rc["start_num"]
        impl_stopped = st is not None and len(rc["nums"]) == st and rc["final"] == start + st * cfg["n_envs"]
        if bool(stopped) and not impl_stopped:
            probs.append(("stopped", f"call #{ci}: model says the callback stopped learn(), impl ran {len(rc['nums'])} steps to {rc['final']}"))
        if not all(pcs):
            probs.append(("progress", f"call #{ci}: progress at train() differs from the rational model: {pcs}"))
    if cfg["algo"] == "PPO" and cfg["target_kl"] is None:
        want = vals[k]
        for rc in impl["calls"]:
            for t in rc["trains"]:
                if len(t["opt_lrs"]) != want:
                    probs.append(("ppo-update-count", f"train() at {t['num']}: {len(t['opt_lrs'])} optimizer steps, model {want}"))
    return probs


# ---------------------------------------------------------------- driver

def api_guards():
    """illegal train_freq values are refused when learn() starts (fixed inputs)"""
    import gymnasium as gym
    import numpy as np
    from gymnasium import spaces

    import stable_baselines3 as sb3

    class E(gym.Env):
        observation_space, action_space = spaces.Box(-1, 1, (2,), dtype=np.float32), spaces.Discrete(2)

        def reset(self, *, seed=None, options=None):
            return self.observation_space.sample(), {}

        def step(self, a):
            return self.observation_space.sample(), 0.0, False, True, {}

    probs = []
    for tf in ((1, "epoch"), (1.5, "step")):
        try:
            sb3.DQN("MlpPolicy", E(), train_freq=tf, policy_kwargs=dict(net_arch=[4]), device="cpu", learning_starts=0).learn(2)
            probs.append(("oracle-guard-train-freq-accepted", f"train_freq={tf!r} was accepted"))
        except ValueError:
            pass
    m = sb3.DQN("MlpPolicy", E(), train_freq=(2, "step"), policy_kwargs=dict(net_arch=[4]), device="cpu", learning_starts=0)
    m.learn(3)
    if m.num_timesteps != 4:
        probs.append(("oracle-guard-train-freq-tuple", f"train_freq=(2, 'step'), total 3: ended at {m.num_timesteps}, expected 4"))
    return probs


def load_corpus():
    p = os.path.join(common.VERIF, "corpus", "C12.jsonl")
    return [json.loads(l) for l in open(p) if l.strip()] if os.path.exists(p) else []


def run_cases(chk, runs, name="C12"):
    """every call into the implementation is guarded: an exception on a generated (legal) input is a concrete failing input"""
    import traceback

    impls = []
    for cfg in runs:
        try:
            impls.append(run_impl(cfg))
        except Exception as e:
            impls.append({"crash": f"{type(e).__name__}: {e}", "traceback": traceback.format_exc()[-2500:]})
    exprs, spans = [], []
    for cfg, im in zip(runs, impls):
        e = []
        if not im.get("crash"):
            try:
                e = model_exprs(cfg, im)
            except Exception as ex:      # the implementation returned something the decoder cannot handle
                im["decode_error"] = f"{type(ex).__name__}: {ex}"
                im["traceback"] = traceback.format_exc()[-2500:]
        spans.append((len(exprs), len(exprs) + len(e)))
        exprs += e
    vals = common.coq_eval_many(name, HEADER, exprs, shard=60, procs=4)
    results = []
    for cfg, im, (a, b) in zip(runs, impls, spans):
        if im.get("crash"):
            results.append(([("oracle-implementation-raised", "learn() / construction raised on a legal configuration: " + im["crash"])], []))
            continue
        try:
            orc = oracle(cfg, im)
        except Exception as e:
            im["traceback"] = traceback.format_exc()[-2500:]
            orc = [("oracle-unexpected-value", f"the recorded run contains a value the oracle cannot interpret: {type(e).__name__}: {e}")]
        if im.get("decode_error"):
            orc = orc + [("oracle-unexpected-value", "the recorded run contains a value the model comparison cannot encode: " + im["decode_error"])]
            results.append((orc, []))
            continue
        try:
            mod = compare_model(cfg, im, vals[a:b])
        except Exception as e:
            im["traceback"] = traceback.format_exc()[-2500:]
            mod = []
            orc = orc + [("oracle-unexpected-value", f"comparison with the model failed on the recorded values: {type(e).__name__}: {e}")]
        results.append((orc, mod))
    return impls, results


def main():
    chk = Check("C12", groups=["learnloop"])
    chk.build_props()
    from harness import linecov

    _cov = linecov.maybe_start(COV_FUNCS)
    n_r = 70 if chk.tier == "quick" else 1200
    corpus = load_corpus()
    runs = corpus + [gen_run(chk.rng, i) for i in range(n_r)]
    impls, results = run_cases(chk, runs)
    new, model_only = 0, []
    try:
        guards = api_guards()
    except Exception as e:
        import traceback

        guards = [("oracle-implementation-raised", f"DQN(train_freq=(2, 'step')).learn(3) or its construction raised {type(e).__name__}: {e}")]
        chk.notes["api_guards_traceback"] = traceback.format_exc()[-2500:]
    for sig, msg in guards:
        chk.violation(sig, msg, {"fixed_input": "harness/c12.py api_guards(): DQN on a 2-d Box env with train_freq (1,'epoch') / (1.5,'step') / (2,'step')",
                                 "traceback": chk.notes.get("api_guards_traceback")}, found_input=True)
        new += 1
    hist = {"algo": {}, "n_envs": {}, "learn_calls": 0, "calls_without_reset": 0, "calls_stopped_by_callback": 0, "total_not_multiple_of_rollout": 0,
            "train_calls": 0, "optimizer_steps": 0, "schedule_args": 0, "episodic_train_freq": 0, "gradient_steps": {}}
    distinct = set()
    for cfg, im, (orc, mod) in zip(runs, impls, results):
        hist["algo"][cfg["algo"]] = hist["algo"].get(cfg["algo"], 0) + 1
        hist["n_envs"][cfg["n_envs"]] = hist["n_envs"].get(cfg["n_envs"], 0) + 1
        if "gradient_steps" in cfg:
            hist["gradient_steps"][cfg["gradient_steps"]] = hist["gradient_steps"].get(cfg["gradient_steps"], 0) + 1
        hist["episodic_train_freq"] += int(cfg.get("train_freq") == "episode")
        if not im.get("crash"):
            R = (cfg["n_steps"] if cfg["algo"] in ON else (cfg["train_freq"] if cfg["train_freq"] != "episode" else cfg["ep_len"])) * cfg["n_envs"]
            for call, rc in zip(cfg["calls"], im["calls"]):
                hist["learn_calls"] += 1
                hist["calls_without_reset"] += int(not call["reset"])
                hist["calls_stopped_by_callback"] += int(call.get("stop_at_step") is not None and len(rc["nums"]) == call.get("stop_at_step"))
                nm = call["total"] % R != 0
                hist["total_not_multiple_of_rollout"] += int(nm)
                hist["train_calls"] += len(rc["trains"])
                hist["optimizer_steps"] += sum(len(t["opt_lrs"]) for t in rc["trains"])
                hist["schedule_args"] += len(rc["lr_args"]) + len(rc["clip_args"])
                if nm and len(rc["trains"]) >= 1:
                    distinct.add((cfg["algo"], cfg["n_envs"], R, call["total"], call["reset"], cfg.get("gradient_steps"), cfg.get("learning_starts")))
        if orc and new < 3:
            chk.violation(orc[0][0], "; ".join(m for _, m in orc[:3]), {"run": cfg, "problems": orc[:10], "model_disagreements": mod[:5], "traceback": im.get("traceback")}, found_input=True)
            new += 1
        elif mod and not orc:
            model_only.append((cfg, mod))          # not confirmed by the oracle: reported AFTER the concrete inputs
    for cfg, mod in model_only[:max(0, 3 - new)]:
        chk.violation("model-correspondence-" + mod[0][0], "; ".join(m for _, m in mod[:3]),
                      {"run": cfg, "problems": mod[:10], "correspondence": "harness/c12.py counting wrappers vs Model.LearnLoop.learn_call"}, found_input=False)
    chk.coverage["evaluations"] = len(runs)
    chk.coverage["traces_validated_against_impl"] = hist["learn_calls"]
    chk.coverage["distinct_nontrivial"] = len(distinct)
    chk.coverage["rule"] = ("real learn() calls of A2C/PPO/DQN/SAC/TD3/DDPG (tiny MLPs) with n_envs 1-3, n_steps 2-8 / train_freq 1-8 steps or one episode, gradient_steps in {-1,0,1,2,3}, learning_starts 0-16, "
                            "batch sizes that do not divide the rollout, n_epochs 1-3, target_kl, 1-3 learn() calls per model with / without reset, 20% with a callback stop; "
                            "non-trivial learn() call = total not a multiple of the rollout size and at least one train(); distinct = distinct (algo, n_envs, rollout size, total, reset, gradient_steps, learning_starts)")
    chk.notes["input_distribution"] = hist
    chk.notes["corpus_cases"] = len(corpus)
    chk.add_samples([{k: v for k, v in runs[i].items() if k != "id"} for i in (0, len(corpus)) if i < len(runs)])
    chk.assumptions += [
        "float evaluation of max(0, 1 - num/total) is compared with the rational model at absolute tolerance 1e-12",
        "the learning rate in force is read from optimizer.param_groups at every optimizer.step of the policy / critic optimizer",
        "under target_kl only the upper bound n_epochs * ceil(N / batch) on PPO's updates is checked; an episodic train_freq is exercised with n_envs = 1 and a fixed episode length",
    ]
    linecov.finish(_cov, chk)
    return chk.finish()


def replay(path):
    d = json.load(open(path))["replay"]
    chk = Check("C12", groups=["learnloop"])
    impls, results = run_cases(chk, [d["run"]], name="C12_replay")
    orc, mod = results[0]
    print(json.dumps({"oracle": orc[:10], "model_disagreements": mod[:10]}, indent=1))
    return 1 if orc or mod else 0
