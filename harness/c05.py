"""C05 - GAE matches its definition; minibatches partition the rollout.

Proof side:   Props/C05.v (theorems over the regenerated fragments of buffers.py).
Tie:          (a) real RolloutBuffer/DictRolloutBuffer.compute_returns_and_advantage vs
                  Model.Gae.run_col, exact (dyadic) stream + toleranced stream;
              (b) real get(): decoded (step, env) tags of every field of every minibatch vs
                  Model.Minibatch.minibatches of the recorded permutation, plus
                  swap_and_flatten vs Model.Minibatch.flatten;
              (c) statement-level oracle written from the property text (independent of the
                  model): direct discounted-sum formula in Fractions; exactly-once multiset.
"""
from __future__ import annotations

import json
from fractions import Fraction

from harness import common
from harness.common import Check, coq_Q, coq_list, coq_nat

REGISTRY = dict(
    text=("Proof (unbounded): the backward GAE loop assembled from the statements regenerated from buffers.py equals the discounted-sum definition for every horizon, "
          "cuts at episode boundaries, bootstraps from last_values, returns = advantage + value, environments are independent, and the minibatches of any pass over any "
          "permutation partition the rollout for every batch size; flatten index law. Tie: fragment translator + correspondence on RolloutBuffer/DictRolloutBuffer."),
    note=("Trusted: Coq 8.16.1 kernel (vm_compute, no native_compute), translate/py2coq.py + specs/gae.py, harness/c05.py, Python/numpy/torch. "
          "Not verified: float32 rounding (exact dyadic stream + rel 1e-4 stream), numpy broadcasting/reshape (correspondence only). "
          "All C05 theorems are closed under the global context (no axioms)."),
    technique="machine-checked proof in Coq (induction over the step list / index arithmetic) + regenerated-fragment interface lemmas + differential correspondence",
)

HEADER = """From Coq Require Import List QArith ZArith.
From SB3V Require Import Model.Gae Model.Minibatch.
Import ListNotations.
"""


def _imports():
    import numpy as np
    import torch as th
    from gymnasium import spaces

    from stable_baselines3.common.buffers import DictRolloutBuffer, RolloutBuffer

    return np, th, spaces, RolloutBuffer, DictRolloutBuffer


# ---------------------------------------------------------------- generators

def gen_case(rng, exact: bool, i: int):
    if exact:
        T = rng.randint(1, 6)
        n = rng.randint(1, 4)
        gamma = rng.choice([1.0, 0.5, 0.5, 0.0])
        lam = rng.choice([1.0, 0.5, 0.5, 0.0])
        val = lambda: rng.randint(-8, 8) / 2.0  # noqa: E731
    else:
        T = rng.randint(1, 12)
        n = rng.randint(1, 5)
        gamma = rng.choice([0.99, 0.9, 1.0, rng.random()])
        lam = rng.choice([0.95, 1.0, 0.0, rng.random()])
        val = lambda: rng.uniform(-3, 3)  # noqa: E731
    p_start = rng.choice([0.0, 0.15, 0.4, 1.0])
    case = {
        "kind": "exact" if exact else "tol", "T": T, "n": n, "gamma": gamma, "lam": lam,
        "rewards": [[val() for _ in range(n)] for _ in range(T)],
        "values": [[val() for _ in range(n)] for _ in range(T)],
        "starts": [[1.0 if rng.random() < p_start else 0.0 for _ in range(n)] for _ in range(T)],
        "last_values": [val() for _ in range(n)],
        "dones": [1.0 if rng.random() < 0.4 else 0.0 for _ in range(n)],
        "dict_obs": rng.random() < 0.4,
        # coverage audit: Discrete observations / actions go through the reshape branches of add();
        # a 0-d log_prob tensor (single env, unbatched) goes through the reshape(-1, 1) branch
        "obs_kind": rng.choice(["box", "box", "discrete"]),
        "act_kind": rng.choice(["box", "box", "discrete", "multidiscrete"]),
        "scalar_logp": rng.random() < 0.3,
        "batch_size": rng.choice([None, 1, 2, 3, rng.randint(1, 70), rng.randint(1, 12)]),
        "passes": rng.randint(1, 3),
        # seeding round 5 (C05_5): several passes ALIVE AT ONCE (nested loops / zip over buf.get()): the generators are
        # advanced round-robin; every one of them must still be an exact partition taken from one (step, env) per sample
        "interleave": rng.random() < 0.35,
        "id": i,
    }
    return case


# ---------------------------------------------------------------- implementation run

def run_impl(case):
    np, th, spaces, RolloutBuffer, DictRolloutBuffer = _imports()
    T, n = case["T"], case["n"]
    obs_kind, act_kind = case.get("obs_kind", "box"), case.get("act_kind", "box")
    act_space = {"box": spaces.Box(-1, 1, (2,), dtype=np.float32), "discrete": spaces.Discrete(100000),
                 "multidiscrete": spaces.MultiDiscrete([100000, 100000])}[act_kind]
    if case["dict_obs"]:
        d_space = spaces.Discrete(100000) if obs_kind == "discrete" else spaces.Box(-1e6, 1e6, (2,), dtype=np.float32)
        obs_space = spaces.Dict({"a": d_space, "b": spaces.Box(-1e6, 1e6, (1, 3), dtype=np.float32)})
        buf = DictRolloutBuffer(T, obs_space, act_space, device="cpu", gae_lambda=case["lam"], gamma=case["gamma"], n_envs=n)
    else:
        obs_space = spaces.Discrete(100000) if obs_kind == "discrete" else spaces.Box(-1e6, 1e6, (3,), dtype=np.float32)
        buf = RolloutBuffer(T, obs_space, act_space, device="cpu", gae_lambda=case["lam"], gamma=case["gamma"], n_envs=n)
    f32 = np.float32
    for t in range(T):
        tags = np.array([t * n + e + 1 for e in range(n)], dtype=f32)
        disc = tags.astype(np.int64)
        if case["dict_obs"]:
            a_part = disc if obs_kind == "discrete" else np.repeat(tags[:, None], 2, 1)
            obs = {"a": a_part, "b": np.repeat(tags[:, None], 3, 1).reshape(n, 1, 3)}
        else:
            obs = disc if obs_kind == "discrete" else np.repeat(tags[:, None], 3, 1)
        if act_kind == "box":
            act = np.stack([tags + 0.5, -tags], axis=1).astype(f32)
        elif act_kind == "discrete":
            act = disc.copy()
        else:
            act = np.stack([disc, disc + 1], axis=1)
        logp = th.tensor([-float(x) - 0.25 for x in tags], dtype=th.float32)
        if case.get("scalar_logp") and n == 1:
            logp = logp.reshape(())  # 0-d tensor
        buf.add(obs, act, np.array(case["rewards"][t], dtype=f32), np.array(case["starts"][t], dtype=f32),
                th.tensor(case["values"][t], dtype=th.float32), logp)
    buf.compute_returns_and_advantage(th.tensor(case["last_values"], dtype=th.float32), np.array(case["dones"]) > 0.5)
    adv = buf.advantages.copy()
    ret = buf.returns.copy()
    vals = buf.values.copy()
    logp = buf.log_probs.copy()
    # swap_and_flatten on a tagged [T][n] array
    tagarr = np.array([[t * n + e + 1 for e in range(n)] for t in range(T)], dtype=np.int64)
    flat = RolloutBuffer.swap_and_flatten(tagarr.reshape(T, n, 1)).reshape(-1).tolist()
    # record permutations
    perms = []
    orig = np.random.permutation

    def rec(x):
        p = orig(x)
        perms.append([int(v) for v in p])
        return p

    passes = []
    np.random.permutation = rec
    try:
        def conv(mb):
            if case["dict_obs"]:
                oa = mb.observations["a"].numpy().reshape(len(mb.observations["b"]), -1)
                ob = mb.observations["b"].numpy().reshape(len(oa), 3)
                obs_tags = [sorted(set([float(v) for v in oa[k]] + [float(v) for v in ob[k]])) for k in range(len(oa))]
            else:
                o = mb.observations.numpy().reshape(len(mb.actions), -1)
                obs_tags = [sorted(set(float(v) for v in o[k])) for k in range(len(o))]
            return {
                "obs_tags": obs_tags,
                "act": mb.actions.numpy().tolist(),
                "val": mb.old_values.numpy().tolist(),
                "logp": mb.old_log_prob.numpy().tolist(),
                "adv": mb.advantages.numpy().tolist(),
                "ret": mb.returns.numpy().tolist(),
            }

        if case.get("interleave") and case["passes"] > 1:
            gens = [buf.get(case["batch_size"]) for _ in range(case["passes"])]
            passes = [[] for _ in gens]
            live = list(range(len(gens)))
            while live:
                for gi in list(live):
                    try:
                        mb = next(gens[gi])
                    except StopIteration:
                        live.remove(gi)
                        continue
                    passes[gi].append(conv(mb))
        else:
            for _ in range(case["passes"]):
                passes.append([conv(mb) for mb in buf.get(case["batch_size"])])
    finally:
        np.random.permutation = orig
    f = lambda a: [[float(x) for x in row] for row in a]  # noqa: E731
    # what add() was GIVEN (float32-rounded), cell by cell: the oracle and the model are fed from these, and the
    # arrays add() stored must equal them (a misplacement inside add() is then visible)
    given = {k: [[float(np.float32(x)) for x in row] for row in case[k]] for k in ("rewards", "values", "starts")}
    stored_ok = (f(buf.rewards) == given["rewards"] and f(vals) == given["values"] and f(buf.episode_starts) == given["starts"])
    return {"adv": f(adv), "ret": f(ret), "vals": given["values"], "logp": f(logp), "flat": flat, "perms": perms, "passes": passes,
            "rewards32": given["rewards"], "starts32": given["starts"], "stored_ok": stored_ok,
            "stored": {"rewards": f(buf.rewards), "values": f(vals), "starts": f(buf.episode_starts)}}


# ---------------------------------------------------------------- oracle (from the property text)

def oracle_gae(case, impl):
    """A[t,e] = sum_l (g*lam)^l * delta[t+l,e] cut at e's episode boundaries (direct formula)"""
    T, n = case["T"], case["n"]
    F = Fraction
    g, lam = F(case["gamma"]), F(case["lam"])
    r, v, st = impl["rewards32"], impl["vals"], impl["starts32"]
    import numpy as np

    lastv = [F(float(np.float32(x))) for x in case["last_values"]]
    out_adv = [[None] * n for _ in range(T)]
    for e in range(n):
        def nnt(t):
            return 1 - (F(st[t + 1][e]) if t + 1 < T else F(case["dones"][e]))

        def nv(t):
            return F(v[t + 1][e]) if t + 1 < T else lastv[e]

        def delta(t):
            return F(r[t][e]) + g * nv(t) * nnt(t) - F(v[t][e])

        for t in range(T):
            acc, coef, k = F(0), F(1), t
            while k < T:
                acc += coef * delta(k)
                if nnt(k) == 0:
                    break
                coef *= g * lam * nnt(k)
                k += 1
            out_adv[t][e] = acc
    return out_adv


def close(a: Fraction, b: float, exact: bool):
    if exact:
        return a == Fraction(b)
    return abs(float(a) - b) <= 1e-4 * max(1.0, abs(float(a))) + 1e-5


# ---------------------------------------------------------------- model expressions

def model_exprs(case, impl):
    """one Coq expression per env column (GAE) + one for the minibatches + one for flatten"""
    T, n = case["T"], case["n"]
    import numpy as np

    ex = []
    g, lam = coq_Q(Fraction(case["gamma"])), coq_Q(Fraction(case["lam"]))
    for e in range(n):
        rs = coq_list([Fraction(impl["rewards32"][t][e]) for t in range(T)], coq_Q)
        vs = coq_list([Fraction(impl["vals"][t][e]) for t in range(T)], coq_Q)
        es = coq_list([Fraction(impl["starts32"][t][e]) for t in range(T)], coq_Q)
        lv = coq_Q(Fraction(float(np.float32(case["last_values"][e]))))
        d = coq_Q(Fraction(case["dones"][e]))
        ia = coq_list([Fraction(impl["adv"][t][e]) for t in range(T)], coq_Q)
        ir = coq_list([Fraction(impl["ret"][t][e]) for t in range(T)], coq_Q)
        tol = "0 0" if case["kind"] == "exact" else "(1 # 10000)%Q (1 # 100000)%Q"
        ex.append(f"check_col {tol} {g} {lam} {rs} {vs} {es} {lv} {d} {ia} {ir}")
    N = T * n
    b = case["batch_size"] if case["batch_size"] is not None else N
    for perm in impl["perms"]:
        ex.append(f"map (map (unflat {coq_nat(T)})) (minibatches {coq_nat(min(b, 4000))} {coq_list(perm, coq_nat)})")
    rows = coq_list([coq_list([t * n + e + 1 for e in range(n)], coq_nat) for t in range(T)])
    ex.append(f"flatten 0%nat {coq_nat(n)} {rows}")
    return ex


def compare(case, impl, model_vals):
    """returns list of (signature, message) disagreements; also runs the oracle"""
    T, n = case["T"], case["n"]
    exact = case["kind"] == "exact"
    probs = []
    if not impl.get("stored_ok", True):
        probs.append(("oracle-add-stored-wrong-cell", f"RolloutBuffer.add did not store rewards/values/episode_starts in the (step, env) cells it was given: stored {impl['stored']}"))
    # --- GAE: model vs impl
    for e in range(n):
        ok_adv, ok_ret, approx = model_vals[e]
        if len(ok_adv) != T or len(ok_ret) != T:
            probs.append(("gae-model-length", f"env {e}: model returned {len(ok_adv)}/{len(ok_ret)} comparisons for T={T}"))
            continue
        for t in range(T):
            if not ok_adv[t]:
                probs.append(("gae-advantage", f"advantage[{t},{e}] impl={impl['adv'][t][e]!r} model~{approx[t] / 1e9!r}"))
            if not ok_ret[t]:
                probs.append(("gae-return", f"return[{t},{e}] impl={impl['ret'][t][e]!r} model advantage~{approx[t] / 1e9!r}"))
    # --- GAE: oracle vs impl
    oa = oracle_gae(case, impl)
    for t in range(T):
        for e in range(n):
            if not close(oa[t][e], impl["adv"][t][e], exact):
                probs.append(("oracle-gae-advantage", f"advantage[{t},{e}] impl={impl['adv'][t][e]!r} definition={float(oa[t][e])!r}"))
            if not close(oa[t][e] + Fraction(impl["vals"][t][e]), impl["ret"][t][e], exact):
                probs.append(("oracle-gae-return", f"return[{t},{e}] impl={impl['ret'][t][e]!r} != advantage+value"))
    # --- minibatches
    k = n
    # seeding round 5 (C05_5): the oracle part below runs for EVERY pass, whether or not the implementation drew its
    # order through np.random.permutation (the recorded draws feed only the model comparison); an implementation that
    # obtains its order elsewhere is reported as a broken correspondence of the order (no failing input by itself)
    if len(impl["perms"]) != len(impl["passes"]):
        probs.append(("permutation-source", f"{len(impl['passes'])} passes but {len(impl['perms'])} np.random.permutation draws were recorded: "
                      "the minibatch order no longer comes from one fresh permutation per pass (Model.Minibatch ties the order to it)"))
    for pi, mbs in enumerate(impl["passes"]):
        if pi < len(impl["perms"]):
            model_mbs = model_vals[k]
            k += 1
        else:
            model_mbs = None
        seen = []
        if model_mbs is None:
            model_mbs = []
        elif len(model_mbs) != len(mbs):
            probs.append(("minibatch-count", f"pass {pi}: impl yields {len(mbs)} minibatches, model {len(model_mbs)}"))
        for bi, mb in enumerate(mbs):
            cells = []
            for j in range(len(mb["obs_tags"])):
                tags = mb["obs_tags"][j]
                if len(tags) != 1:
                    probs.append(("obs-mixed", f"pass {pi} batch {bi} sample {j}: mixed observation tags {tags}"))
                    continue
                tag = int(tags[0]) - 1
                t, e = tag // n, tag % n
                cells.append((t, e))
                # every field from the same (t, e)
                exp_tag = float(t * n + e + 1)
                exp_act = {"box": [exp_tag + 0.5, -exp_tag], "discrete": [exp_tag], "multidiscrete": [exp_tag, exp_tag + 1]}[case.get("act_kind", "box")]
                ok = (mb["act"][j] == exp_act and mb["logp"][j] == -exp_tag - 0.25
                      and mb["val"][j] == impl["vals"][t][e] and mb["adv"][j] == impl["adv"][t][e] and mb["ret"][j] == impl["ret"][t][e])
                if not ok:
                    probs.append(("oracle-fields-misaligned", f"pass {pi} batch {bi} sample {j}: fields not all from (step {t}, env {e})"))
            seen += cells
            if bi < len(model_mbs) and [tuple(c) for c in model_mbs[bi]] != cells:
                probs.append(("minibatch-content", f"pass {pi} batch {bi}: impl cells {cells} model {model_mbs[bi]}"))
        if sorted(seen) != [(t, e) for t in range(T) for e in range(n)]:
            probs.append(("oracle-not-exactly-once", f"pass {pi}: (step, env) multiset of the pass is not every cell exactly once"))
    flat_model = model_vals[n + len(impl["perms"])]
    if flat_model != impl["flat"]:
        probs.append(("flatten", f"swap_and_flatten impl={impl['flat']} model={flat_model}"))
    return probs


def nontrivial(case, impl):
    T, n = case["T"], case["n"]
    inner_boundary = any(impl["starts32"][t][e] == 1.0 for t in range(1, T) for e in range(n))
    N = T * n
    b = case["batch_size"]
    return (T >= 2 and inner_boundary) or (b is not None and N % b != 0 and b < N)


def run_cases(chk: Check, cases):
    impls = []
    for c in cases:
        try:
            impls.append(run_impl(c))
        except Exception as e:  # the implementation crashed on a legal input: reported, not hidden
            impls.append({"exception": f"{type(e).__name__}: {e}"})
    exprs, spans = [], []
    for c, im in zip(cases, impls):
        e = [] if "exception" in im else model_exprs(c, im)
        spans.append((len(exprs), len(exprs) + len(e)))
        exprs += e
    vals = common.coq_eval_many(f"{chk.pid}", HEADER, exprs, shard=120, procs=16)
    results = []
    for c, im, (a, b) in zip(cases, impls, spans):
        if "exception" in im:
            results.append([("oracle-implementation-raised", "RolloutBuffer add/compute_returns_and_advantage/get raised " + im["exception"])])
        else:
            results.append(compare(c, im, vals[a:b]))
    return impls, results


def main():
    chk = Check("C05", groups=["gae"])
    chk.build_props()
    n_cases = 600 if chk.tier == "quick" else 6000
    cases = []
    corpus = common.os.path.join(common.VERIF, "corpus", "C05.jsonl")
    if common.os.path.exists(corpus):
        cases += [json.loads(l) for l in open(corpus) if l.strip()]
    n_corpus = len(cases)
    for i in range(n_cases):
        cases.append(gen_case(chk.rng, exact=(i % 2 == 0), i=i))
    impls, results = run_cases(chk, cases)
    distinct = set()
    hist = {"exact": 0, "tol": 0, "dict_obs": 0, "T": {}, "n": {}, "batch_none": 0, "batch_not_dividing": 0, "obs_kind": {}, "act_kind": {}, "scalar_logp": 0}
    for c, im, probs in zip(cases, impls, results):
        hist[c["kind"]] += 1
        hist["dict_obs"] += int(c["dict_obs"])
        hist["obs_kind"][c.get("obs_kind", "box")] = hist["obs_kind"].get(c.get("obs_kind", "box"), 0) + 1
        hist["act_kind"][c.get("act_kind", "box")] = hist["act_kind"].get(c.get("act_kind", "box"), 0) + 1
        hist["scalar_logp"] += int(bool(c.get("scalar_logp")) and c["n"] == 1)
        hist["T"][c["T"]] = hist["T"].get(c["T"], 0) + 1
        hist["n"][c["n"]] = hist["n"].get(c["n"], 0) + 1
        hist["batch_none"] += int(c["batch_size"] is None)
        if c["batch_size"] and (c["T"] * c["n"]) % c["batch_size"]:
            hist["batch_not_dividing"] += 1
        if "exception" not in im and nontrivial(c, im):
            distinct.add(json.dumps({k: c[k] for k in c if k != "id"}, sort_keys=True))
    # report: a case on which the statement-level oracle fails (a concrete failing input, smallest rollout first) before a case
    # on which only model and implementation disagree
    bad = [(c, im, probs) for c, im, probs in zip(cases, impls, results) if probs]
    with_oracle = sorted([x for x in bad if any(s.startswith("oracle-") for s, _ in x[2])], key=lambda x: x[0]["T"] * x[0]["n"])
    for c, im, probs in (with_oracle or bad)[:1]:
        oracle_probs = [(s, m) for s, m in probs if s.startswith("oracle-")]
        oracle_says_bad = bool(oracle_probs)
        ordered = oracle_probs + [(s, m) for s, m in probs if not s.startswith("oracle-")]
        sig = ordered[0][0]
        chk.violation(
            sig if oracle_says_bad else "model-correspondence-" + sig,
            "; ".join(m for _, m in ordered[:3]),
            {"case": c, "problems": ordered[:10], "impl_adv": im.get("adv"), "impl_perms": im.get("perms"),
             "correspondence": "harness/c05.py vs Model.Gae.run_col / Model.Minibatch.minibatches"},
            found_input=oracle_says_bad,
        )
    chk.coverage["evaluations"] = len(cases)
    chk.coverage["traces_validated_against_impl"] = len(cases)
    chk.coverage["distinct_nontrivial"] = len(distinct)
    chk.coverage["rule"] = ("random rollouts (n_steps 1-12, n_envs 1-5, batch sizes None/1..70, 1-3 passes - sequential or alive at once and advanced round-robin -, array and Dict buffers); "
                            "exact stream: dyadic gamma/lambda/rewards/values compared with tolerance 0, toleranced stream: rel 1e-4; "
                            "non-trivial = an episode boundary strictly inside the rollout with n_steps >= 2, or a batch size that does not divide the rollout; "
                            "distinct = distinct full case description")
    chk.notes["input_distribution"] = hist
    chk.notes["corpus_cases"] = n_corpus
    chk.add_samples([{k: cases[i][k] for k in ("kind", "T", "n", "gamma", "lam", "starts", "dones", "batch_size", "passes")} for i in (n_corpus, n_corpus + 1) if i < len(cases)])
    chk.assumptions += [
        "float32 rounding of numpy kernels is not modelled: exact stream uses inputs on which float32 arithmetic is exact, toleranced stream compares at rel 1e-4",
        "numpy broadcasting / swapaxes / reshape are tied to the model by this correspondence only",
    ]
    return chk.finish()


def replay(path):
    d = json.load(open(path))
    case = d["replay"]["case"]
    chk = Check("C05", groups=["gae"])
    impls, results = run_cases(chk, [case])
    print(json.dumps({"problems": results[0]}, indent=1))
    return 1 if results[0] else 0
