"""C17, build round 5: two extra correspondence streams of harness/c17.py.

bounds   - VecFrameStack over Box / Dict spaces whose bounds exclude 0 (low > 0, high < 0), integer dtypes, per-element mixed bounds:
           declared low/high vs Model.WrapperBounds.trepeat, `contains` of every returned / terminal observation vs Model twithin,
           numpy oracle for the window contents, and a cell-precise classification of every non-member into the two known findings.
checknan - VecCheckNan with nan / +-inf injected at random steps into observations (array and Dict), rewards and actions vs
           Model.CheckNan.cn_run, plus a plain-Python oracle written from the docstring.
"""
from __future__ import annotations

import os

from harness import common

SIG_PAD = "framestack-zero-padding-outside-declared-space"
SIG_REP = "framestack-declared-bounds-repeated-not-tiled"

BOUNDS_HEADER = """From Coq Require Import List ZArith Bool.
From SB3V Require Import Model.Wrappers Model.WrapperBounds.
Import ListNotations.
"""
NAN_HEADER = """From Coq Require Import List ZArith Bool.
From SB3V Require Import Model.CheckNan.
Import ListNotations.
"""

DTYPES = ["float32", "int32", "int8", "uint8", "float64"]
SHAPES = [(1,), (2,), (3,), (2, 2), (1, 3), (3, 1), (2, 1, 2), (1, 2, 2)]


# ---------------------------------------------------------------- bounds: generator

def _gen_leaf(rng, cf, force=None):
    import numpy as np

    shape = rng.choice(SHAPES)
    dtype = rng.choice(DTYPES)
    mode = force or rng.choice(["pos", "neg", "contains0", "mixed", "mixed_axis_uniform", "pos", "neg"])
    if dtype == "uint8" and mode == "neg":
        mode = "pos"

    def one(kind):
        if kind == "pos":
            lo = rng.randint(1, 3)
            return lo, lo + rng.randint(1, 6)
        if kind == "neg":
            hi = -rng.randint(1, 3)
            return hi - rng.randint(1, 6), hi
        return (0 if dtype == "uint8" else -rng.randint(0, 3)), rng.randint(0, 4)

    kinds = ["pos", "contains0"] if dtype == "uint8" else ["pos", "neg", "contains0"]
    size = int(np.prod(shape))
    if mode in ("pos", "neg", "contains0"):
        lo, hi = one(mode)
        low, high = [lo] * size, [hi] * size
    elif mode == "mixed":
        pairs = [one(rng.choice(kinds)) for _ in range(size)]
        low, high = [p[0] for p in pairs], [p[1] for p in pairs]
    else:   # per-element bounds that do not vary along the stacking axis
        ax = 0 if cf else len(shape) - 1
        other = list(shape)
        other[ax] = 1
        pairs = [one(rng.choice(kinds)) for _ in range(int(np.prod(other)))]
        lo = np.broadcast_to(np.array([p[0] for p in pairs]).reshape(other), shape)
        hi = np.broadcast_to(np.array([p[1] for p in pairs]).reshape(other), shape)
        low, high = lo.reshape(-1).tolist(), hi.reshape(-1).tolist()
    return {"shape": list(shape), "dtype": dtype, "low": low, "high": high, "mode": mode}


def gen_bounds_case(rng, idx):
    n_stack = rng.choice([1, 2, 2, 3, 3, 4, 5])
    kind = "dict" if idx % 3 == 2 else "box"
    keys = ["0"] if kind == "box" else sorted(rng.sample(["a", "b", "c"], rng.randint(1, 3)))
    if kind == "dict" and rng.random() < 0.5:
        order = {k: rng.choice([None, "first", "last"]) for k in keys}
    else:
        order = rng.choice([None, "first", "last"])
    cf = {k: (order[k] if isinstance(order, dict) else order) == "first" for k in keys}
    leaves = {k: _gen_leaf(rng, cf[k]) for k in keys}
    n_envs = rng.randint(1, 2)

    def frame():
        return {k: [rng.randint(l, h) for l, h in zip(lf["low"], lf["high"])] for k, lf in leaves.items()}

    episodes = [[[frame() for _ in range(1 + rng.choice([1, 1, 2, 3, 5]))] for _ in range(rng.randint(1, 3))] for _ in range(n_envs)]
    ops = ["reset"] + [("reset" if rng.random() < 0.1 else "step") for _ in range(rng.randint(5, 12))]
    return {"stream": "bounds", "id": idx, "kind": kind, "n_stack": n_stack, "order": order, "cf": cf, "leaves": leaves, "n_envs": n_envs,
            "episodes": episodes, "ops": ops, "outer_checknan": rng.random() < 0.25}


# ---------------------------------------------------------------- bounds: implementation

def _np_leaf(lf, vals):
    import numpy as np

    return np.array(vals, dtype=np.dtype(lf["dtype"])).reshape(lf["shape"])


def _bounds_space(case):
    import numpy as np
    from gymnasium import spaces

    def box(lf):
        return spaces.Box(low=_np_leaf(lf, lf["low"]), high=_np_leaf(lf, lf["high"]), dtype=np.dtype(lf["dtype"]).type)

    if case["kind"] == "box":
        return box(case["leaves"]["0"])
    return spaces.Dict({k: box(lf) for k, lf in case["leaves"].items()})


def _bounds_env_cls():
    import gymnasium as gym
    from gymnasium import spaces

    class BoundsEnv(gym.Env):
        def __init__(self, case, i):
            self.case, self.eps = case, case["episodes"][i]
            self.observation_space = _bounds_space(case)
            self.action_space = spaces.Discrete(2)
            self.ep, self.pos = -1, 0

        def _obs(self, fr):
            d = {k: _np_leaf(self.case["leaves"][k], v) for k, v in fr.items()}
            return d["0"] if self.case["kind"] == "box" else d

        def reset(self, *, seed=None, options=None):
            self.ep += 1
            self.pos = 0
            return self._obs(self.eps[self.ep % len(self.eps)][0]), {}

        def step(self, action):
            ep = self.eps[self.ep % len(self.eps)]
            self.pos += 1
            return self._obs(ep[self.pos]), 0.0, self.pos == len(ep) - 1, False, {}

    return BoundsEnv


def run_bounds_impl(case):
    import warnings

    import numpy as np
    from stable_baselines3.common.vec_env import DummyVecEnv, VecCheckNan, VecFrameStack

    Env = _bounds_env_cls()
    with warnings.catch_warnings():
        warnings.simplefilter("ignore")
        venv = VecFrameStack(DummyVecEnv([(lambda i=i: Env(case, i)) for i in range(case["n_envs"])]), case["n_stack"], channels_order=case["order"])
        if case.get("outer_checknan"):
            venv = VecCheckNan(venv, raise_exception=True)
        sp = venv.observation_space
        subs = {"0": sp} if case["kind"] == "box" else dict(sp.spaces)
        declared = {k: {"shape": list(s.shape), "low": np.array(s.low), "high": np.array(s.high), "dtype": str(s.dtype)} for k, s in subs.items()}

        def parts(o, i):
            return {"0": np.array(o[i])} if case["kind"] == "box" else {k: np.array(v[i]) for k, v in o.items()}

        def member(p):
            whole = sp.contains(p["0"] if case["kind"] == "box" else p)
            per = {k: bool(subs[k].contains(v)) for k, v in p.items()}
            return bool(whole), per

        out = [[] for _ in range(case["n_envs"])]
        try:
            for op in case["ops"]:
                if op == "reset":
                    obs = venv.reset()
                    for i in range(case["n_envs"]):
                        p = parts(obs, i)
                        out[i].append({"obs": p, "in": member(p), "done": False, "term": None, "term_in": None})
                else:
                    obs, _, dones, infos = venv.step(np.zeros(case["n_envs"], dtype=np.int64))
                    for i in range(case["n_envs"]):
                        p = parts(obs, i)
                        t = infos[i].get("terminal_observation")
                        tp = None if t is None else ({"0": np.array(t)} if case["kind"] == "box" else {k: np.array(v) for k, v in t.items()})
                        out[i].append({"obs": p, "in": member(p), "done": bool(dones[i]), "term": tp, "term_in": None if tp is None else member(tp)})
        finally:
            venv.close()
    return {"declared": declared, "out": out}


# ---------------------------------------------------------------- bounds: schedule shared by oracle and model

def bounds_schedule(case, i):
    """what the wrapped env shows sub-environment i: ("reset", frame) | ("step", frame, done, terminal frame or None) with DummyVecEnv's auto-reset"""
    eps = case["episodes"][i]
    ep, pos, evs = -1, 0, []
    for op in case["ops"]:
        if op == "reset":
            ep, pos = ep + 1, 0
            evs.append(("reset", eps[ep % len(eps)][0]))
        else:
            cur = eps[ep % len(eps)]
            pos += 1
            if pos == len(cur) - 1:
                ep, term, pos = ep + 1, cur[pos], 0
                evs.append(("step", eps[ep % len(eps)][0], True, term))
            else:
                evs.append(("step", cur[pos], False, None))
    return evs


def bounds_oracle(case, impl):
    """numpy reference from the property text. Returns (problems, known) - problems: [(signature, text)] for anything that is NOT one of the
    two findings; known: {signature: [text, ...]} for outputs outside the declared space whose EVERY offending cell satisfies that finding's predicate"""
    import numpy as np

    n = case["n_stack"]
    probs, known = [], {SIG_PAD: [], SIG_REP: []}
    tiled, repeated = {}, {}
    for k, lf in case["leaves"].items():
        ax = 0 if case["cf"][k] else len(lf["shape"]) - 1
        lo, hi = _np_leaf(lf, lf["low"]), _np_leaf(lf, lf["high"])
        tiled[k] = (np.concatenate([lo] * n, axis=ax), np.concatenate([hi] * n, axis=ax))
        # "every bound n_stack times in a row": index arithmetic, written without np.repeat
        idx = [j // n for j in range(lf["shape"][ax] * n)]
        repeated[k] = (np.take(lo, idx, axis=ax), np.take(hi, idx, axis=ax))
        d = impl["declared"][k]
        want_shape = list(lf["shape"])
        want_shape[ax] *= n
        if d["shape"] != want_shape or d["dtype"] != lf["dtype"]:
            probs.append(("oracle-declared-space-shape", f"key {k}: declared shape/dtype {d['shape']} {d['dtype']} expected {want_shape} {lf['dtype']}"))
            continue
        if not (np.array_equal(d["low"], tiled[k][0]) and np.array_equal(d["high"], tiled[k][1])):
            if np.array_equal(d["low"], repeated[k][0]) and np.array_equal(d["high"], repeated[k][1]):
                known[SIG_REP].append(f"key {k}: base low {lf['low']} high {lf['high']} shape {lf['shape']} n_stack {n}: declared low {d['low'].reshape(-1).tolist()} is each bound {n} times in a row, "
                                      f"the frames are concatenated ({tiled[k][0].reshape(-1).tolist()})")
            else:
                probs.append(("oracle-declared-space-bounds", f"key {k}: declared low/high {d['low'].tolist()} {d['high'].tolist()} are neither the tiled nor the repeated base bounds"))
    if probs:
        return probs, known

    def classify(k, arr, npad, where):
        """arr is the expected (= returned) array; npad leading slots of it are zero padding"""
        lf = case["leaves"][k]
        ax = 0 if case["cf"][k] else len(lf["shape"]) - 1
        d = impl["declared"][k]
        bad = (arr < d["low"]) | (arr > d["high"])
        if not bad.any():
            return None
        slot = np.arange(arr.shape[ax]) // lf["shape"][ax]
        pad = np.broadcast_to((slot < npad).reshape([-1 if a == ax else 1 for a in range(arr.ndim)]), arr.shape)
        own_excl0 = (tiled[k][0] > 0) | (tiled[k][1] < 0)            # the element's own bounds exclude 0
        in_own = (arr >= tiled[k][0]) & (arr <= tiled[k][1])
        is_pad = bad & pad & (arr == 0) & own_excl0                   # finding A: a zero-padded slot whose element bounds exclude 0
        is_rep = bad & ~is_pad & in_own & ~(np.array_equal(d["low"], tiled[k][0]) and np.array_equal(d["high"], tiled[k][1]))   # finding B
        if (bad & ~is_pad & ~is_rep).any():
            c = np.argwhere(bad & ~is_pad & ~is_rep)[0].tolist()
            return ("other", f"{where} key {k}: cell {c} = {arr[tuple(c)]} outside declared [{d['low'][tuple(c)]}, {d['high'][tuple(c)]}] and neither zero padding nor a misaligned bound")
        sigs = ([SIG_PAD] if is_pad.any() else []) + ([SIG_REP] if is_rep.any() else [])
        return (sigs, f"{where} key {k}: returned {arr.reshape(-1).tolist()} declared low {d['low'].reshape(-1).tolist()} high {d['high'].reshape(-1).tolist()} ({npad} padded slot(s))")

    for i in range(case["n_envs"]):
        frames = {k: [] for k in case["leaves"]}
        for j, (ev, got) in enumerate(zip(bounds_schedule(case, i), impl["out"][i])):
            where = f"op {j} ({ev[0]}) env {i}"
            checks = []
            if ev[0] == "step" and ev[2]:
                if got["term"] is None:
                    probs.append(("oracle-terminal-observation", f"{where}: no terminal_observation"))
                    return probs, known
                checks.append(("terminal", {k: frames[k] + [ev[3][k]] for k in frames}, got["term"], got["term_in"]))
            if not (ev[0] == "step" and not ev[2]):
                frames = {k: [] for k in frames}
            for k in frames:
                frames[k] = frames[k] + [ev[1][k]]
            if ev[0] == "step" and got["done"] != ev[2]:
                probs.append(("oracle-done-passthrough", f"{where}: done {got['done']}"))
                return probs, known
            checks.append(("obs", frames, got["obs"], got["in"]))
            for what, frs, arrs, (whole, per) in checks:
                all_in = True
                for k, lf in case["leaves"].items():
                    ax = 0 if case["cf"][k] else len(lf["shape"]) - 1
                    fr = [_np_leaf(lf, v) for v in frs[k][-n:]]
                    npad = n - len(fr)
                    want = np.concatenate([np.zeros_like(fr[0])] * npad + fr, axis=ax)
                    a = arrs[k]
                    if a.shape != want.shape or a.dtype != want.dtype or not np.array_equal(a, want):
                        sig = {"obs": "oracle-stacked-observation" if ev[0] == "step" and not ev[2] else ("oracle-reset-observation" if ev[0] == "reset" else "oracle-observation-after-episode-end"),
                               "terminal": "oracle-terminal-observation" + ("-short-episode" if npad else "")}[what]
                        probs.append((sig, f"{where} {what} key {k}: returned {a.tolist()} expected zero-padded last frames {want.tolist()}"))
                        return probs, known
                    c = classify(k, want, npad, f"{where} {what}")
                    if (c is None) != per[k]:
                        probs.append(("oracle-observation-not-in-declared-space", f"{where} {what} key {k}: contains() says {per[k]} but every cell is {'inside' if c is None else 'not inside'} the declared bounds (dtype/shape?)"))
                        return probs, known
                    if c is not None:
                        all_in = False
                        if c[0] == "other":
                            probs.append(("oracle-observation-not-in-declared-space", c[1]))
                            return probs, known
                        for s in c[0]:
                            known[s].append(c[1])
                if whole != all_in:
                    probs.append(("oracle-observation-not-in-declared-space", f"{where} {what}: the whole space's contains() says {whole}, per key {per}"))
                    return probs, known
    return probs, known


# ---------------------------------------------------------------- bounds: model

def _coq_tensor(shape, vals):
    from harness.common import coq_list, coq_nat, coq_Z

    return f"(mk_tensor {coq_list(shape, coq_nat)} {coq_list(vals, coq_Z)})"


def bounds_coq(case, i, k):
    from harness.common import coq_bool, coq_list, coq_nat

    lf = case["leaves"][k]
    t = lambda v: _coq_tensor(lf["shape"], v)  # noqa: E731
    evs = []
    for ev in bounds_schedule(case, i):
        if ev[0] == "reset":
            evs.append(f"FReset {t(ev[1][k])}")
        else:
            evs.append(f"FStep {t(ev[1][k])} {coq_bool(ev[2])} " + ("None" if ev[3] is None else f"(Some {t(ev[3][k])})"))
    return f"bounds_run_print {coq_bool(case['cf'][k])} {coq_nat(case['n_stack'])} {t(lf['low'])} {t(lf['high'])} {coq_list(evs)}"


def _opt(x):
    return x[1] if isinstance(x, tuple) and x and x[0] == "Some" else None


def bounds_model_diff(case, impl, vals):
    from harness.c17 import rle

    it = iter(vals)
    for i in range(case["n_envs"]):
        for k in sorted(case["leaves"]):
            (lo_s, lo_r, hi, verdicts) = next(it)      # ((shape, rle), (shape, rle), verdicts): the printer flattens the leftmost pair
            lo = (lo_s, lo_r)
            d = impl["declared"][k]
            for name, m, arr in (("low", lo, d["low"]), ("high", hi, d["high"])):
                if (list(m[0]), [tuple(x) for x in m[1]]) != (d["shape"], rle(arr)):
                    return ("declared-bounds", f"key {k}: declared {name} {arr.reshape(-1).tolist()} (shape {d['shape']}), Model.WrapperBounds.trepeat gives shape {list(m[0])} rle {m[1]}")
            for j, (v, got) in enumerate(zip(verdicts, impl["out"][i])):
                m_obs, m_term, m_view = v
                if not m_view:
                    return ("grid-view", f"env {i} key {k} op {j}: the grid view of the model window differs from its tensor view")
                g_term = None if got["term_in"] is None else got["term_in"][1][k]
                if bool(m_obs) != got["in"][1][k] or _opt(m_term) != g_term:
                    return ("contains", f"env {i} key {k} op {j}: contains(obs)/contains(terminal) impl {got['in'][1][k]}/{g_term} model {m_obs}/{_opt(m_term)}")
    return None


BOUNDS_CORPUS_IDS = {"corpus-zero-padding": SIG_PAD, "corpus-repeated-bounds": SIG_REP}


def run_bounds_stream(chk, corpus, n_gen):
    """returns stats; reports the two known findings once each, from their fixed corpus input; anything else is a violation"""
    cases = list(corpus) + [gen_bounds_case(chk.rng, k) for k in range(n_gen)]
    stats = {"cases": len(cases), "outputs_checked": 0, "terminal_checked": 0, "outside_declared_space": {SIG_PAD: 0, SIG_REP: 0}, "modes": {}, "dtypes": {}, "kinds": {},
             "declared_bounds_compared": 0, "cases_with_bounds_excluding_0": 0, "short_episode_terminal_outside": 0}
    impls = []
    for c in cases:
        try:
            impls.append(run_bounds_impl(c))
        except Exception as e:  # noqa: BLE001
            chk.violation("oracle-crash-type-correct-stack", f"VecFrameStack over a bounded space raised {type(e).__name__}: {e}", {"case": c}, found_input=True)
            return stats
    exprs = [bounds_coq(c, i, k) for c in cases for i in range(c["n_envs"]) for k in sorted(c["leaves"])]
    vals = common.coq_eval_many(f"C17b_{os.getpid()}", BOUNDS_HEADER, exprs, shard=60, procs=4)
    from harness.c17 import _rm_cases

    _rm_cases(f"C17b_{os.getpid()}")
    pos = 0
    reported = set()
    for c, im in zip(cases, impls):
        cnt = c["n_envs"] * len(c["leaves"])
        v = vals[pos:pos + cnt]
        pos += cnt
        stats["kinds"][c["kind"]] = stats["kinds"].get(c["kind"], 0) + 1
        for lf in c["leaves"].values():
            stats["modes"][lf.get("mode", "corpus")] = stats["modes"].get(lf.get("mode", "corpus"), 0) + 1
            stats["dtypes"][lf["dtype"]] = stats["dtypes"].get(lf["dtype"], 0) + 1
        if any(l > 0 or h < 0 for lf in c["leaves"].values() for l, h in zip(lf["low"], lf["high"])):
            stats["cases_with_bounds_excluding_0"] += 1
        stats["outputs_checked"] += sum(len(o) for o in im["out"])
        stats["terminal_checked"] += sum(1 for o in im["out"] for e in o if e["term"] is not None)
        stats["declared_bounds_compared"] += 2 * len(c["leaves"])
        probs, known = bounds_oracle(c, im)
        if probs:
            chk.violation(probs[0][0], probs[0][1], {"case": c, "problems": [list(p) for p in probs[:5]]}, found_input=True)
            return stats
        for s, texts in known.items():
            stats["outside_declared_space"][s] += len(texts)
            stats["short_episode_terminal_outside"] += sum(1 for t in texts if " terminal " in t)
            if texts and BOUNDS_CORPUS_IDS.get(c["id"]) == s and s not in reported:
                reported.add(s)
                chk.violation(s, texts[-1] if s == SIG_REP else texts[0], {"case": c, "outputs_outside_declared_space": texts[:6]}, found_input=True)
        dm = bounds_model_diff(c, im, v)
        if dm:
            chk.violation(f"model-correspondence-bounds-{dm[0]}", dm[1], {"case": c, "correspondence": "harness/c17_round5.py vs Model.WrapperBounds.bounds_run"}, found_input=False)
            return stats
    return stats


# ---------------------------------------------------------------- VecCheckNan

NANS = {"nan": float("nan"), "inf": float("inf"), "-inf": float("-inf")}


def gen_nan_case(rng, idx):
    kind = ["array", "dict", "array2"][idx % 3]
    leaves = {"array": {"0": [2]}, "array2": {"0": [2, 2]}, "dict": {"a": [2], "b": [1, 2]}}[kind]
    n_envs = rng.randint(1, 2)
    p = rng.choice([0.0, 0.03, 0.08, 0.15])

    def cell():
        return rng.choice(["nan", "inf", "-inf", "nan"]) if rng.random() < p else rng.randint(-3, 3)

    def size(s):
        r = 1
        for x in s:
            r *= x
        return r

    ops = []
    for j in range(rng.randint(4, 10)):
        op = {"op": "reset" if j == 0 or rng.random() < 0.12 else "step",
              "obs": [{k: [cell() for _ in range(size(s))] for k, s in leaves.items()} for _ in range(n_envs)]}
        if op["op"] == "step":
            op["rew"] = [cell() for _ in range(n_envs)]
            op["act"] = [cell() for _ in range(n_envs)]
        ops.append(op)
    # the first reset is finite: VecCheckNan builds the step_async report from self._observations, which exists only once a reset()/step_wait()
    # has come back through the wrapper (a reset that RAISED followed by a non-finite action gives AttributeError instead of the report:
    # use after a failed reset, outside the quantifier; noted in docs/C17.md)
    ops[0]["obs"] = [{k: [rng.randint(-3, 3) for _ in v] for k, v in o.items()} for o in ops[0]["obs"]]
    return {"stream": "checknan", "id": idx, "kind": kind, "leaves": leaves, "n_envs": n_envs, "ops": ops,
            "cfg": {"raise_exception": rng.random() < 0.5, "warn_once": rng.random() < 0.5, "check_inf": rng.random() < 0.6}}


def _val(c):
    return NANS[c] if isinstance(c, str) else float(c)


def run_nan_impl(case):
    """per op: ("reset"|"step", [found in the warnings], data) | ("reset_raised"|"async_raised"|"wait_raised", found, stepped)"""
    import re
    import warnings

    import gymnasium as gym
    import numpy as np
    from gymnasium import spaces

    from stable_baselines3.common.vec_env import DummyVecEnv, VecCheckNan

    keys = sorted(case["leaves"])

    class InjEnv(gym.Env):
        def __init__(self):
            boxes = {k: spaces.Box(-np.inf, np.inf, tuple(s), np.float32) for k, s in case["leaves"].items()}
            self.observation_space = boxes["0"] if keys == ["0"] else spaces.Dict(boxes)
            self.action_space = spaces.Box(-np.inf, np.inf, (1,), np.float32)
            self.pending, self.n_steps, self.last_action = None, 0, None

        def _obs(self):
            d = {k: np.array([_val(c) for c in self.pending["obs"][k]], dtype=np.float32).reshape(case["leaves"][k]) for k in keys}
            return d["0"] if keys == ["0"] else d

        def reset(self, *, seed=None, options=None):
            return self._obs(), {}

        def step(self, action):
            self.n_steps += 1
            self.last_action = np.array(action)
            return self._obs(), _val(self.pending["rew"]), False, False, {}

    venv = DummyVecEnv([InjEnv for _ in range(case["n_envs"])])
    w = VecCheckNan(venv, **case["cfg"])

    def names_to_idx(event):
        if event == "async":
            return {"actions": 0}
        m = {("observations" if keys == ["0"] else f"observations.{k}"): j for j, k in enumerate(keys)}
        m["rewards"], m["dones"] = len(keys), len(keys) + 1
        return m

    def parse(msg):
        event = "async" if "Originated from the RL model" in msg else "wait_or_reset"
        idx = names_to_idx(event)
        return [event] + [[idx.get(nm, -1), ty] for ty, nm in re.findall(r"found (inf|nan) in ([\w.]+?)[,.](?:\s|$)", msg.split("\r\n")[0] + " ")]

    def data(o):
        return {k: np.array(v) for k, v in o.items()} if isinstance(o, dict) else {"0": np.array(o)}

    out = []
    try:
        for op in case["ops"]:
            for i, e in enumerate(venv.envs):
                e.pending = {"obs": op["obs"][i], "rew": op.get("rew", [0] * case["n_envs"])[i]}
            before = [e.n_steps for e in venv.envs]
            with warnings.catch_warnings(record=True) as rec:
                warnings.simplefilter("always")
                try:
                    if op["op"] == "reset":
                        o = w.reset()
                        res = ["reset", None, data(o)]
                    else:
                        acts = np.array([[_val(c)] for c in op["act"]], dtype=np.float32)
                        o, r, d, infos = w.step(acts)
                        res = ["step", None, data(o), np.array(r), np.array(d), [np.array(e.last_action) for e in venv.envs]]
                except ValueError as ex:
                    stepped = [e.n_steps for e in venv.envs] != before
                    f = parse(str(ex))
                    res = ["reset_raised" if op["op"] == "reset" else ("wait_raised" if stepped else "async_raised"), None, f]
                res[1] = [parse(str(x.message)) for x in rec if issubclass(x.category, UserWarning)]
            out.append(res)
    finally:
        venv.close()
    return out


def nan_arrays(case, op):
    """the named arrays VecCheckNan is shown: (actions), (observations per key over all envs, rewards)"""
    keys = sorted(case["leaves"])
    obs = [[c for i in range(case["n_envs"]) for c in op["obs"][i][k]] for k in keys]
    return (list(op["act"]) if op["op"] == "step" else None), obs, (list(op["rew"]) if op["op"] == "step" else None)


def nan_oracle(case):
    """plain Python from the docstring: raise (raise_exception) or warn (once if warn_once) when a checked value holds nan, or +-inf under check_inf;
    actions are checked before the env is stepped; otherwise everything is handed on"""
    cfg = case["cfg"]
    warned = False
    exp = []

    def found(arrays, names):
        f = []
        for nm, a in zip(names, arrays):
            if cfg["check_inf"] and any(c in ("inf", "-inf") for c in a):
                f.append([nm, "inf"])
            if any(c == "nan" for c in a):
                f.append([nm, "nan"])
        return f

    def check(arrays, names):
        nonlocal warned
        if not cfg["raise_exception"] and cfg["warn_once"] and warned:
            return "pass", []
        f = found(arrays, names)
        if not f:
            return "pass", []
        warned = True
        return ("raise" if cfg["raise_exception"] else "warn"), f

    for op in case["ops"]:
        act, obs, rew = nan_arrays(case, op)
        if op["op"] == "reset":
            v, f = check(obs, range(len(obs)))
            exp.append(["reset_raised", f] if v == "raise" else ["reset", [f] if v == "warn" else []])
        else:
            va, fa = check([act], [0])
            if va == "raise":
                exp.append(["async_raised", fa])
                continue
            vw, fw = check(obs + [rew], range(len(obs) + 1))
            if vw == "raise":
                exp.append(["wait_raised", fw, [fa] if va == "warn" else []])
            else:
                exp.append(["step", ([fa] if va == "warn" else []) + ([fw] if vw == "warn" else [])])
    return exp


def nan_coq(case):
    from harness.common import coq_bool, coq_list

    def cell(c):
        return {"nan": "NaN", "inf": "PInf", "-inf": "NInf"}[c] if isinstance(c, str) else f"(Fin ({c})%Z)"

    arr = lambda a: coq_list(a, cell)  # noqa: E731
    evs = []
    for op in case["ops"]:
        act, obs, rew = nan_arrays(case, op)
        if op["op"] == "reset":
            evs.append(f"NReset {coq_list(obs, arr)}")
        else:
            evs.append(f"NStep {arr(act)} {coq_list(obs, arr)} {arr(rew)} {coq_list([False] * case['n_envs'], coq_bool)}")
    c = case["cfg"]
    return f"cn_run (mk_cfg {coq_bool(c['raise_exception'])} {coq_bool(c['warn_once'])} {coq_bool(c['check_inf'])}) false {coq_list(evs)}"


def nan_model_summary(val):
    """Model.CheckNan.cn_out list -> the oracle's format"""
    def fl(f):
        return [[int(x[0]), "inf" if x[1] == "IInf" else "nan"] for x in f]

    def verdict(v):
        if isinstance(v, tuple) and v[0] in ("VWarn", "VRaise"):
            return [fl(v[1])]
        return []

    out = []
    for o in val:
        tag = o[0]
        if tag == "CNReset":
            out.append(["reset", verdict(o[1])])
        elif tag == "CNResetRaised":
            out.append(["reset_raised", fl(o[1])])
        elif tag == "CNAsyncRaised":
            out.append(["async_raised", fl(o[1])])
        elif tag == "CNStep":
            out.append(["step", verdict(o[1]) + verdict(o[2])])
        else:
            out.append(["wait_raised", fl(o[2]), verdict(o[1])])
    return out


def nan_impl_summary(case, impl):
    import numpy as np

    out, data_probs = [], []
    keys = sorted(case["leaves"])
    for j, (op, r) in enumerate(zip(case["ops"], impl)):
        warns = [[[i, t] for i, t in w[1:]] for w in r[1]]
        if r[0] in ("reset", "step"):
            out.append([r[0], warns])
            for k in keys:   # handed on unchanged (nan == nan here)
                want = np.array([[_val(c) for c in op["obs"][i][k]] for i in range(case["n_envs"])], dtype=np.float32).reshape([case["n_envs"]] + list(case["leaves"][k]))
                if r[2][k].shape != want.shape or not np.array_equal(r[2][k], want, equal_nan=True):
                    data_probs.append(f"op {j}: observation key {k} returned {r[2][k].tolist()} but the wrapped env gave {want.tolist()}")
            if r[0] == "step":
                wr = np.array([_val(c) for c in op["rew"]], dtype=np.float32)
                if not np.array_equal(np.asarray(r[3], dtype=np.float32), wr, equal_nan=True) or r[4].tolist() != [False] * case["n_envs"]:
                    data_probs.append(f"op {j}: rewards/dones returned {r[3].tolist()} {r[4].tolist()} but the wrapped env gave {wr.tolist()} all-False")
                wa = [_val(c) for c in op["act"]]
                if not np.array_equal(np.array([a.reshape(-1)[0] for a in r[5]], dtype=np.float32), np.array(wa, dtype=np.float32), equal_nan=True):
                    data_probs.append(f"op {j}: the wrapped env received actions {[a.tolist() for a in r[5]]}, the agent sent {wa}")
        elif r[0] == "wait_raised":
            out.append([r[0], [[i, t] for i, t in r[2][1:]], warns])
        else:
            out.append([r[0], [[i, t] for i, t in r[2][1:]]])
    return out, data_probs


def run_checknan_stream(chk, corpus, n_gen):
    cases = list(corpus) + [gen_nan_case(chk.rng, k) for k in range(n_gen)]
    stats = {"cases": len(cases), "ops": 0, "raised": {"reset_raised": 0, "async_raised": 0, "wait_raised": 0}, "warnings": 0, "ops_with_nonfinite_input": 0,
             "ops_passed_through_with_ignored_inf_or_after_warn_once": 0, "kinds": {}}
    vals = common.coq_eval_many(f"C17n_{os.getpid()}", NAN_HEADER, [nan_coq(c) for c in cases], shard=80, procs=4)
    from harness.c17 import _rm_cases

    _rm_cases(f"C17n_{os.getpid()}")
    for c, v in zip(cases, vals):
        try:
            impl = run_nan_impl(c)
        except Exception as e:  # noqa: BLE001
            chk.violation("oracle-checknan-crash", f"VecCheckNan raised {type(e).__name__}: {e}", {"case": c}, found_input=True)
            return stats
        got, data_probs = nan_impl_summary(c, impl)
        want = nan_oracle(c)
        model = nan_model_summary(v)
        stats["kinds"][c["kind"]] = stats["kinds"].get(c["kind"], 0) + 1
        stats["ops"] += len(got)
        for op, g in zip(c["ops"], got):
            act, obs, rew = nan_arrays(c, op)
            nonfin = any(isinstance(x, str) for a in obs + [act or [], rew or []] for x in a)
            stats["ops_with_nonfinite_input"] += nonfin
            if g[0] in stats["raised"]:
                stats["raised"][g[0]] += 1
            else:
                stats["warnings"] += len(g[1])
                stats["ops_passed_through_with_ignored_inf_or_after_warn_once"] += bool(nonfin and not g[1])
        if data_probs:
            chk.violation("oracle-checknan-passthrough", data_probs[0], {"case": c, "problems": data_probs[:5]}, found_input=True)
            return stats
        if got != want:
            j = next((j for j, (a, b) in enumerate(zip(got, want)) if a != b), min(len(got), len(want)))
            chk.violation("oracle-checknan-detection-exact", f"{c['kind']} observations, cfg {c['cfg']}, op {j} {c['ops'][j] if j < len(c['ops']) else ''}: VecCheckNan did {got[j] if j < len(got) else None}, "
                          f"expected {want[j] if j < len(want) else None} ([array index, kind]; arrays: actions | observations per key, rewards)", {"case": c, "impl": got, "expected": want}, found_input=True)
            return stats
        if got != model:
            j = next((j for j, (a, b) in enumerate(zip(got, model)) if a != b), 0)
            chk.violation("model-correspondence-checknan", f"op {j}: impl {got[j:j + 1]} model {model[j:j + 1]}", {"case": c, "impl": got, "model": model, "correspondence": "harness/c17_round5.py vs Model.CheckNan.cn_run"}, found_input=False)
            return stats
    return stats


def replay_case(case):
    """used by harness/c17.replay for the round-5 streams"""
    import json

    class _Chk:
        def __init__(self):
            self.violations, self.rng = [], None

        def violation(self, sig, what, rep, found_input=True):
            self.violations.append((sig, what))

    chk = _Chk()
    if case["stream"] == "bounds":
        run_bounds_stream(chk, [case], 0)
        if case.get("id") not in BOUNDS_CORPUS_IDS:
            im = run_bounds_impl(case)
            probs, known = bounds_oracle(case, im)
            chk.violations += [(s, t[0]) for s, t in known.items() if t]
    else:
        run_checknan_stream(chk, [case], 0)
    print(json.dumps({"problems": chk.violations}, indent=1, default=str))
    return 1 if chk.violations else 0
